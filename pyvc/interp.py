"""
pyvc.interp -- mixed concrete/symbolic interpreter for the Python subset of
DESIGN.md 2.2, run directly on the ASTs extracted from /repo.

Normal mode: symbolic conditions fork the path.  Spec mode (contracts,
invariants, quantifier bodies): and/or/not/if-expressions on symbolic
conditions are merged into z3 terms; forking is an error.
"""
import ast
import datetime
import z3
from collections import OrderedDict

from . import ops
from .ops import PyExc, truth, to_sbool, zbool, compare, binop, unaryop, values_equal
from .sym import (SymKeyDict, Sym, SBool, SInt, SReal, SDate, SStr, SOpaque, SList, SSet,
                  SMap, SObj, StrS, ObjS, slen, TD, T, Unsupported, is_numeric,
                  num_z, to_real)
from .extract import RepoFunction, RepoClass, ModuleRef, RepoModule, load_module, BuiltinRef
from .path import PathEnd


class ReturnSig(Exception):
    def __init__(self, value):
        self.value = value


class BreakSig(Exception):
    pass


class ContinueSig(Exception):
    pass


class Frame(object):
    def __init__(self, module, locals_=None, localnames=(), parent=None,
                 fn=None):
        self.module = module
        self.locals = locals_ if locals_ is not None else {}
        self.localnames = set(localnames)
        self.parent = parent
        self.fn = fn
        self.loop_ordinals = None


class Closure(object):
    def __init__(self, node, frame, name='<lambda>'):
        self.node = node
        self.frame = frame
        self.name = name


class BoundMethod(object):
    def __init__(self, obj, target, name):
        self.obj = obj
        self.target = target      # RepoFunction | Contract | python callable
        self.name = name


class Builtin(object):
    """fn(it, *args, **kwargs)"""
    def __init__(self, fn, name=None):
        self.fn = fn
        self.name = name or fn.__name__


def specfn(fn):
    return Builtin(fn)


class SpecFunction(object):
    """A function of a spec module (/verif/specs): interpreted in spec mode."""
    def __init__(self, fn):
        self.fn = fn
        self.name = fn.name


class PyType(object):
    """A Python type object as seen by interpreted code."""
    def __init__(self, t):
        self.t = t


def assigned_names(nodes):
    """Names assigned anywhere in a list of statements (not nested defs)."""
    out = set()

    class V(ast.NodeVisitor):
        def visit_FunctionDef(self, n):
            out.add(n.name)

        def visit_Lambda(self, n):
            pass

        def visit_ListComp(self, n):
            pass

        visit_SetComp = visit_DictComp = visit_GeneratorExp = visit_ListComp

        def visit_Name(self, n):
            if isinstance(n.ctx, (ast.Store, ast.Del)):
                out.add(n.id)

        def visit_ExceptHandler(self, n):
            if n.name:
                out.add(n.name)
            self.generic_visit(n)

        def visit_Import(self, n):
            for a in n.names:
                out.add((a.asname or a.name).split('.')[0])

        visit_ImportFrom = visit_Import

    v = V()
    for n in nodes:
        v.visit(n)
    return out


def loop_targets(body):
    """(names, attr targets [(objname, attr)], subscripted names) assigned in body."""
    names, attrs, subs = set(), set(), set()
    mutating = ('append', 'extend', 'insert', 'pop', 'remove', 'add', 'update',
                'sort', 'reverse', 'clear', 'discard', 'setdefault')

    class V(ast.NodeVisitor):
        def visit_FunctionDef(self, n):
            names.add(n.name)

        def visit_Lambda(self, n):
            pass

        def visit_Name(self, n):
            if isinstance(n.ctx, (ast.Store, ast.Del)):
                names.add(n.id)

        def visit_Attribute(self, n):
            if isinstance(n.ctx, (ast.Store, ast.Del)) and isinstance(n.value, ast.Name):
                attrs.add((n.value.id, n.attr))
            self.generic_visit(n)

        def visit_Subscript(self, n):
            if isinstance(n.ctx, (ast.Store, ast.Del)):
                v = n.value
                if isinstance(v, ast.Name):
                    subs.add(v.id)
                elif isinstance(v, ast.Attribute) and isinstance(v.value, ast.Name):
                    attrs.add((v.value.id, v.attr))
            self.generic_visit(n)

        def visit_Call(self, n):
            f = n.func
            if isinstance(f, ast.Attribute) and f.attr in mutating:
                if isinstance(f.value, ast.Name):
                    subs.add(f.value.id)
                elif (isinstance(f.value, ast.Attribute)
                      and isinstance(f.value.value, ast.Name)):
                    attrs.add((f.value.value.id, f.value.attr))
            self.generic_visit(n)

        def visit_ExceptHandler(self, n):
            if n.name:
                names.add(n.name)
            self.generic_visit(n)

    v = V()
    for n in body:
        v.visit(n)
    return names, attrs, subs


CMP = {ast.Eq: '==', ast.NotEq: '!=', ast.Lt: '<', ast.LtE: '<=', ast.Gt: '>',
       ast.GtE: '>=', ast.Is: 'is', ast.IsNot: 'is not', ast.In: 'in',
       ast.NotIn: 'not in'}
BIN = {ast.Add: '+', ast.Sub: '-', ast.Mult: '*', ast.Div: '/',
       ast.FloorDiv: '//', ast.Mod: '%', ast.Pow: '**', ast.BitOr: '|',
       ast.BitAnd: '&', ast.BitXor: '^', ast.LShift: '<<', ast.RShift: '>>'}
UN = {ast.Not: 'not', ast.USub: '-', ast.UAdd: '+', ast.Invert: '~'}

MAX_UNROLL = 400


class Interp(object):
    def __init__(self, path, registry=None, inline=(), loops=None,
                 spec_env=None, target=None):
        self.path = path
        self.registry = registry or {}
        self.inline = set(inline)
        self.loops = loops or {}
        self.spec_env = dict(spec_env or {})
        self.specmode = False
        self.target = target
        self._strlits = {}
        self._bound = 0
        self.quant_depth = 0
        self.call_depth = 0
        self.ghost = {}            # free ghost state for effects

    # ------------------------------------------------------------------
    # helpers used by ops
    # ------------------------------------------------------------------
    def branch(self, cond):
        if isinstance(cond, bool):
            return cond
        if self.specmode:
            c = z3.simplify(cond)
            if z3.is_true(c):
                return True
            if z3.is_false(c):
                return False
            raise Unsupported('fork in spec mode on %s' % str(c)[:80])
        return self.path.branch(cond)

    def fact(self, cond):
        self.path.assume(cond)

    def strlit(self, s):
        if s not in self._strlits:
            c = z3.Const('str!%r' % s, StrS)
            for o, oc in self._strlits.items():
                self.path.assume(c != oc)
            self._strlits[s] = c
            self.path.assume(slen(c) == len(s))
        return self._strlits[s]

    def bound_var(self, base='q'):
        self._bound += 1
        return z3.Int('%s!%d' % (base, self._bound))

    def fresh_str(self, base='s'):
        z = z3.Const(self.path.fresh_name(base), StrS)
        return SStr(z)

    def fresh_opaque(self, base='o'):
        n = self.path.fresh_name(base)
        return SOpaque(z3.Const(n, ObjS), n)

    def lift_list(self, v):
        if isinstance(v, SList):
            return v
        if isinstance(v, (list, tuple)):
            items = list(v)
            kind = 'list' if isinstance(v, list) else 'tuple'

            def get(i, items=items):
                if not items:
                    raise Unsupported('element of empty list')
                r = items[-1]
                for k in range(len(items) - 2, -1, -1):
                    r = self.ite_value(i == k, (lambda kk=k: items[kk]),
                                       (lambda rr=r: rr))
                return r
            return SList(z3.IntVal(len(items)), get, None, kind)
        return v

    def lift_set(self, v):
        if isinstance(v, SSet):
            return v
        items = list(v)

        def has(x):
            parts = [values_equal(self, x, y) for y in items]
            if any(p is True for p in parts):
                return True
            zs = [p for p in parts if p is not False]
            return z3.Or(*zs) if zs else False
        def forall(pred):
            zs = [zbool(pred(y)) for y in items]
            return z3.And(*zs) if zs else z3.BoolVal(True)
        r = SSet(has, z3.IntVal(len(items)) if not any(
            isinstance(y, Sym) for y in items) else None, None, forall)
        r.exact = True          # forall ranges over exactly the members
        return r

    def ite_value(self, cond, fthen, felse):
        if isinstance(cond, bool):
            return fthen() if cond else felse()
        c = z3.simplify(cond)
        if z3.is_true(c):
            return fthen()
        if z3.is_false(c):
            return felse()
        a, b = fthen(), felse()
        if a is b:
            return a
        if is_numeric(a) and is_numeric(b):
            if (isinstance(a, (bool, SBool)) and isinstance(b, (bool, SBool))):
                return SBool(z3.If(c, zbool(a if isinstance(a, bool) else a.z),
                                   zbool(b if isinstance(b, bool) else b.z)))
            za, ra = num_z(a)
            zb, rb = num_z(b)
            if ra or rb:
                return SReal(z3.If(c, to_real(za), to_real(zb)))
            if isinstance(a, (bool, SBool)) != isinstance(b, (bool, SBool)):
                raise Unsupported('ite mixing bool and int')
            return SInt(z3.If(c, za, zb))
        if ops.is_strlike(a) and ops.is_strlike(b):
            return SStr(z3.If(c, ops.strz(self, a), ops.strz(self, b)))
        if isinstance(a, SDate) and isinstance(b, SDate) and a.kind == b.kind:
            return SDate(z3.If(c, a.z, b.z), a.kind)
        if isinstance(a, SOpaque) and isinstance(b, SOpaque):
            return SOpaque(z3.If(c, a.z, b.z), 'ite')
        if a is None and b is None:
            return None
        if self.specmode or self.quant_depth:
            raise Unsupported('cannot merge %s / %s' % (ops.typename(a), ops.typename(b)))
        return a if self.path.branch(c) else b

    # ------------------------------------------------------------------
    # fresh values from type descriptors
    # ------------------------------------------------------------------
    def fresh(self, td, name):
        tag = td.tag
        p = self.path
        if tag == 'none':
            return None
        if tag == 'const':
            return td.args[0]
        if tag == 'bool':
            return SBool(z3.Bool(p.fresh_name(name)))
        if tag == 'int':
            return SInt(z3.Int(p.fresh_name(name)))
        if tag == 'nat':
            z = z3.Int(p.fresh_name(name))
            p.assume(z >= 0)
            return SInt(z)
        if tag == 'real':
            return SReal(z3.Real(p.fresh_name(name)))
        if tag == 'str':
            return self.fresh_str(name)
        if tag == 'datetime':
            return SDate(z3.Int(p.fresh_name(name)), 'datetime')
        if tag == 'date':
            return SDate(z3.Int(p.fresh_name(name)), 'date')
        if tag == 'opaque':
            return self.fresh_opaque(name)
        if tag == 'enum':
            if self.specmode:
                raise Unsupported('enum fork in spec mode')
            k = p.choose([True] * len(td.args))
            return td.args[k]
        if tag == 'union':
            if self.specmode:
                raise Unsupported('union fork in spec mode')
            k = p.choose([True] * len(td.args))
            return self.fresh(td.args[k], name)
        if tag == 'list':
            elt = td.args[0]
            n = z3.Int(p.fresh_name(name + '.len'))
            p.assume(n >= 0)
            if elt.tag in ('union', 'enum', 'obj', 'list', 'custom'):
                if elt.tag == 'list':
                    raise Unsupported('nested symbolic lists')
                # elements of a union type: the alternative is the same for
                # all elements only if the descriptor says so; otherwise
                # out of reach
                if elt.tag == 'obj':
                    cache = {}
                    base = p.fresh_name(name + '.elt')

                    def get(i, cache=cache):
                        key = str(z3.simplify(i))
                        if key not in cache:
                            cache[key] = self.fresh_obj_indexed(elt, base, i)
                        return cache[key]
                    return SList(n, get, elt, td.kw.get('kind', 'list'))
                raise Unsupported('list of %s' % elt.tag)
            f = self._elt_function(elt, p.fresh_name(name + '.at'))
            return SList(n, f, elt, td.kw.get('kind', 'list'))
        if tag == 'obj':
            o = SObj(td.args[0], label=name)
            methods = td.kw.get('__methods__')
            for k, ftd in td.kw.items():
                if k.startswith('__'):
                    continue
                o.attrs[k] = self.fresh(ftd, '%s.%s' % (name, k)) if isinstance(ftd, TD) else ftd
            if methods:
                o.methods.update(methods)
            rc = td.kw.get('__repo_class__')
            if rc:
                o.repo_class = rc
            return o
        if tag == 'custom':
            return td.args[0](self, name)
        raise Unsupported('fresh %r' % td)

    def _elt_function(self, elt, fname):
        tag = elt.tag
        if tag in ('int', 'nat'):
            f = z3.Function(fname, z3.IntSort(), z3.IntSort())
            if tag == 'nat':
                def get(i):
                    self.path.assume(f(i) >= 0) if not self.quant_depth else None
                    return SInt(f(i))
                return get
            return lambda i: SInt(f(i))
        if tag == 'real':
            f = z3.Function(fname, z3.IntSort(), z3.RealSort())
            return lambda i: SReal(f(i))
        if tag == 'bool':
            f = z3.Function(fname, z3.IntSort(), z3.BoolSort())
            return lambda i: SBool(f(i))
        if tag == 'str':
            f = z3.Function(fname, z3.IntSort(), StrS)
            return lambda i: SStr(f(i))
        if tag in ('datetime', 'date'):
            f = z3.Function(fname, z3.IntSort(), z3.IntSort())
            return lambda i: SDate(f(i), tag)
        if tag == 'opaque':
            f = z3.Function(fname, z3.IntSort(), ObjS)
            return lambda i: SOpaque(f(i), fname)
        raise Unsupported('list element type %r' % elt)

    def fresh_obj_indexed(self, td, base, i):
        """Object whose scalar fields are UFs of the index i (no forking)."""
        o = SObj(td.args[0], label='%s[%s]' % (base, i))
        o.index = i
        for k, ftd in td.kw.items():
            if k.startswith('__'):
                continue
            if not isinstance(ftd, TD):
                o.attrs[k] = ftd
            else:
                o.attrs[k] = self._elt_function(ftd, '%s.%s' % (base, k))(i)
        m = td.kw.get('__methods__')
        if m:
            o.methods.update(m)
        return o

    def infer_td(self, v):
        if isinstance(v, (bool, SBool)):
            return T.bool
        if isinstance(v, (int, SInt)):
            return T.int
        if isinstance(v, (float, SReal)):
            return T.real
        if isinstance(v, (str, SStr)):
            return T.str
        if isinstance(v, SDate):
            return T.datetime if v.kind == 'datetime' else T.date
        if isinstance(v, SList) and v.elt is not None:
            return T.list(v.elt, kind=v.kind)
        if isinstance(v, SOpaque):
            return T.opaque
        return None

    # ------------------------------------------------------------------
    # name resolution
    # ------------------------------------------------------------------
    def lookup(self, name, frame):
        f = frame
        while f is not None:
            if name in f.locals:
                return f.locals[name]
            if name in f.localnames:
                raise PyExc('UnboundLocalError',
                            "local variable '%s' referenced before assignment" % name)
            f = f.parent
        if self.specmode or name in self.spec_env:
            if name in self.spec_env:
                return self.spec_env[name]
        mod = frame.module
        if mod is not None:
            try:
                v = mod.resolve(name)
                if isinstance(v, BuiltinRef):
                    return BUILTINS[v.name]
                if isinstance(v, ModuleRef) and v.name == 'collections.OrderedDict':
                    return BUILTINS['OrderedDict']
                return v
            except KeyError:
                pass
        if name in BUILTINS:
            return BUILTINS[name]
        if name in self.spec_env:
            return self.spec_env[name]
        import builtins as _b
        if hasattr(_b, name):
            # a real Python builtin that pyvc does not model: out of reach, never a NameError of the code
            raise Unsupported('builtin %s is not modelled' % name)
        raise PyExc('NameError', "name '%s' is not defined" % name)

    # ------------------------------------------------------------------
    # expressions
    # ------------------------------------------------------------------
    def eval(self, e, fr):
        m = getattr(self, 'e_' + type(e).__name__, None)
        if m is None:
            raise Unsupported('expression %s (line %s)' % (type(e).__name__,
                                                           getattr(e, 'lineno', '?')))
        return m(e, fr)

    def e_Constant(self, e, fr):
        return e.value

    def e_Name(self, e, fr):
        return self.lookup(e.id, fr)

    def e_Tuple(self, e, fr):
        return tuple(self._elts(e.elts, fr))

    def e_List(self, e, fr):
        return list(self._elts(e.elts, fr))

    def _elts(self, elts, fr):
        out = []
        for x in elts:
            if isinstance(x, ast.Starred):
                v = self.eval(x.value, fr)
                out.extend(self.iterate_concrete(v))
            else:
                out.append(self.eval(x, fr))
        return out

    def e_Set(self, e, fr):
        return self.make_set(self._elts(e.elts, fr))

    def make_set(self, items):
        if any(isinstance(x, (Sym, SObj)) for x in items):
            return self.lift_set(list(items))
        return set(items)

    def e_Dict(self, e, fr):
        d = OrderedDict()
        for k, v in zip(e.keys, e.values):
            if k is None:
                d.update(self.eval(v, fr))
            else:
                kk = self.eval(k, fr)
                if isinstance(kk, Sym):
                    raise Unsupported('symbolic dict key in literal')
                d[kk] = self.eval(v, fr)
        return d

    def e_JoinedStr(self, e, fr):
        parts = []
        sym = False
        for v in e.values:
            if isinstance(v, ast.Constant):
                parts.append(str(v.value))
            else:
                x = self.eval(v.value, fr)
                if isinstance(x, (Sym, SObj)):
                    sym = True
                else:
                    parts.append(format(x))
        return self.fresh_str('fstr') if sym else ''.join(parts)

    def e_BoolOp(self, e, fr):
        is_and = isinstance(e.op, ast.And)
        if self.specmode:
            zs = []
            for v in e.values:
                x = self.eval(v, fr)
                t = truth(self, x)
                if isinstance(t, bool):
                    if is_and and not t:
                        # short-circuit only if nothing symbolic precedes? keep z3 form
                        zs.append(z3.BoolVal(False))
                        break
                    if not is_and and t:
                        zs.append(z3.BoolVal(True))
                        break
                    continue
                zs.append(t)
            if not zs:
                return is_and
            r = z3.And(*zs) if is_and else z3.Or(*zs)
            r = z3.simplify(r)
            if z3.is_true(r):
                return True
            if z3.is_false(r):
                return False
            return SBool(r)
        val = None
        for i, v in enumerate(e.values):
            val = self.eval(v, fr)
            if i == len(e.values) - 1:
                return val
            t = self.branch(truth(self, val))
            if is_and and not t:
                return val
            if not is_and and t:
                return val
        return val

    def e_UnaryOp(self, e, fr):
        return unaryop(self, UN[type(e.op)], self.eval(e.operand, fr))

    def e_BinOp(self, e, fr):
        return binop(self, BIN[type(e.op)], self.eval(e.left, fr),
                     self.eval(e.right, fr))

    def e_Compare(self, e, fr):
        left = self.eval(e.left, fr)
        result = None
        for op, rhs in zip(e.ops, e.comparators):
            right = self.eval(rhs, fr)
            r = compare(self, CMP[type(op)], left, right)
            if isinstance(r, SObj) and len(e.ops) == 1:
                return r          # an element-wise comparison of a library-type stub: a mask object
            if isinstance(r, (SObj,)) or (isinstance(r, Sym) and not isinstance(r, SBool)):
                raise Unsupported('non-bool comparison result')
            if len(e.ops) == 1:
                return r
            if self.specmode:
                rz = zbool(r if isinstance(r, bool) else r.z)
                result = rz if result is None else z3.And(result, rz)
            else:
                t = self.branch(truth(self, r))
                if not t:
                    return r if isinstance(r, bool) else False
                result = True
            left = right
        if self.specmode:
            s = z3.simplify(result)
            if z3.is_true(s):
                return True
            if z3.is_false(s):
                return False
            return SBool(s)
        return True

    def e_IfExp(self, e, fr):
        c = truth(self, self.eval(e.test, fr))
        if isinstance(c, bool):
            return self.eval(e.body if c else e.orelse, fr)
        if self.specmode:
            return self.ite_value(c, lambda: self.eval(e.body, fr),
                                  lambda: self.eval(e.orelse, fr))
        if self.branch(c):
            return self.eval(e.body, fr)
        return self.eval(e.orelse, fr)

    def e_Lambda(self, e, fr):
        return Closure(e, fr)

    def e_Attribute(self, e, fr):
        v = self.eval(e.value, fr)
        return self.getattr(v, e.attr)

    def e_Subscript(self, e, fr):
        v = self.eval(e.value, fr)
        if isinstance(e.slice, ast.Slice):
            lo = self.eval(e.slice.lower, fr) if e.slice.lower else None
            hi = self.eval(e.slice.upper, fr) if e.slice.upper else None
            st = self.eval(e.slice.step, fr) if e.slice.step else None
            return self.getslice(v, lo, hi, st)
        k = self.eval(e.slice, fr)
        return self.getitem(v, k)

    def e_Starred(self, e, fr):
        raise Unsupported('starred expression')

    def e_ListComp(self, e, fr):
        r = self.comprehension(e, fr, 'list')
        return r

    def e_GeneratorExp(self, e, fr):
        return self.comprehension(e, fr, 'gen')

    def e_SetComp(self, e, fr):
        r = self.comprehension(e, fr, 'list')
        if isinstance(r, SList):
            lst = r
            def has(x):
                i = self.bound_var('sc')
                return z3.Exists([i], z3.And(i >= 0, i < lst.n,
                                             zbool(values_equal(self, lst.get(i), x))))
            return SSet(has, None, lst.elt)
        return self.make_set(r)

    def e_DictComp(self, e, fr):
        if len(e.generators) != 1:
            raise Unsupported('nested dict comprehension')
        g = e.generators[0]
        it_ = self.eval(g.iter, fr)
        d = OrderedDict()
        for item in self.iterate_concrete(it_):
            f2 = Frame(fr.module, {}, (), parent=fr)
            self.assign(g.target, item, f2)
            if all(self.branch(truth(self, self.eval(c, f2))) for c in g.ifs):
                k = self.eval(e.key, f2)
                if isinstance(k, Sym):
                    raise Unsupported('symbolic key in dict comprehension')
                d[k] = self.eval(e.value, f2)
        return d

    def comprehension(self, e, fr, kind):
        gens = e.generators
        g = gens[0]
        src = self.eval(g.iter, fr)
        if isinstance(src, SList):
            if len(gens) != 1:
                raise Unsupported('nested comprehension over symbolic list')
            if g.ifs:
                raise Unsupported('filtered comprehension over symbolic list')
            elt_ast = e.elt

            def get(i, src=src):
                f2 = Frame(fr.module, {}, (), parent=fr)
                self.assign(g.target, src.get(i), f2)
                old, self.quant_depth = self.quant_depth, self.quant_depth + 1
                sm, self.specmode = self.specmode, True
                try:
                    return self.eval(elt_ast, f2)
                finally:
                    self.quant_depth = old
                    self.specmode = sm
            # element type: probe with a bound var
            return SList(src.n, get, None, 'list')
        out = []

        def rec(gi, frame):
            if gi == len(gens):
                out.append(self.eval(e.elt, frame))
                return
            gg = gens[gi]
            itv = self.eval(gg.iter, frame) if gi else src
            for item in self.iterate_concrete(itv):
                f2 = Frame(fr.module, {}, (), parent=frame)
                self.assign(gg.target, item, f2)
                ok = True
                for c in gg.ifs:
                    if not self.branch(truth(self, self.eval(c, f2))):
                        ok = False
                        break
                if ok:
                    rec(gi + 1, f2)
        rec(0, fr)
        return out

    def iterate_concrete(self, v):
        if isinstance(v, (list, tuple)):
            return list(v)
        if isinstance(v, (set, frozenset)):
            return sorted(v, key=repr)
        if isinstance(v, dict):
            return list(v.keys())
        if isinstance(v, range):
            if len(v) > MAX_UNROLL:
                raise Unsupported('long concrete range')
            return list(v)
        if isinstance(v, str):
            return list(v)
        if isinstance(v, SList):
            n = z3.simplify(v.n)
            if z3.is_int_value(n):
                return [v.get(z3.IntVal(i)) for i in range(n.as_long())]
            raise Unsupported('iteration over symbolic list without invariant')
        if isinstance(v, SObj) and '__iter__' in v.attrs:
            return self.iterate_concrete(v.attrs['__iter__'])
        if v is None:
            raise PyExc('TypeError', "'NoneType' object is not iterable")
        if is_numeric(v):
            raise PyExc('TypeError', "'%s' object is not iterable" % ops.typename(v))
        raise Unsupported('iteration over %s' % ops.typename(v))

    # -- attribute / item access ----------------------------------------
    def getattr(self, v, name, default=Ellipsis):
        if isinstance(v, SObj):
            if name in v.attrs:
                return v.attrs[name]
            if name in v.methods:
                return BoundMethod(v, v.methods[name], name)
            rc = getattr(v, 'repo_class', None)
            if rc is not None:
                m = rc.find_method(name)
                if m is not None:
                    return BoundMethod(v, m, name)
                # class-level constant attributes
                for n in rc.node.body:
                    if isinstance(n, ast.Assign):
                        for t in n.targets:
                            if isinstance(t, ast.Name) and t.id == name:
                                try:
                                    return rc.module.fold(n.value)
                                except Exception:
                                    raise Unsupported('class attr %s' % name)
            if name == '__class__':
                return SObj('type', {'__name__': v.cls})
            if name == '__dict__':
                return v.attrs
            if default is not Ellipsis:
                return default
            if v.attrs.get('__open__'):
                raise Unsupported('attribute %s of open object %s' % (name, v.cls))
            if getattr(v, 'repo_class', None) is not None and not v.attrs.get('__complete__'):
                # a partial view of an instance of a real class: an attribute that real instances do (or may)
                # have but the view does not model is out of reach (UNDECIDED); only when the class never
                # defines or assigns it is the access an AttributeError of the code under verification
                if v.repo_class.instances_have(name) is not False:
                    raise Unsupported('attribute %s is outside the view of %s given by the contract' % (name, v.cls))
            raise PyExc('AttributeError', "'%s' object has no attribute '%s'" % (v.cls, name))
        if isinstance(v, ModuleRef):
            return module_attr(v, name)
        if isinstance(v, RepoModule):
            try:
                return v.resolve(name)
            except KeyError:
                raise PyExc('AttributeError', name)
        if isinstance(v, RepoClass):
            m = v.find_method(name)
            if m is not None:
                return m
            raise Unsupported('class attribute %s.%s' % (v.name, name))
        if v is None:
            if default is not Ellipsis:
                return default
            raise PyExc('AttributeError', "'NoneType' object has no attribute '%s'" % name)
        meth = value_method(self, v, name)
        if meth is not None:
            return meth
        if default is not Ellipsis:
            return default
        if isinstance(v, (Sym,)):
            if isinstance(v, SOpaque):
                raise Unsupported('attribute %s of opaque %s' % (name, v.label))
            raise PyExc('AttributeError', "'%s' object has no attribute '%s'"
                        % (ops.typename(v), name))
        if isinstance(v, (int, float, str, bool, list, tuple, dict, set)):
            raise PyExc('AttributeError', "'%s' object has no attribute '%s'"
                        % (type(v).__name__, name))
        if isinstance(v, PyExc):
            # a caught exception of the interpreted program: its class name, message and args
            if name == '__class__':
                return SObj('type', {'__name__': v.etype, '__open__': False}, label=v.etype)
            if name == 'args':
                return (v.msg,)
        raise Unsupported('attribute %s of %r' % (name, type(v).__name__))

    def index_value(self, k):
        """Return python int or z3 Int for an index value."""
        if isinstance(k, bool):
            return int(k)
        if isinstance(k, int):
            return k
        if isinstance(k, SInt):
            s = z3.simplify(k.z)
            return s.as_long() if z3.is_int_value(s) else s
        if isinstance(k, SBool):
            return z3.If(k.z, 1, 0)
        raise PyExc('TypeError', 'indices must be integers, not %s' % ops.typename(k))

    def getitem(self, v, k):
        if isinstance(v, (list, tuple, str)):
            if isinstance(k, slice):
                return v[k]
            i = self.index_value(k)
            if isinstance(i, int):
                try:
                    return v[i]
                except IndexError:
                    raise PyExc('IndexError', 'index out of range')
            n = len(v)
            if isinstance(v, str):
                raise Unsupported('symbolic index into str')
            if not self.branch(z3.And(i >= -n, i < n)):
                raise PyExc('IndexError', 'index out of range')
            for j in range(n):
                if self.branch(z3.Or(i == j, i == j - n)):
                    return v[j]
            raise PathEnd('infeasible')
        if isinstance(v, SList):
            i = self.index_value(k)
            iz = z3.IntVal(i) if isinstance(i, int) else i
            if self.specmode and not isinstance(i, int):
                return v.get(iz)      # spec text indexes inside its own guards
            if not self.branch(z3.And(iz >= -v.n, iz < v.n)):
                raise PyExc('IndexError', 'list index out of range')
            if isinstance(i, int) and i < 0:
                return v.get(v.n + i)
            if isinstance(i, int):
                return v.get(iz)
            if self.branch(iz >= 0):
                return v.get(iz)
            return v.get(v.n + iz)
        if isinstance(v, dict):
            if isinstance(k, Sym):
                for key in v:
                    if self.branch(zbool(values_equal(self, k, key))):
                        return v[key]
                raise PyExc('KeyError', 'symbolic key not present')
            try:
                return v[k]
            except KeyError:
                raise PyExc('KeyError', repr(k))
            except TypeError:
                raise Unsupported('unhashable key')
        if isinstance(v, SMap):
            if not self.branch(zbool(v.has(k))):
                raise PyExc('KeyError', 'key not in map %s' % v.label)
            return v.get(k)
        if isinstance(v, SymKeyDict):
            for key, val in v.entries:
                if self.branch(zbool(values_equal(self, k, key))):
                    return val
            if getattr(v, 'default', None) is not None:
                return v.default          # collections.Counter: a missing key counts 0
            raise PyExc('KeyError', 'key not in dict')
        if isinstance(v, SObj):
            gi = v.attrs.get('__getitem__')
            if gi is not None:
                return self.getitem(gi, k)
            if '__getitem__' in v.methods:
                return self.call(BoundMethod(v, v.methods['__getitem__'], '__getitem__'), [k], {})
            rc = getattr(v, 'repo_class', None)
            if rc is not None and rc.find_method('__getitem__'):
                return self.call(BoundMethod(v, rc.find_method('__getitem__'), '__getitem__'), [k], {})
            raise PyExc('TypeError', "'%s' object is not subscriptable" % v.cls)
        if v is None:
            raise PyExc('TypeError', "'NoneType' object is not subscriptable")
        if isinstance(v, SStr):
            raise Unsupported('indexing symbolic str')
        if is_numeric(v):
            raise PyExc('TypeError', "'%s' object is not subscriptable" % ops.typename(v))
        raise Unsupported('subscript of %s' % ops.typename(v))

    def getslice(self, v, lo, hi, st):
        if isinstance(v, SObj) and v.attrs.get('__sliceable__'):
            return v
        if isinstance(v, (list, tuple, str)) and all(
                x is None or isinstance(x, int) for x in (lo, hi, st)):
            return v[lo:hi:st]
        if isinstance(v, (list, tuple)):
            v = self.lift_list(v)
        if isinstance(v, SList) and st is None:
            def norm(x, dflt):
                if x is None:
                    return dflt
                i = self.index_value(x)
                iz = z3.IntVal(i) if isinstance(i, int) else i
                iz = z3.If(iz < 0, z3.If(iz + v.n < 0, 0, iz + v.n),
                           z3.If(iz > v.n, v.n, iz))
                return z3.simplify(iz)
            a = norm(lo, z3.IntVal(0))
            b = norm(hi, v.n)
            n = z3.simplify(z3.If(b > a, b - a, 0))
            g = v.get
            return SList(n, lambda i: g(i + a), v.elt, v.kind)
        raise Unsupported('slice of %s' % ops.typename(v))

    # ------------------------------------------------------------------
    # calls
    # ------------------------------------------------------------------
    def e_Call(self, e, fr):
        # mutation through a method on a local/attribute holding an SList/SSet
        f = e.func
        if isinstance(f, ast.Attribute):
            recv = self.eval(f.value, fr)
            if isinstance(recv, (SList,)) or (
                    isinstance(recv, (list,)) and f.attr in ('append', 'extend', 'insert')
                    and False):
                args = [self.eval(a, fr) for a in e.args]
                new, ret = slist_method(self, recv, f.attr, args)
                if new is not None:
                    self.assign(_as_store(f.value), new, fr)
                return ret
            fn = self.getattr(recv, f.attr)
        else:
            fn = self.eval(f, fr)
        args = []
        for a in e.args:
            if isinstance(a, ast.Starred):
                args.extend(self.iterate_concrete(self.eval(a.value, fr)))
            else:
                args.append(self.eval(a, fr))
        kwargs = OrderedDict()
        for k in e.keywords:
            if k.arg is None:
                d = self.eval(k.value, fr)
                if not isinstance(d, dict):
                    raise Unsupported('** of non-dict')
                kwargs.update(d)
            else:
                kwargs[k.arg] = self.eval(k.value, fr)
        return self.call(fn, args, kwargs, lineno=getattr(e, 'lineno', None))

    def call(self, fn, args, kwargs, lineno=None):
        from .contracts import Contract
        if isinstance(fn, Builtin):
            return fn.fn(self, *args, **kwargs)
        if isinstance(fn, Closure):
            return self.call_closure(fn, args, kwargs)
        if isinstance(fn, SpecFunction):
            return self.run_spec_function(fn.fn, args, kwargs)
        if isinstance(fn, BoundMethod):
            t = fn.target
            if isinstance(t, Contract):
                return t.apply(self, args, kwargs, selfobj=fn.obj)
            if isinstance(t, RepoFunction):
                return self.call_repo(t, [fn.obj] + list(args), kwargs)
            if isinstance(t, Builtin):
                return t.fn(self, fn.obj, *args, **kwargs)
            if isinstance(t, Closure):
                return self.call_closure(t, [fn.obj] + list(args), kwargs)
            return t(self, fn.obj, *args, **kwargs)
        if isinstance(fn, Contract):
            return fn.apply(self, args, kwargs)
        if isinstance(fn, RepoFunction):
            return self.call_repo(fn, args, kwargs)
        if isinstance(fn, RepoClass):
            return self.instantiate(fn, args, kwargs)
        if isinstance(fn, PyType):
            return BUILTINS[fn.t.__name__].fn(self, *args, **kwargs)
        if isinstance(fn, SObj) and '__call__' in fn.attrs:
            return self.call(fn.attrs['__call__'], args, kwargs)
        if fn is None:
            raise PyExc('TypeError', "'NoneType' object is not callable")
        raise Unsupported('call of %r' % (fn,))

    def call_repo(self, f, args, kwargs):
        if f.ident in self.inline or (self.target is not None and f.ident == self.target_ident_running()):
            return self.run_function(f, args, kwargs)
        c = self.registry.get(f.ident)
        if c is not None:
            if f.cls is not None and args:
                return c.apply(self, list(args[1:]), kwargs, selfobj=args[0])
            return c.apply(self, args, kwargs)
        raise Unsupported('call to %s: no contract and not inlined' % f.ident)

    def target_ident_running(self):
        return None

    def instantiate(self, rc, args, kwargs):
        ctor_ident = '%s::%s.__init__' % (rc.module.relpath, rc.name)
        c = self.registry.get('%s::%s' % (rc.module.relpath, rc.name))
        if c is not None and ctor_ident not in self.inline:
            return c.apply(self, args, kwargs)
        init = rc.find_method('__init__')
        obj = SObj(rc.name)
        obj.repo_class = rc
        if init is not None:
            if init.ident in self.inline or ('%s::%s' % (rc.module.relpath, rc.name)) in self.inline:
                self.run_function(init, [obj] + list(args), kwargs)
                return obj
            c2 = self.registry.get(init.ident)
            if c2 is not None:
                c2.apply(self, args, kwargs, selfobj=obj)
                return obj
            raise Unsupported('constructor %s: no contract and not inlined' % rc.name)
        return obj

    def bind_args(self, argspec, args, kwargs, fr, name):
        a = argspec
        pos = list(a.posonlyargs) + list(a.args)
        ndef = len(a.defaults)
        defaults = dict(zip([p.arg for p in pos[len(pos) - ndef:]], a.defaults))
        args = list(args)
        kwargs = dict(kwargs)
        bound = {}
        for i, p in enumerate(pos):
            if i < len(args):
                bound[p.arg] = args[i]
            elif p.arg in kwargs:
                bound[p.arg] = kwargs.pop(p.arg)
            elif p.arg in defaults:
                bound[p.arg] = self.eval(defaults[p.arg], fr)
            else:
                raise PyExc('TypeError', '%s() missing argument %s' % (name, p.arg))
        extra = args[len(pos):]
        if a.vararg:
            bound[a.vararg.arg] = tuple(extra)
        elif extra:
            raise PyExc('TypeError', '%s() takes %d positional arguments' % (name, len(pos)))
        for p, d in zip(a.kwonlyargs, a.kw_defaults):
            if p.arg in kwargs:
                bound[p.arg] = kwargs.pop(p.arg)
            elif d is not None:
                bound[p.arg] = self.eval(d, fr)
            else:
                raise PyExc('TypeError', '%s() missing kw-only argument %s' % (name, p.arg))
        if a.kwarg:
            bound[a.kwarg.arg] = OrderedDict(kwargs)
        elif kwargs:
            raise PyExc('TypeError', "%s() got an unexpected keyword argument '%s'"
                        % (name, list(kwargs)[0]))
        return bound

    def run_function(self, f, args, kwargs, extra_locals=None):
        if self.call_depth > 40:
            raise Unsupported('call depth')
        modfr = Frame(f.module)
        bound = self.bind_args(f.node.args, args, kwargs, modfr, f.name)
        body = f.body()
        cached = getattr(f, '_pyvc_static', None)
        if cached is None:
            loops = [n for n in ast.walk(f.node) if isinstance(n, (ast.For, ast.While))]
            loops.sort(key=lambda n: (n.lineno, n.col_offset))
            cached = (assigned_names(body), {id(n): i + 1 for i, n in enumerate(loops)})
            f._pyvc_static = cached
        names = cached[0] | set(bound)
        fr = Frame(f.module, dict(bound), names, fn=f)
        if extra_locals:
            fr.locals.update(extra_locals)
        fr.loop_ordinals = cached[1]
        self.call_depth += 1
        sm, self.specmode = self.specmode, False
        try:
            self.exec_block(body, fr)
            return None
        except ReturnSig as r:
            return r.value
        finally:
            self.call_depth -= 1
            self.specmode = sm

    # -- spec functions: statement blocks evaluated as merged expressions --
    def run_spec_function(self, f, args, kwargs):
        modfr = Frame(f.module)
        bound = self.bind_args(f.node.args, args, kwargs, modfr, f.name)
        fr = Frame(f.module, dict(bound), set(), fn=None)
        sm, self.specmode = self.specmode, True
        self.call_depth += 1
        try:
            r = self.eval_block_spec(f.body(), fr)
        except PyExc as e:
            raise Unsupported('spec function %s raised %s' % (f.name, e))
        finally:
            self.specmode = sm
            self.call_depth -= 1
        if r is _NORET:
            return None
        return r

    def eval_block_spec(self, stmts, fr):
        for idx, s in enumerate(stmts):
            if isinstance(s, ast.Return):
                return self.eval(s.value, fr) if s.value else None
            if isinstance(s, ast.If):
                c = truth(self, self.eval(s.test, fr))
                if not isinstance(c, bool):
                    cs = z3.simplify(c)
                    c = True if z3.is_true(cs) else False if z3.is_false(cs) else cs
                if isinstance(c, bool):
                    r = self.eval_block_spec(s.body if c else s.orelse, fr)
                    if r is not _NORET:
                        return r
                    continue
                rest = stmts[idx + 1:]
                f1 = Frame(fr.module, dict(fr.locals), set(), parent=fr.parent)
                f2 = Frame(fr.module, dict(fr.locals), set(), parent=fr.parent)
                v1 = self.eval_block_spec(list(s.body) + rest, f1)
                v2 = self.eval_block_spec(list(s.orelse) + rest, f2)
                if v1 is _NORET or v2 is _NORET:
                    raise Unsupported('spec function: branch without return')
                return self.ite_value(c, lambda: v1, lambda: v2)
            if isinstance(s, (ast.Assign, ast.Expr, ast.Assert, ast.Pass, ast.AugAssign)):
                self.exec(s, fr)
                continue
            raise Unsupported('spec function statement %s' % type(s).__name__)
        return _NORET

    def call_closure(self, c, args, kwargs):
        node = c.node
        bound = self.bind_args(node.args, args, kwargs, c.frame, c.name)
        if isinstance(node, ast.Lambda):
            fr = Frame(c.frame.module, dict(bound), set(bound), parent=c.frame)
            return self.eval(node.body, fr)
        body = node.body
        names = assigned_names(body) | set(bound)
        fr = Frame(c.frame.module, dict(bound), names, parent=c.frame)
        fr.loop_ordinals = c.frame.loop_ordinals
        try:
            self.exec_block(body, fr)
            return None
        except ReturnSig as r:
            return r.value

    # ------------------------------------------------------------------
    # statements
    # ------------------------------------------------------------------
    def exec_block(self, stmts, fr):
        for s in stmts:
            self.exec(s, fr)

    def exec(self, s, fr):
        m = getattr(self, 's_' + type(s).__name__, None)
        if m is None:
            raise Unsupported('statement %s (line %s)' % (type(s).__name__, s.lineno))
        try:
            return m(s, fr)
        except PyExc as e:
            if e.lineno is None:
                e.lineno = s.lineno
            raise

    def s_Pass(self, s, fr):
        pass

    def s_Expr(self, s, fr):
        self.eval(s.value, fr)

    def s_Return(self, s, fr):
        raise ReturnSig(self.eval(s.value, fr) if s.value else None)

    def s_Break(self, s, fr):
        raise BreakSig()

    def s_Continue(self, s, fr):
        raise ContinueSig()

    def s_Global(self, s, fr):
        raise Unsupported('global statement')

    def s_Import(self, s, fr):
        for a in s.names:
            fr.locals[(a.asname or a.name).split('.')[0]] = ModuleRef(a.name)

    def s_ImportFrom(self, s, fr):
        for a in s.names:
            if s.module and s.module.startswith('tdda'):
                rel = s.module.replace('.', '/')
                import os
                from .extract import REPO
                for cand in (rel + '.py', rel + '/__init__.py'):
                    if os.path.exists(os.path.join(REPO, cand)):
                        try:
                            fr.locals[a.asname or a.name] = load_module(cand).resolve(a.name)
                        except KeyError:
                            raise Unsupported('import %s from %s' % (a.name, s.module))
                        break
            else:
                fr.locals[a.asname or a.name] = ModuleRef('%s.%s' % (s.module, a.name))

    def s_FunctionDef(self, s, fr):
        fr.locals[s.name] = Closure(s, fr, s.name)

    def s_Assign(self, s, fr):
        v = self.eval(s.value, fr)
        for t in s.targets:
            self.assign(t, v, fr)

    def s_AnnAssign(self, s, fr):
        if s.value is not None:
            self.assign(s.target, self.eval(s.value, fr), fr)

    def s_AugAssign(self, s, fr):
        load = _as_load(s.target)
        cur = self.eval(load, fr)
        rhs = self.eval(s.value, fr)
        op = BIN[type(s.op)]
        if op == '+' and isinstance(cur, list) and isinstance(rhs, (list, tuple)):
            cur.extend(rhs)
            return
        self.assign(s.target, binop(self, op, cur, rhs), fr)

    def s_Delete(self, s, fr):
        for t in s.targets:
            if isinstance(t, ast.Subscript):
                obj = self.eval(t.value, fr)
                if isinstance(t.slice, ast.Slice):
                    if isinstance(obj, list):
                        lo = self.eval(t.slice.lower, fr) if t.slice.lower else None
                        hi = self.eval(t.slice.upper, fr) if t.slice.upper else None
                        if all(x is None or isinstance(x, int) for x in (lo, hi)):
                            del obj[lo:hi]
                            continue
                    raise Unsupported('del slice')
                k = self.eval(t.slice, fr)
                if isinstance(obj, (dict, list)) and not isinstance(k, Sym):
                    try:
                        del obj[k]
                    except (KeyError, IndexError) as e:
                        raise PyExc(type(e).__name__, str(e))
                elif isinstance(obj, SList):
                    i = self.index_value(k)
                    iz = z3.IntVal(i) if isinstance(i, int) else i
                    if not self.branch(z3.And(iz >= 0, iz < obj.n)):
                        if isinstance(i, int) and i < 0:
                            raise Unsupported('del negative index')
                        raise PyExc('IndexError', 'list assignment index out of range')
                    g = obj.get
                    new = SList(obj.n - 1,
                                lambda j: self.ite_value(j < iz, lambda: g(j), lambda: g(j + 1)),
                                obj.elt, obj.kind)
                    self.assign(_as_store(t.value), new, fr)
                elif isinstance(obj, SMap):
                    if not self.branch(zbool(obj.has(k))):
                        raise PyExc('KeyError', 'del of missing key')
                    h, g = obj.has, obj.get
                    new = SMap(lambda x: z3.And(zbool(h(x)), z3.Not(zbool(values_equal(self, x, k)))),
                               g, obj.keyt, obj.valt, obj.label)
                    self.assign(_as_store(t.value), new, fr)
                else:
                    raise Unsupported('del item of %s' % ops.typename(obj))
            elif isinstance(t, ast.Name):
                if t.id in fr.locals:
                    del fr.locals[t.id]
            else:
                raise Unsupported('del target')

    def assign(self, t, v, fr):
        if isinstance(t, ast.Name):
            fr.locals[t.id] = v
        elif isinstance(t, (ast.Tuple, ast.List)):
            items = self.iterate_concrete(v)
            if any(isinstance(x, ast.Starred) for x in t.elts):
                raise Unsupported('starred unpacking')
            if len(items) != len(t.elts):
                raise PyExc('ValueError', 'unpack mismatch')
            for tt, x in zip(t.elts, items):
                self.assign(tt, x, fr)
        elif isinstance(t, ast.Attribute):
            obj = self.eval(t.value, fr)
            if isinstance(obj, SObj):
                hook = obj.attrs.get('__setattr_hook__')
                if hook:
                    hook(self, obj, t.attr, v)
                obj.attrs[t.attr] = v
            else:
                raise Unsupported('attribute store on %s' % ops.typename(obj))
        elif isinstance(t, ast.Subscript):
            obj = self.eval(t.value, fr)
            if isinstance(t.slice, ast.Slice):
                raise Unsupported('slice assignment')
            k = self.eval(t.slice, fr)
            self.setitem(obj, k, v, t.value, fr)
        else:
            raise Unsupported('assignment target %s' % type(t).__name__)

    def setitem(self, obj, k, v, target_expr, fr):
        if isinstance(obj, SymKeyDict):
            for e in obj.entries:
                if self.branch(zbool(values_equal(self, k, e[0]))):
                    e[1] = v
                    return
            obj.entries.append([k, v])
            return
        if isinstance(obj, dict):
            if isinstance(k, Sym):
                raise Unsupported('symbolic key store into concrete dict')
            obj[k] = v
        elif isinstance(obj, list):
            i = self.index_value(k)
            if isinstance(i, int):
                try:
                    obj[i] = v
                except IndexError:
                    raise PyExc('IndexError', 'list assignment index out of range')
            else:
                n = len(obj)
                if not self.branch(z3.And(i >= -n, i < n)):
                    raise PyExc('IndexError', 'list assignment index out of range')
                for j in range(n):
                    if self.branch(z3.Or(i == j, i == j - n)):
                        obj[j] = v
                        return
                raise PathEnd('infeasible')
        elif isinstance(obj, SList):
            i = self.index_value(k)
            iz = z3.IntVal(i) if isinstance(i, int) else i
            if not self.branch(z3.And(iz >= -obj.n, iz < obj.n)):
                raise PyExc('IndexError', 'list assignment index out of range')
            if not self.branch(iz >= 0):
                iz = obj.n + iz
            g = obj.get
            new = SList(obj.n, lambda j: self.ite_value(j == iz, lambda: v, lambda: g(j)),
                        obj.elt, obj.kind)
            self.assign(_as_store(target_expr), new, fr)
        elif isinstance(obj, SMap):
            h, g = obj.has, obj.get
            new = SMap(lambda x: z3.Or(zbool(values_equal(self, x, k)), zbool(h(x))),
                       lambda x: self.ite_value(zbool(values_equal(self, x, k)),
                                                lambda: v, lambda: g(x)),
                       obj.keyt, obj.valt, obj.label)
            self.assign(_as_store(target_expr), new, fr)
        elif isinstance(obj, SObj):
            si = obj.attrs.get('__setitem__')
            if si is not None:
                si(self, obj, k, v)
                return
            store = obj.attrs.get('__items__')
            if isinstance(store, dict) and not isinstance(k, Sym):
                store[k] = v
                return
            raise Unsupported('item store on object %s' % obj.cls)
        else:
            raise Unsupported('item store on %s' % ops.typename(obj))

    def s_If(self, s, fr):
        c = self.branch(truth(self, self.eval(s.test, fr)))
        self.exec_block(s.body if c else s.orelse, fr)

    def s_Assert(self, s, fr):
        c = self.branch(truth(self, self.eval(s.test, fr)))
        if not c:
            raise PyExc('AssertionError', 'assert at line %d' % s.lineno, s.lineno)

    def s_Raise(self, s, fr):
        if s.exc is None:
            cur = getattr(fr, 'current_exc', None)
            f = fr
            while cur is None and f.parent is not None:
                f = f.parent
                cur = getattr(f, 'current_exc', None)
            if cur is None:
                raise Unsupported('bare raise outside handler')
            raise cur
        e = s.exc
        name = None
        msg = ''
        if isinstance(e, ast.Call):
            if isinstance(e.func, ast.Name):
                name = e.func.id
            elif isinstance(e.func, ast.Attribute):
                name = e.func.attr
            for a in e.args:
                try:
                    v = self.eval(a, fr)
                    msg = v if isinstance(v, str) else msg
                except (PyExc, Unsupported):
                    pass
        elif isinstance(e, ast.Name):
            v = fr.locals.get(e.id)
            if isinstance(v, PyExc):
                raise v
            name = e.id
        if name is None:
            raise Unsupported('raise of computed exception')
        raise PyExc(name, msg, s.lineno)

    def s_Try(self, s, fr):
        try:
            try:
                self.exec_block(s.body, fr)
            except PyExc as e:
                for h in s.handlers:
                    if self.handler_matches(h, e, fr):
                        if h.name:
                            fr.locals[h.name] = e
                        old = getattr(fr, 'current_exc', None)
                        fr.current_exc = e
                        try:
                            self.exec_block(h.body, fr)
                        finally:
                            fr.current_exc = old
                        break
                else:
                    raise
            else:
                self.exec_block(s.orelse, fr)
        finally:
            if s.finalbody:
                # NB: runs also when a control-flow signal passes through
                import sys
                et = sys.exc_info()[0]
                if et is None or issubclass(et, (PyExc, ReturnSig, BreakSig, ContinueSig)):
                    self.exec_block(s.finalbody, fr)

    def handler_matches(self, h, e, fr):
        if h.type is None:
            return True
        types = h.type.elts if isinstance(h.type, ast.Tuple) else [h.type]
        for t in types:
            n = t.id if isinstance(t, ast.Name) else (t.attr if isinstance(t, ast.Attribute) else None)
            if n is None:
                raise Unsupported('computed exception class')
            if ops.exc_isa(e.etype, n):
                return True
        return False

    def s_With(self, s, fr):
        for item in s.items:
            v = self.eval(item.context_expr, fr)
            if item.optional_vars is not None:
                self.assign(item.optional_vars, v, fr)
        self.exec_block(s.body, fr)

    # -- loops ------------------------------------------------------------
    def loop_spec(self, node, fr):
        f = fr
        while f is not None and f.loop_ordinals is None:
            f = f.parent
        if f is None or f.fn is None:
            return None, None
        k = f.loop_ordinals.get(id(node))
        return self.loops.get((f.fn.ident, k)), k

    def s_For(self, s, fr):
        itv = self.eval(s.iter, fr)
        spec, ordinal = self.loop_spec(s, fr)
        symbolic = isinstance(itv, SList) and not z3.is_int_value(z3.simplify(itv.n))
        if isinstance(itv, SObj) and '__iter__' in itv.attrs:
            itv = itv.attrs['__iter__']
            symbolic = isinstance(itv, SList) and not z3.is_int_value(z3.simplify(itv.n))
        if isinstance(itv, SStr):
            chars = z3.Function(self.path.fresh_name('chars'), z3.IntSort(), StrS)
            itv = SList(slen(itv.z), lambda i: SStr(chars(i)), T.str, 'list')
            symbolic = True
        if not symbolic:
            if isinstance(itv, list):
                # Python iterates a list by position over the LIVE object: items removed or added by the body shift what
                # is visited next (a snapshot here would hide exactly the bugs that come from mutating during iteration)
                def live(lst=itv):
                    i = 0
                    while i < len(lst):
                        yield lst[i]
                        i += 1
                        if i > MAX_UNROLL:
                            raise Unsupported('long concrete list')
                items = live()
            else:
                items = self.iterate_concrete(itv)
            broke = False
            for x in items:
                self.assign(s.target, x, fr)
                try:
                    self.exec_block(s.body, fr)
                except BreakSig:
                    broke = True
                    break
                except ContinueSig:
                    continue
            if not broke:
                self.exec_block(s.orelse, fr)
            return
        if spec is None:
            raise Unsupported('loop %s at line %d needs an invariant' % (ordinal, s.lineno))
        lst = self.lift_list(itv) if not isinstance(itv, SList) else itv
        if not isinstance(lst, SList):
            raise Unsupported('invariant loop over %s' % ops.typename(itv))
        self.cut_loop(s, fr, spec, ordinal, lst)

    def s_While(self, s, fr):
        spec, ordinal = self.loop_spec(s, fr)
        if spec is None:
            n = 0
            while True:
                c = truth(self, self.eval(s.test, fr))
                if not isinstance(c, bool):
                    c2 = z3.simplify(c)
                    if z3.is_true(c2):
                        c = True
                    elif z3.is_false(c2):
                        c = False
                    else:
                        raise Unsupported('while loop %s at line %d needs an invariant'
                                          % (ordinal, s.lineno))
                if not c:
                    self.exec_block(s.orelse, fr)
                    return
                n += 1
                if n > getattr(self.target, 'max_unroll', MAX_UNROLL):
                    raise Unsupported('while loop at line %d ran more than %d times on this path (the contract expects fewer: '
                                      'possible non-termination)' % (s.lineno, getattr(self.target, 'max_unroll', MAX_UNROLL)))
                try:
                    self.exec_block(s.body, fr)
                except BreakSig:
                    return
                except ContinueSig:
                    continue
        self.cut_loop(s, fr, spec, ordinal, None)

    def eval_spec(self, src, fr_locals, module=None):
        """Evaluate a contract expression (string) in spec mode."""
        node = _parse_expr(src)
        fr = Frame(module, dict(fr_locals), ())
        sm, self.specmode = self.specmode, True
        try:
            return self.eval(node, fr)
        except PyExc as e:
            raise Unsupported('spec expression %r raised %s' % (src, e))
        finally:
            self.specmode = sm

    def spec_bool(self, src, fr_locals, module=None):
        v = self.eval_spec(src, fr_locals, module)
        t = truth(self, v)
        return t

    def cut_loop(self, s, fr, spec, ordinal, lst):
        """Invariant-based treatment of a loop (for over lst, or while)."""
        fn = fr.fn.qualname if fr.fn else '?'
        tag = 'loop%d' % ordinal
        idxname = spec.index

        def inv_env(idx):
            env = dict(self.spec_env)
            f = fr
            chain = []
            while f is not None:
                chain.append(f)
                f = f.parent
            for f in reversed(chain):
                env.update(f.locals)
            if idx is not None:
                env[idxname] = idx
            if lst is not None:
                env['_seq'] = lst
            env.update(spec.extra_env(self) if spec.extra_env else {})
            return env

        # 1. invariant holds initially
        idx0 = SInt(z3.IntVal(0)) if lst is not None else None
        for label, src in spec.invariants:
            self.path.oblige('%s.%s.inv.init.%s' % (fn, tag, label),
                             zbool(self.spec_bool(src, inv_env(idx0), fr.module)), kind='inv')
        # 2. havoc
        names, attrs, subs = loop_targets(s.body)
        if isinstance(s, ast.For):
            tn, _, _ = loop_targets([ast.Assign(targets=[s.target], value=ast.Constant(0))])
            names |= tn
        for n in sorted(names | subs):
            td = spec.havoc.get(n)
            cur = fr.locals.get(n, Ellipsis)
            if td is None and cur is not Ellipsis:
                if n in subs and not n in names and isinstance(cur, (SObj,)):
                    continue
                td = self.infer_td(cur)
                if td is None:
                    if n in subs and n not in names:
                        raise Unsupported('cannot havoc %s (give a type in the loop spec)' % n)
                    if cur is None or isinstance(cur, (Closure,)):
                        # unknown type: leave as is only if never assigned a different thing
                        raise Unsupported('cannot infer type of loop variable %s' % n)
                    raise Unsupported('cannot infer type of loop variable %s' % n)
            if td is None:
                fr.locals.pop(n, None)
                continue
            if td == 'keep':
                continue
            if td == 'unbound':
                fr.locals.pop(n, None)
                continue
            fr.locals[n] = self.fresh(td, '%s.%s' % (tag, n))
        for on, an in sorted(attrs):
            obj = fr.locals.get(on)
            key = '%s.%s' % (on, an)
            td = spec.havoc.get(key)
            if isinstance(obj, SObj):
                if td is None:
                    td = self.infer_td(obj.attrs.get(an))
                if td is None:
                    raise Unsupported('cannot havoc %s' % key)
                if td == 'keep':
                    continue
                obj.attrs[an] = self.fresh(td, '%s.%s' % (tag, key))
            elif obj is not None:
                raise Unsupported('cannot havoc attribute of %s' % ops.typename(obj))
        # 3. index and invariant assumed
        idx = None
        if lst is not None:
            iz = z3.Int(self.path.fresh_name('%s.%s' % (tag, idxname)))
            self.path.assume(z3.And(iz >= 0, iz <= lst.n))
            idx = SInt(iz)
            self.ghost.setdefault('loop_index', {})[ordinal] = idx
            self.ghost.setdefault('loop_seq', {})[ordinal] = lst
        for label, src in spec.invariants:
            self.path.assume(zbool(self.spec_bool(src, inv_env(idx), fr.module)))
        # 4. one arbitrary iteration, or exit
        if lst is not None:
            enter = self.path.branch(idx.z < lst.n)
            if enter:
                self.assign(s.target, lst.get(idx.z), fr)
        else:
            enter = self.branch(truth(self, self.eval(s.test, fr)))
        if enter:
            try:
                self.exec_block(s.body, fr)
            except BreakSig:
                return
            except ContinueSig:
                pass
            nxt = SInt(idx.z + 1) if idx is not None else None
            for label, src in spec.invariants:
                self.path.oblige('%s.%s.inv.keep.%s' % (fn, tag, label),
                                 zbool(self.spec_bool(src, inv_env(nxt), fr.module)), kind='inv')
            if spec.variant:
                pass
            raise PathEnd('loop-end')
        self.exec_block(s.orelse, fr)


_NORET = object()
_expr_cache = {}


def _parse_expr(src):
    if src not in _expr_cache:
        _expr_cache[src] = ast.parse(src.strip(), mode='eval').body
    return _expr_cache[src]


def _as_load(t):
    import copy
    t2 = copy.copy(t)
    t2.ctx = ast.Load()
    return t2


def _as_store(t):
    import copy
    if not isinstance(t, (ast.Name, ast.Attribute, ast.Subscript)):
        raise Unsupported('mutation of a temporary symbolic list')
    t2 = copy.copy(t)
    t2.ctx = ast.Store()
    return t2


from .builtins import BUILTINS, value_method, module_attr, slist_method  # noqa: E402
