"""
pyvc.path -- one symbolic execution path: decisions, path condition,
obligations, and the explorer that enumerates all feasible paths by
re-execution with decision prefixes.
"""
import os
import subprocess
import tempfile
import time
import z3

from .sym import Unsupported

Z3_TIMEOUT_MS = int(os.environ.get('PYVC_Z3_TIMEOUT_MS', '10000'))
CVC5_TIMEOUT_S = int(os.environ.get('PYVC_CVC5_TIMEOUT_S', '20'))
CVC5 = '/usr/bin/cvc5'


class PathEnd(Exception):
    """Path stops here (infeasible, or end of an arbitrary loop iteration)."""


class Obligation(object):
    __slots__ = ('name', 'status', 'backend', 'seconds', 'model', 'pathid',
                 'detail', 'kind', 'model_obj')

    def __init__(self, name, status, backend, seconds, model=None,
                 pathid=None, detail='', kind='post'):
        self.name = name
        self.status = status        # discharged | refuted | undecided
        self.backend = backend
        self.seconds = seconds
        self.model = model          # dict (json-able) or None
        self.pathid = pathid
        self.detail = detail
        self.kind = kind
        self.model_obj = None

    def as_dict(self):
        return {'name': self.name, 'status': self.status,
                'backend': self.backend, 'seconds': round(self.seconds, 4),
                'path': self.pathid, 'detail': self.detail,
                'kind': self.kind, 'model': self.model}


def cvc5_check(smt2_text, timeout_s=CVC5_TIMEOUT_S):
    """Second-opinion solver on an SMT-LIB2 text; returns 'sat'/'unsat'/'unknown'."""
    with tempfile.NamedTemporaryFile('w', suffix='.smt2', delete=False) as f:
        f.write('(set-logic ALL)\n' + smt2_text + '\n(check-sat)\n')
        name = f.name
    try:
        out = subprocess.run([CVC5, '--tlimit=%d' % (timeout_s * 1000), name],
                             capture_output=True, text=True,
                             timeout=timeout_s + 5).stdout.strip()
    except Exception:
        out = 'unknown'
    finally:
        os.unlink(name)
    first = out.splitlines()[0] if out else 'unknown'
    return first if first in ('sat', 'unsat') else 'unknown'


def has_quantifier(e):
    r = False
    stack = [e]
    seen = set()
    while stack:
        x = stack.pop()
        i = x.get_id()
        if i in seen:
            continue
        seen.add(i)
        if z3.is_quantifier(x):
            r = True
            break
        stack.extend(x.children())
    return r


class Path(object):
    def __init__(self, prefix, pathid):
        self.prefix = list(prefix)
        self.pathid = pathid
        self.taken = []           # (alt, [other feasible alts]) per decision
        self.solver = z3.Solver()
        self.solver.set('timeout', Z3_TIMEOUT_MS)
        # feasibility of branches is decided on the quantifier-free part of the
        # path condition only (an over-approximation: extra paths, never fewer)
        self.qf = z3.Solver()
        self.qf.set('timeout', 2000)
        self.pc = []
        self.obligations = []
        self.trace = []           # call trace of contract callees
        self.writes = []          # ghost write set entries
        self.events = []          # free-form ghost events
        self.counter = {}
        self.inputs = {}          # name -> value (for models)
        self.notes = []
        self.solver_seconds = 0.0
        self.assumed_names = []

    # -- names -----------------------------------------------------------
    def fresh_name(self, base):
        k = self.counter.get(base, 0)
        self.counter[base] = k + 1
        return base if k == 0 else '%s#%d' % (base, k)

    # -- assumptions -----------------------------------------------------
    def assume(self, cond):
        if cond is True:
            return
        if cond is False:
            raise PathEnd('assumed false')
        c = z3.simplify(cond)
        if z3.is_true(c):
            return
        if z3.is_false(c):
            raise PathEnd('assumed false')
        self.pc.append(c)
        self.solver.add(c)
        if not has_quantifier(c):
            self.qf.add(c)

    def _check(self, *assumptions):
        t = time.time()
        r = self.solver.check(*assumptions)
        dt = time.time() - t
        self.solver_seconds += dt
        if dt > 1.0 and os.environ.get('PYVC_DUMP_SLOW'):
            s2 = z3.Solver(); s2.add(*self.pc)
            for a in assumptions: s2.add(a)
            open(os.environ['PYVC_DUMP_SLOW'], 'w').write(s2.to_smt2())
        if dt > 1.0 and os.environ.get('PYVC_TRACE_SLOW'):
            import sys
            print('SLOW %.1fs %s path=%d npc=%d assumption=%s' % (
                dt, r, self.pathid, len(self.pc),
                str(assumptions[0])[:300] if assumptions else ''), file=sys.stderr)
        return r

    # -- decisions -------------------------------------------------------
    def choose(self, conds):
        """
        conds: list of z3 Bool (or python True) alternatives.  Returns the index
        of the alternative taken on this path and assumes its condition.
        """
        k = len(self.taken)
        if k < len(self.prefix):
            alt = self.prefix[k]
            self.taken.append((alt, []))
            self.assume(conds[alt])
            return alt
        feas = []
        for i, c in enumerate(conds):
            if c is True:
                feas.append(i)
                continue
            if c is False:
                continue
            if has_quantifier(c):
                feas.append(i)
                continue
            t = time.time()
            r = self.qf.check(c)
            dt = time.time() - t
            self.solver_seconds += dt
            if dt > 0.5 and os.environ.get('PYVC_TRACE_SLOW'):
                import sys
                print('SLOWQF %.1fs %s path=%d %s' % (dt, r, self.pathid, str(c)[:200]), file=sys.stderr)
            if r != z3.unsat:
                feas.append(i)
        if not feas:
            raise PathEnd('infeasible')
        alt = feas[0]
        self.taken.append((alt, feas[1:]))
        self.assume(conds[alt])
        return alt

    def branch(self, cond):
        """Python bool for a z3 Bool / python bool condition (forks)."""
        if isinstance(cond, bool):
            return cond
        c = z3.simplify(cond)
        if z3.is_true(c):
            return True
        if z3.is_false(c):
            return False
        return self.choose([c, z3.Not(c)]) == 0

    # -- obligations -----------------------------------------------------
    def oblige(self, name, cond, kind='post', detail=''):
        """
        Prove cond under the path condition.  Afterwards cond is assumed.
        """
        t0 = time.time()
        if cond is True:
            ob = Obligation(name, 'discharged', 'trivial', 0.0, kind=kind,
                            pathid=self.pathid, detail=detail)
            self.obligations.append(ob)
            return ob
        if cond is False:
            ncond = True
        else:
            c = z3.simplify(cond)
            if z3.is_true(c):
                ob = Obligation(name, 'discharged', 'simplifier', 0.0,
                                kind=kind, pathid=self.pathid, detail=detail)
                self.obligations.append(ob)
                return ob
            ncond = z3.Not(c)
        r = self._check() if ncond is True else self._check(ncond)
        backend = 'z3'
        model = None
        mobj = None
        if r == z3.unsat:
            status = 'discharged'
        elif r == z3.sat:
            status = 'refuted'
            mobj = self.solver.model()
        else:
            # second opinion
            s2 = z3.Solver()
            s2.add(*self.pc)
            if ncond is not True:
                s2.add(ncond)
            if os.environ.get('PYVC_DUMP_UNKNOWN'):
                with open(os.path.join(os.environ['PYVC_DUMP_UNKNOWN'], '%s.%s.smt2' % (name[-60:].replace('/', '_'), self.pathid)), 'w') as fh:
                    fh.write(s2.to_smt2())
            r2 = cvc5_check(s2.to_smt2().replace('(check-sat)', ''))
            backend = 'cvc5'
            if r2 == 'unsat':
                status = 'discharged'
            elif r2 == 'sat':
                status = 'undecided'   # no model to replay: stay undecided
                detail = (detail + ' cvc5 says sat, z3 unknown').strip()
            else:
                status = 'undecided'
                detail = (detail + ' z3 unknown, cvc5 unknown').strip()
        ob = Obligation(name, status, backend, time.time() - t0, kind=kind,
                        pathid=self.pathid, detail=detail)
        ob.model_obj = mobj
        self.obligations.append(ob)
        if status == 'discharged' and cond is not False:
            self.assume(cond)
        return ob


class ExploreResult(object):
    def __init__(self):
        self.paths = 0
        self.infeasible = 0
        self.ended = 0
        self.unsupported = []     # (pathid, reason)
        self.obligations = []
        self.solver_seconds = 0.0
        self.outcomes = []


def explore(run, max_paths=20000, on_path=None):
    """
    run(path) executes the function under verification on one path; it may
    raise PathEnd / Unsupported.  All feasible decision sequences are explored.
    """
    res = ExploreResult()
    work = [[]]
    n = 0
    import os as _os, time as _time
    t_start = _time.time()
    # a broken tree can make thousands of obligations time out in the solvers: once enough refutations are in
    # hand (the verdict cannot change) or the wall-clock budget is used up, the remaining paths are left
    # unexplored and reported as such (UNDECIDED), never as discharged
    budget = float(_os.environ.get('PYVC_FUNCTION_BUDGET_S', '300' if _os.environ.get('VERIF_TIER', 'quick') == 'quick' else '3000'))
    max_refuted = int(_os.environ.get('PYVC_MAX_REFUTED', '80'))
    n_refuted = 0
    while work:
        prefix = work.pop()
        n += 1
        if n > max_paths:
            res.unsupported.append((n, 'path budget exceeded (%d)' % max_paths))
            break
        if n_refuted >= max_refuted:
            res.unsupported.append((n, 'exploration stopped after %d refuted obligations (%d paths left unexplored)'
                                    % (n_refuted, len(work) + 1)))
            break
        if _time.time() - t_start > budget:
            res.unsupported.append((n, 'time budget of %ds for this function used up (%d paths left unexplored)'
                                    % (budget, len(work) + 1)))
            break
        p = Path(prefix, n)
        outcome = None
        try:
            outcome = run(p)
            res.paths += 1
        except PathEnd as e:
            if 'infeasible' in str(e) or 'assumed false' in str(e):
                res.infeasible += 1
            else:
                res.ended += 1
                res.paths += 1
        except Unsupported as e:
            res.unsupported.append((n, str(e)))
        except (RecursionError, MemoryError):
            raise
        except Exception as e:
            # an exception of the interpreter itself (a stub called in a way its model does not expect, an
            # unmodelled construct): this path is out of reach -- undecided, never a verdict
            import traceback as _tb
            last = _tb.extract_tb(e.__traceback__)[-1]
            if os.environ.get('PYVC_TRACE'):
                _tb.print_exc()
            res.unsupported.append((n, 'interpreter error on this path (%s: %s at %s:%d)'
                                    % (type(e).__name__, str(e)[:120], last.filename.split('/')[-1], last.lineno)))
        # schedule alternatives created beyond the prefix
        for k in range(len(prefix), len(p.taken)):
            alt, others = p.taken[k]
            base = [a for a, _ in p.taken[:k]]
            for o in others:
                work.append(base + [o])
        res.obligations.extend(p.obligations)
        n_refuted += sum(1 for ob in p.obligations if ob.status == 'refuted')
        res.solver_seconds += p.solver_seconds
        res.outcomes.append(outcome)
        if on_path:
            on_path(p, outcome)
    return res
