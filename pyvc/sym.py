"""
pyvc.sym -- symbolic values and type descriptors for the VC generator.

Encoding assumptions (also listed in DESIGN.md 2.2 and in every evidence file):
  * Python int  -> SMT Int (exact)
  * Python float-> SMT Real (FP-REAL: floats are mathematical reals; NaN is the
    null value at the calculator interface; +-inf not modelled)
  * bool is a subtype of int; coercions are explicit (If(b,1,0))
  * str -> uninterpreted sort Str with slen/seq UFs (no string theory)
  * datetime/date -> Int (an abstract instant); kind is static
  * every symbolic value has a *static* Python type on a path: unions are
    split eagerly (one path per alternative), so type(), isinstance() and
    `is None` are decided syntactically on each path.
"""
import datetime
import fractions
import z3

StrS = z3.DeclareSort('Str')
slen = z3.Function('slen', StrS, z3.IntSort())
str_lt = z3.Function('str_lt', StrS, StrS, z3.BoolSort())
str_contains = z3.Function('str_contains', StrS, StrS, z3.BoolSort())
str_startswith = z3.Function('str_startswith', StrS, StrS, z3.BoolSort())
str_endswith = z3.Function('str_endswith', StrS, StrS, z3.BoolSort())
str_cat = z3.Function('str_cat', StrS, StrS, StrS)

ObjS = z3.DeclareSort('Obj')      # opaque things compared only by identity


class Unsupported(Exception):
    """The function left the supported subset: the path is *undecided*."""


class Sym(object):
    __slots__ = ()


class SBool(Sym):
    __slots__ = ('z',)
    pytype = bool

    def __init__(self, z):
        self.z = z

    def __repr__(self):
        return 'SBool(%s)' % self.z


class SInt(Sym):
    __slots__ = ('z',)
    pytype = int

    def __init__(self, z):
        self.z = z

    def __repr__(self):
        return 'SInt(%s)' % self.z


class SReal(Sym):
    __slots__ = ('z',)
    pytype = float

    def __init__(self, z):
        self.z = z

    def __repr__(self):
        return 'SReal(%s)' % self.z


class SDate(Sym):
    """An instant; kind 'datetime' or 'date' is static."""
    __slots__ = ('z', 'kind')

    def __init__(self, z, kind='datetime'):
        self.z = z
        self.kind = kind

    @property
    def pytype(self):
        return datetime.datetime if self.kind == 'datetime' else datetime.date

    def __repr__(self):
        return 'SDate(%s,%s)' % (self.z, self.kind)


class SStr(Sym):
    __slots__ = ('z',)
    pytype = str

    def __init__(self, z):
        self.z = z

    def __repr__(self):
        return 'SStr(%s)' % self.z


class SText(Sym):
    """
    A string built by concatenation / %-formatting of concrete pieces and
    symbolic values, kept as a structure: parts is a list of str | SStr |
    ('fmt', format string, args tuple).  Only built when a contract asks for
    it (Interp.structured_text), so that a postcondition can read the shape.
    """
    __slots__ = ('parts',)
    pytype = str

    def __init__(self, parts):
        self.parts = list(parts)

    def __repr__(self):
        return 'SText(%r)' % (self.parts,)


class SOpaque(Sym):
    """A value about which nothing is known except identity (an Obj const)."""
    __slots__ = ('z', 'label')
    pytype = object

    def __init__(self, z, label=''):
        self.z = z
        self.label = label

    def __repr__(self):
        return 'SOpaque(%s)' % self.label


class SList(Sym):
    """
    Symbolic list: length n (z3 Int expr) and an element accessor
    get(i: z3 Int) -> value.  `elt` is the type descriptor of elements
    (used when havocking).  Immutable; mutation creates a new SList.
    kind: 'list' or 'tuple'
    """
    __slots__ = ('n', 'get', 'elt', 'kind')

    def __init__(self, n, get, elt=None, kind='list'):
        self.n = n
        self.get = get
        self.elt = elt
        self.kind = kind

    @property
    def pytype(self):
        return list if self.kind == 'list' else tuple

    def __repr__(self):
        return 'SList(n=%s)' % self.n


class SSet(Sym):
    """Symbolic set: membership closure has(value)->z3 Bool, card z3 Int or None."""
    pytype = set

    def __init__(self, has, card=None, elt=None, forall=None):
        self.has = has
        self.card = card
        self.elt = elt
        self.forall = forall      # forall(pred) -> z3 Bool over a superset of the members


class SMap(Sym):
    """
    Symbolic dict with abstract domain: has(key)->z3 Bool / python bool and
    get(key)->value closures; functional updates.
    """
    __slots__ = ('has', 'get', 'keyt', 'valt', 'label')
    pytype = dict

    def __init__(self, has, get, keyt=None, valt=None, label=''):
        self.has = has
        self.get = get
        self.keyt = keyt
        self.valt = valt
        self.label = label


class SymKeyDict(object):
    """
    Mutable dict whose keys may be symbolic strings: a list of (key, value)
    entries with pairwise-distinct keys.  Lookups branch on key equality.
    Heap object (identity preserved), so aliasing behaves as in Python.
    """
    def __init__(self, entries=()):
        self.entries = [list(e) for e in entries]


class SObj(object):
    """
    A heap object with named attributes (mutable).  cls is a name; `methods`
    maps method name -> Contract (used at call sites).
    """
    def __init__(self, cls, attrs=None, methods=None, label=''):
        self.cls = cls
        self.attrs = dict(attrs or {})
        self.methods = dict(methods or {})
        self.label = label or cls

    def __repr__(self):
        return 'SObj(%s,%s)' % (self.cls, sorted(self.attrs))


# ---------------------------------------------------------------------------
# Type descriptors
# ---------------------------------------------------------------------------

class TD(object):
    def __init__(self, tag, *args, **kw):
        self.tag = tag
        self.args = args
        self.kw = kw

    def __repr__(self):
        if self.args or self.kw:
            return 'T.%s(%s)' % (self.tag, ', '.join(
                [repr(a) for a in self.args]
                + ['%s=%r' % kv for kv in self.kw.items()]))
        return 'T.%s' % self.tag


class _T(object):
    none = TD('none')
    bool = TD('bool')
    int = TD('int')
    nat = TD('nat')            # int with >= 0 fact
    real = TD('real')
    str = TD('str')
    datetime = TD('datetime')
    date = TD('date')
    opaque = TD('opaque')

    @staticmethod
    def enum(*vals):
        return TD('enum', *vals)

    @staticmethod
    def const(v):
        return TD('const', v)

    @staticmethod
    def union(*alts):
        flat = []
        for a in alts:
            if a.tag == 'union':
                flat.extend(a.args)
            else:
                flat.append(a)
        return TD('union', *flat)

    @staticmethod
    def list(elt, kind='list'):
        return TD('list', elt, kind=kind)

    @staticmethod
    def obj(cls, **fields):
        return TD('obj', cls, **fields)

    @staticmethod
    def opt(t):
        return _T.union(_T.none, t)

    @staticmethod
    def custom(fn):
        """fn(interp, name) -> value"""
        return TD('custom', fn)


T = _T()
T.num = T.union(T.int, T.real)
T.scalar = T.union(T.none, T.bool, T.int, T.real, T.str, T.datetime, T.date)


def to_real(z):
    if z.sort() == z3.RealSort():
        return z
    return z3.ToReal(z)


def pyfloat_to_z3(f):
    return z3.RealVal(str(fractions.Fraction(f)))


def is_numeric(v):
    return isinstance(v, (bool, int, float, SBool, SInt, SReal))


def num_z(v):
    """(z3 arith term, is_real) for a numeric value (bool coerced to int)."""
    if isinstance(v, bool):
        return z3.IntVal(1 if v else 0), False
    if isinstance(v, int):
        return z3.IntVal(v), False
    if isinstance(v, float):
        return pyfloat_to_z3(v), True
    if isinstance(v, SBool):
        return z3.If(v.z, z3.IntVal(1), z3.IntVal(0)), False
    if isinstance(v, SInt):
        return v.z, False
    if isinstance(v, SReal):
        return v.z, True
    raise TypeError(v)


def pytype_of(v):
    if isinstance(v, Sym):
        return v.pytype
    if isinstance(v, SObj):
        return ('cls', v.cls)
    return type(v)


def is_symbolic(v):
    return isinstance(v, Sym)


def model_value(model, v, depth=0):
    """Concretise a value under a z3 model (for replay)."""
    if isinstance(v, SBool):
        return z3.is_true(model.eval(v.z, model_completion=True))
    if isinstance(v, SInt):
        return model.eval(v.z, model_completion=True).as_long()
    if isinstance(v, SReal):
        r = model.eval(v.z, model_completion=True)
        try:
            return fractions.Fraction(r.numerator_as_long(),
                                      r.denominator_as_long())
        except Exception:
            return float(r.approx(20).as_decimal(20).rstrip('?'))
    if isinstance(v, SDate):
        return ('date:' + v.kind,
                model.eval(v.z, model_completion=True).as_long())
    if isinstance(v, SStr):
        return ('str', str(model.eval(v.z, model_completion=True)))
    if isinstance(v, SOpaque):
        return ('opaque', v.label)
    if isinstance(v, SList):
        n = model.eval(v.n, model_completion=True).as_long()
        if n > 64 or depth > 3:
            return ('list', n, '...')
        return [model_value(model, v.get(z3.IntVal(i)), depth + 1)
                for i in range(n)]
    if isinstance(v, SObj):
        if depth > 3:
            return ('obj', v.cls)
        d = {'__cls__': v.cls,
             **{k: model_value(model, a, depth + 1)
                for k, a in v.attrs.items()}}
        z = getattr(v, 'z', None)
        if isinstance(z, dict) and 'val' in z and 'null' in z:
            # a column view: the rows of the counter-model (value, or None for a null row)
            try:
                n = model.eval(z['N'], model_completion=True).as_long()
                if 0 <= n <= 16:
                    rows = []
                    for i in range(n):
                        if z3.is_true(model.eval(z['null'](i), model_completion=True)):
                            rows.append(None)
                        else:
                            cell = z['wrap'](z['val'](i))
                            mv = model_value(model, cell, depth + 1)
                            if isinstance(cell, SStr):
                                mv = ('str', mv[1], model.eval(slen(cell.z), model_completion=True).as_long())
                            rows.append(mv)
                    d['rows'] = rows
            except Exception as e:      # model printing must never kill a run
                d['rows'] = 'unavailable: %r' % (e,)
        return d
    if isinstance(v, (list, tuple)):
        return type(v)(model_value(model, x, depth + 1) for x in v)
    if isinstance(v, dict):
        return {k: model_value(model, x, depth + 1) for k, x in v.items()}
    if isinstance(v, (SSet, SMap)):
        return ('abstract', type(v).__name__)
    return v
