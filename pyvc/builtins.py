"""
pyvc.builtins -- models of the Python builtins, value methods and the few
library entry points the functions under contract use.
"""
import datetime
import z3
import os
from collections import OrderedDict

from . import ops
from .ops import PyExc, truth, zbool, to_sbool, values_equal, compare
from .sym import (SymKeyDict, SText, Sym, SBool, SInt, SReal, SDate, SStr, SOpaque, SList, SSet,
                  SMap, SObj, StrS, slen, str_startswith, str_endswith,
                  Unsupported, is_numeric, num_z, to_real, T)
from .extract import ModuleRef, RepoClass, RepoFunction
from .interp import Builtin, PyType, Closure, BoundMethod


def b_len(it, v):
    if isinstance(v, SList):
        return SInt(v.n)
    if isinstance(v, SStr):
        it.fact(slen(v.z) >= 0)
        return SInt(slen(v.z))
    if isinstance(v, SSet):
        if v.card is None:
            v.card = z3.Int(it.path.fresh_name('card'))
            it.path.assume(v.card >= 0)
            if v.forall is None:
                raise Unsupported('len of a set with unknown universe')
            # card == 0  <=>  no element of the universe is a member
            it.path.assume((v.card == 0) == v.forall(lambda x: z3.Not(zbool(v.has(x)))))
        return SInt(v.card)
    if isinstance(v, SObj):
        if '__len__' in v.attrs:
            return v.attrs['__len__']
        raise Unsupported('len of object %s' % v.cls)
    if isinstance(v, Sym):
        if isinstance(v, (SMap, SOpaque)):
            raise Unsupported('len of %s' % ops.typename(v))
        raise PyExc('TypeError', "object of type '%s' has no len()" % ops.typename(v))
    if v is None or isinstance(v, (int, float, bool)):
        raise PyExc('TypeError', "object of type '%s' has no len()" % type(v).__name__)
    return len(v)


def _minmax(it, args, kw, is_min):
    if len(args) == 1:
        seq = args[0]
    else:
        seq = list(args)
    if 'key' in kw:
        raise Unsupported('min/max with key')
    if isinstance(seq, SList):
        # summary: result r is an element and bounds all elements
        n = seq.n
        if it.branch(n == 0):
            if 'default' in kw:
                return kw['default']
            raise PyExc('ValueError', 'min()/max() arg is an empty sequence')
        probe = seq.get(z3.IntVal(0))
        if not isinstance(probe, (SInt, SReal, int, float)) or isinstance(probe, bool):
            raise Unsupported('min/max over symbolic list of %s' % ops.typename(probe))
        real = isinstance(probe, (SReal, float))
        r = (z3.Real if real else z3.Int)(it.path.fresh_name('min' if is_min else 'max'))
        w = z3.Int(it.path.fresh_name('argmin' if is_min else 'argmax'))
        i = it.bound_var('mm')
        ei = num_z(seq.get(i))[0]
        ew = num_z(seq.get(w))[0]
        it.path.assume(z3.And(w >= 0, w < n, ew == r))
        it.path.assume(z3.ForAll([i], z3.Implies(z3.And(i >= 0, i < n),
                                                 (ei >= r) if is_min else (ei <= r))))
        return SReal(r) if real else SInt(r)
    items = it.iterate_concrete(seq)
    if not items:
        if 'default' in kw:
            return kw['default']
        raise PyExc('ValueError', 'min()/max() arg is an empty sequence')
    best = items[0]
    for x in items[1:]:
        c = compare(it, '<' if is_min else '>', x, best)
        if it.branch(truth(it, c)):
            best = x
    return best


def b_min(it, *args, **kw):
    return _minmax(it, args, kw, True)


def b_max(it, *args, **kw):
    return _minmax(it, args, kw, False)


def b_isinstance(it, v, t):
    ts = t if isinstance(t, tuple) else (t,)
    for x in ts:
        if _isinst(it, v, x):
            return True
    return False


def _pytype(x):
    if isinstance(x, PyType):
        return x.t
    if isinstance(x, ModuleRef):
        return {'datetime.datetime': datetime.datetime,
                'datetime.date': datetime.date,
                'collections.OrderedDict': OrderedDict}.get(x.name, x)
    return x


def _isinst(it, v, t):
    t = _pytype(t)
    if isinstance(t, RepoClass):
        if isinstance(v, SObj):
            rc = getattr(v, 'repo_class', None)
            names = {v.cls}
            seen = set()

            def up(c):
                if c is None or c.name in seen:
                    return
                seen.add(c.name)
                names.add(c.name)
                for bn in c.base_names():
                    try:
                        b = c.module.resolve(bn)
                    except KeyError:
                        continue
                    if isinstance(b, RepoClass):
                        up(b)
            up(rc)
            return t.name in names
        return False
    if isinstance(t, ModuleRef):
        raise Unsupported('isinstance against %s' % t.name)
    pt = ops.pytype_of(v) if False else None
    if isinstance(v, Sym):
        vt = v.pytype
    elif isinstance(v, SObj):
        if t is dict and v.attrs.get('__isdict__'):
            return True
        return False
    else:
        vt = type(v)
    if vt is bool and t is int:
        return True
    if vt is datetime.datetime and t is datetime.date:
        return True
    if vt is OrderedDict and t is dict:
        return True
    try:
        return issubclass(vt, t)
    except TypeError:
        raise Unsupported('isinstance against %r' % (t,))


def b_type(it, v):
    if isinstance(v, Sym):
        return PyType(v.pytype)
    if isinstance(v, SObj):
        rc = getattr(v, 'repo_class', None)
        if rc is not None:
            return rc
        return SObj('type', {'__name__': v.cls})
    return PyType(type(v))


def b_getattr(it, v, name, *default):
    if not isinstance(name, str):
        raise Unsupported('getattr with symbolic name')
    if default:
        return it.getattr(v, name, default[0])
    return it.getattr(v, name)


def b_hasattr(it, v, name):
    if name == '__call__':
        return b_callable(it, v)
    sentinel = object()
    try:
        return it.getattr(v, name, sentinel) is not sentinel
    except PyExc:
        return False


def b_setattr(it, v, name, val):
    if isinstance(v, SObj) and isinstance(name, str):
        v.attrs[name] = val
        return None
    raise Unsupported('setattr')


def b_bool(it, v=False):
    t = truth(it, v)
    return to_sbool(t)


def b_int(it, v=0, base=None):
    if isinstance(v, (SInt,)):
        return v
    if isinstance(v, SBool):
        return SInt(z3.If(v.z, 1, 0))
    if isinstance(v, SReal):
        # truncation toward zero
        f = z3.ToInt(v.z)
        return SInt(z3.If(v.z >= 0, f, z3.If(z3.ToReal(f) == v.z, f, f + 1)))
    if isinstance(v, SStr):
        raise Unsupported('int() of symbolic string')
    try:
        return int(v) if base is None else int(v, base)
    except (ValueError, TypeError) as e:
        raise PyExc(type(e).__name__, str(e))


def b_float(it, v=0.0):
    if isinstance(v, SReal):
        return v
    if isinstance(v, (SInt, SBool)):
        return SReal(to_real(num_z(v)[0]))
    if isinstance(v, Sym):
        raise Unsupported('float() of %s' % ops.typename(v))
    try:
        return float(v)
    except (ValueError, TypeError) as e:
        raise PyExc(type(e).__name__, str(e))


def b_str(it, v=''):
    if isinstance(v, SStr):
        return v
    if isinstance(v, (Sym, SObj)):
        return it.fresh_str('str')
    if isinstance(v, (list, tuple, dict)) and _has_sym(v):
        return it.fresh_str('str')
    return str(v)


def _has_sym(v):
    if isinstance(v, (Sym, SObj)):
        return True
    if isinstance(v, (list, tuple, set)):
        return any(_has_sym(x) for x in v)
    if isinstance(v, dict):
        return any(_has_sym(x) for x in v.values())
    return False


def b_repr(it, v):
    if _has_sym(v):
        return it.fresh_str('repr')
    return repr(v)


def b_abs(it, v):
    if isinstance(v, (SInt, SReal, SBool)):
        z, real = num_z(v)
        return ops.wrap_num(z3.If(z >= 0, z, -z), real)
    if isinstance(v, Sym):
        raise PyExc('TypeError', 'bad operand type for abs()')
    return abs(v)


def b_any(it, seq):
    if isinstance(seq, SList):
        i = it.bound_var('any')
        old = it.quant_depth
        it.quant_depth += 1
        try:
            t = truth(it, seq.get(i))
        finally:
            it.quant_depth = old
        r = SBool(z3.Exists([i], z3.And(i >= 0, i < seq.n, zbool(t))))
        return r
    items = it.iterate_concrete(seq)
    if it.specmode:
        zs = [zbool(truth(it, x)) for x in items]
        return ops.simp_val(SBool(z3.Or(*zs))) if zs else False
    for x in items:
        if it.branch(truth(it, x)):
            return True
    return False


def b_all(it, seq):
    if isinstance(seq, SList):
        i = it.bound_var('all')
        old = it.quant_depth
        it.quant_depth += 1
        try:
            t = truth(it, seq.get(i))
        finally:
            it.quant_depth = old
        return SBool(z3.ForAll([i], z3.Implies(z3.And(i >= 0, i < seq.n), zbool(t))))
    items = it.iterate_concrete(seq)
    if it.specmode:
        zs = [zbool(truth(it, x)) for x in items]
        return ops.simp_val(SBool(z3.And(*zs))) if zs else True
    for x in items:
        if not it.branch(truth(it, x)):
            return False
    return True


_SUM_VAR = z3.Int('k!sum')


def sum_symbolic(it, seq, start=0):
    """
    sum over a symbolic list: PS(n), where PS is the partial-sum function of the
    term t(k) = seq[k].  PS is an uninterpreted function shared by every sum
    (code or spec) over the *same* term, identified by the simplified term at a
    canonical index variable; it is tied to the term by PS(0) = 0 and, when the
    contract sets it.sum_axioms, PS(k+1) = PS(k) + t(k) (a quantified fact; never
    used for feasibility).  Without the recursive fact only congruence is
    available: fewer things are provable, nothing false is.
    Two sums over syntactically different terms are unrelated unless the
    solver can derive equality from those facts.
    """
    old = it.quant_depth
    it.quant_depth += 1
    try:
        t = seq.get(_SUM_VAR)
    finally:
        it.quant_depth = old
    if isinstance(t, bool):
        t = int(t)
    if isinstance(t, int):
        tz, real = z3.IntVal(t), False
    elif isinstance(t, SInt):
        tz, real = t.z, False
    elif isinstance(t, SReal):
        tz, real = t.z, True
    elif isinstance(t, SBool):
        tz, real = z3.If(t.z, 1, 0), False
    else:
        raise Unsupported('sum over symbolic list of %s' % ops.typename(t))
    tz = z3.simplify(tz)
    key = tz.sexpr()
    if os.environ.get('PYVC_DEBUG_SUM'):
        print('SUM-KEY', key.replace('\n', ' '))
    defs = it.path.__dict__.setdefault('sum_defs', {})
    if key not in defs:
        name = 'PS!%d' % len(defs)
        f = z3.Function(name, z3.IntSort(), z3.RealSort() if real else z3.IntSort())
        defs[key] = f
        it.path.assume(f(0) == 0)
        if getattr(it, 'sum_axioms', False):
            j = it.bound_var('ps')
            it.path.assume(z3.ForAll([j], z3.Implies(j >= 0, f(j + 1) == f(j) + z3.substitute(tz, (_SUM_VAR, j)))))
    f = defs[key]
    n = z3.simplify(z3.If(seq.n > 0, seq.n, 0))
    total = f(n)
    r = SReal(total) if real else SInt(total)
    if not (isinstance(start, int) and start == 0):
        r = ops.binop(it, '+', start, r)
    return r


def b_sum(it, seq, start=0):
    if isinstance(seq, SList):
        return sum_symbolic(it, seq, start)
    r = start
    for x in it.iterate_concrete(seq):
        r = ops.binop(it, '+', r, x)
    return r


def b_range(it, *args):
    if all(isinstance(a, int) for a in args):
        return range(*args)
    if len(args) == 1:
        lo, hi = 0, args[0]
    elif len(args) == 2:
        lo, hi = args
    else:
        raise Unsupported('symbolic range with step')
    zl = z3.IntVal(lo) if isinstance(lo, int) else lo.z
    zh = z3.IntVal(hi) if isinstance(hi, int) else hi.z
    n = z3.simplify(z3.If(zh > zl, zh - zl, 0))
    return SList(n, lambda i: ops.simp_val(SInt(z3.simplify(zl + i))), T.int, 'range')


def b_enumerate(it, seq, start=0):
    if isinstance(seq, SList):
        g = seq.get
        return SList(seq.n, lambda i: (ops.simp_val(SInt(z3.simplify(i + start))), g(i)),
                     None, 'list')
    return [(i + start, x) for i, x in enumerate(it.iterate_concrete(seq))]


def b_zip(it, *seqs):
    if any(isinstance(s, SList) for s in seqs):
        ls = [it.lift_list(s) for s in seqs]
        n = ls[0].n
        for l in ls[1:]:
            n = z3.If(l.n < n, l.n, n)
        return SList(z3.simplify(n), lambda i: tuple(l.get(i) for l in ls), None, 'list')
    return list(zip(*[it.iterate_concrete(s) for s in seqs]))


def b_list(it, v=()):
    if isinstance(v, SList):
        return SList(v.n, v.get, v.elt, 'list')
    if isinstance(v, SObj) and '__iter__' in v.attrs:
        return b_list(it, v.attrs['__iter__'])
    return list(it.iterate_concrete(v))


def b_tuple(it, v=()):
    if isinstance(v, SList):
        return SList(v.n, v.get, v.elt, 'tuple')
    return tuple(it.iterate_concrete(v))


def b_set(it, v=()):
    if isinstance(v, SSet):
        return v
    if isinstance(v, SObj) and '__as_set__' in v.attrs:
        return v.attrs['__as_set__']
    if isinstance(v, SList):
        lst = v

        def has(x):
            i = it.bound_var('set')
            return z3.Exists([i], z3.And(i >= 0, i < lst.n,
                                         zbool(values_equal(it, lst.get(i), x))))
        def forall(pred):
            q = it.bound_var('setq')
            return z3.ForAll([q], z3.Implies(z3.And(q >= 0, q < lst.n), zbool(pred(lst.get(q)))))
        s = SSet(has, None, lst.elt, forall)
        return s
    if v is None:
        raise PyExc('TypeError', "'NoneType' object is not iterable")
    return it.make_set(it.iterate_concrete(v))


def b_dict(it, *args, **kw):
    d = OrderedDict()
    if args:
        src = args[0]
        if isinstance(src, dict):
            d.update(src)
        else:
            for k, v in it.iterate_concrete(src):
                if isinstance(k, Sym):
                    raise Unsupported('symbolic dict key')
                d[k] = v
    d.update(kw)
    return d


def b_sorted(it, seq, key=None, reverse=False):
    if isinstance(seq, (SList, SSet)):
        raise Unsupported('sorted of symbolic collection (use a contract)')
    items = it.iterate_concrete(seq)
    if key is None and not _has_sym(items):
        try:
            return sorted(items, reverse=reverse)
        except TypeError as e:
            raise PyExc('TypeError', str(e))
    if key is not None:
        keys = [it.call(key, [x], {}) for x in items]
        if not _has_sym(keys):
            try:
                order = sorted(range(len(items)), key=lambda i: keys[i], reverse=reverse)
            except TypeError as e:
                raise PyExc('TypeError', str(e))
            return [items[i] for i in order]
    # symbolic keys on a short concrete list: stable insertion sort, forking on each comparison
    if key is None:
        keys = list(items)
    if len(items) > 5:
        raise Unsupported('sorted with symbolic keys on a long list')
    order = []
    for i in range(len(items)):
        pos = len(order)
        # stable: insert after every element whose key is <= this key (or >= when reversed)
        for j in range(len(order)):
            c = compare(it, '>' if not reverse else '<', keys[order[j]], keys[i])
            if it.branch(truth(it, c)):
                pos = j
                break
        order.insert(pos, i)
    return [items[i] for i in order]


def b_print(it, *args, **kw):
    return None


def b_open(it, path, mode='r', *a, **kw):
    if not isinstance(mode, str):
        raise Unsupported('symbolic open mode')
    writing = any(c in mode for c in 'wax+')
    it.path.events.append(('open', path, mode))
    if writing:
        it.path.writes.append(('open:' + mode, path))
    f = SObj('file', {'path': path, 'mode': mode, '__open__': False})

    def f_read(it2, self, *args):
        it2.path.events.append(('read', path))
        if 'b' in mode:
            return it2.fresh_opaque('bytes')
        return it2.fresh_str('filetext')

    def f_write(it2, self, data):
        it2.path.events.append(('write', path, data))
        return None

    def f_close(it2, self):
        return None
    f.methods['read'] = Builtin(f_read)
    f.methods['write'] = Builtin(f_write)
    f.methods['close'] = Builtin(f_close)
    f.methods['__enter__'] = Builtin(lambda it2, self: self)
    return f


def b_reversed(it, seq):
    if isinstance(seq, SList):
        g, n = seq.get, seq.n
        return SList(n, lambda i: g(n - 1 - i), seq.elt, 'list')
    return list(reversed(it.iterate_concrete(seq)))


def b_round(it, v, nd=None):
    if isinstance(v, Sym):
        raise Unsupported('round of symbolic')
    return round(v, nd) if nd is not None else round(v)


def b_id(it, v):
    raise Unsupported('id()')


def b_ordereddict(it, *args, **kw):
    return b_dict(it, *args, **kw)


def b_callable(it, v):
    from .contracts import Contract
    return isinstance(v, (Builtin, Closure, BoundMethod, RepoFunction, RepoClass, Contract))


def b_ord(it, c):
    if isinstance(c, str):
        return ord(c)
    raise Unsupported('ord of symbolic')


def b_chr(it, c):
    if isinstance(c, int):
        return chr(c)
    raise Unsupported('chr of symbolic')


def b_map(it, f, seq):
    if isinstance(seq, SList):
        g = seq.get
        return SList(seq.n, lambda i: it.call(f, [g(i)], {}), None, 'list')
    return [it.call(f, [x], {}) for x in it.iterate_concrete(seq)]


BUILTINS = {
    'len': Builtin(b_len), 'min': Builtin(b_min), 'max': Builtin(b_max),
    'isinstance': Builtin(b_isinstance), 'type': Builtin(b_type),
    'getattr': Builtin(b_getattr), 'hasattr': Builtin(b_hasattr),
    'setattr': Builtin(b_setattr),
    'bool': Builtin(b_bool), 'int': Builtin(b_int), 'float': Builtin(b_float),
    'str': Builtin(b_str), 'repr': Builtin(b_repr), 'abs': Builtin(b_abs),
    'any': Builtin(b_any), 'all': Builtin(b_all), 'sum': Builtin(b_sum),
    'range': Builtin(b_range), 'enumerate': Builtin(b_enumerate),
    'zip': Builtin(b_zip), 'list': Builtin(b_list), 'tuple': Builtin(b_tuple),
    'set': Builtin(b_set), 'frozenset': Builtin(b_set), 'dict': Builtin(b_dict),
    'sorted': Builtin(b_sorted), 'print': Builtin(b_print),
    'open': Builtin(b_open), 'reversed': Builtin(b_reversed),
    'round': Builtin(b_round), 'OrderedDict': Builtin(b_ordereddict),
    'callable': Builtin(b_callable), 'ord': Builtin(b_ord), 'chr': Builtin(b_chr),
    'map': Builtin(b_map), 'id': Builtin(b_id),
    'True': True, 'False': False, 'None': None,
    'long': PyType(int), 'unicode': PyType(str), 'bytes': PyType(bytes),
    'object': PyType(object), 'NoneType': PyType(type(None)),
}
# the type names double as constructors and as isinstance targets: make the
# Builtin objects recognisable as types
for _n, _t in (('bool', bool), ('int', int), ('float', float), ('str', str),
               ('list', list), ('tuple', tuple), ('set', set), ('dict', dict),
               ('frozenset', frozenset)):
    BUILTINS[_n].pytype = _t


_orig_pytype = _pytype


def _pytype(x):  # noqa: F811
    if isinstance(x, Builtin) and hasattr(x, 'pytype'):
        return x.pytype
    return _orig_pytype(x)


# type identity: `type(x) is int`, `type(x) in (list, tuple)`
def _type_eq(a, b):
    ta, tb = _pytype(a), _pytype(b)
    return ta is tb


_old_values_equal = ops.values_equal


def _values_equal(it, a, b):
    if isinstance(a, (PyType,)) or isinstance(b, (PyType,)) or (
            isinstance(a, Builtin) and hasattr(a, 'pytype')) or (
            isinstance(b, Builtin) and hasattr(b, 'pytype')) or (
            isinstance(a, ModuleRef) or isinstance(b, ModuleRef)):
        return _type_eq(a, b)
    return _old_values_equal(it, a, b)


ops.values_equal = _values_equal
values_equal = _values_equal

_old_is = ops._is


def _is(it, a, b):
    if isinstance(a, (PyType, ModuleRef)) or isinstance(b, (PyType, ModuleRef)) or (
            isinstance(a, Builtin) and hasattr(a, 'pytype')) or (
            isinstance(b, Builtin) and hasattr(b, 'pytype')):
        return _type_eq(a, b)
    if isinstance(a, RepoClass) or isinstance(b, RepoClass):
        return a is b
    return _old_is(it, a, b)


ops._is = _is


# ---------------------------------------------------------------------------
# methods on values
# ---------------------------------------------------------------------------

def _bm(fn):
    return Builtin(fn)


def _symkeydict_method(it, d, name):
    if name == 'keys':
        return Builtin(lambda it2: [k for k, _ in d.entries])
    if name == 'values':
        return Builtin(lambda it2: [v for _, v in d.entries])
    if name == 'items':
        return Builtin(lambda it2: [(k, v) for k, v in d.entries])
    return None


def value_method(it, v, name):
    """Bound method `name` of a non-SObj value, or None."""
    if isinstance(v, SymKeyDict):
        return _symkeydict_method(it, v, name)
    if isinstance(v, str):
        return _str_method(it, v, name)
    if isinstance(v, SStr):
        return _sstr_method(it, v, name)
    if isinstance(v, SText):
        return _stext_method(it, v, name)
    if isinstance(v, list):
        return _list_method(it, v, name)
    if isinstance(v, tuple):
        if name in ('index', 'count'):
            return _list_method(it, list(v), name)
        return None
    if isinstance(v, dict):
        return _dict_method(it, v, name)
    if isinstance(v, (set,)):
        return _set_method(it, v, name)
    if isinstance(v, SMap):
        return _smap_method(it, v, name)
    if isinstance(v, SList):
        if name in ('index', 'count', 'copy'):
            def m(it2, *args):
                new, ret = slist_method(it2, v, name, list(args))
                return ret
            return Builtin(m)
        return None
    if isinstance(v, PyExc):
        if name == 'args':
            return (v.msg,)
        return None
    if isinstance(v, SDate):
        if name in ('date',):
            return Builtin(lambda it2: SDate(v.z, 'date'))
        return None
    if isinstance(v, (int, float)) and not isinstance(v, bool):
        if name == 'is_integer' and isinstance(v, float):
            return Builtin(lambda it2: v.is_integer())
        return None
    return None


def _str_method(it, s, name):
    if not hasattr(str, name):
        return None

    def m(it2, *args, **kw):
        if _has_sym(list(args)) or _has_sym(kw):
            if name in ('startswith', 'endswith') and len(args) == 1 and isinstance(args[0], SStr):
                f = str_startswith if name == 'startswith' else str_endswith
                return SBool(f(it2.strlit(s), args[0].z))
            if name == 'join':
                seq = args[0]
                if isinstance(seq, SList):
                    return it2.fresh_str('join')
                items = it2.iterate_concrete(seq)
                for x in items:
                    if not ops.is_strlike(x):
                        raise PyExc('TypeError', 'sequence item: expected str instance')
                return it2.fresh_str('join')
            if name == 'format':
                return it2.fresh_str('format')
            raise Unsupported('str.%s with symbolic args' % name)
        try:
            return getattr(s, name)(*args, **kw)
        except (ValueError, TypeError, IndexError, KeyError) as e:
            raise PyExc(type(e).__name__, str(e))
    return Builtin(m, 'str.' + name)


def _stext_method(it, s, name):
    if name in ('startswith', 'endswith'):
        def m(it2, prefix):
            edge = s.parts[0] if name == 'startswith' else s.parts[-1]
            if isinstance(edge, tuple):
                fmt = edge[1]
                lit = fmt.split('%')[0] if name == 'startswith' else fmt.rsplit('%', 1)[-1][1:]
                if lit:
                    return getattr(lit, name)(prefix) if len(lit) >= len(prefix) else False
                raise Unsupported('SText.%s on a formatted edge' % name)
            if isinstance(edge, str) and edge:
                return getattr(edge, name)(prefix) if len(edge) >= len(prefix) else False
            raise Unsupported('SText.%s on a symbolic edge' % name)
        return Builtin(m)
    return None


def _sstr_method(it, s, name):
    if not hasattr(str, name):
        return None

    def m(it2, *args, **kw):
        if name in ('startswith', 'endswith') and len(args) == 1:
            a = args[0]
            f = str_startswith if name == 'startswith' else str_endswith
            if isinstance(a, tuple):
                return SBool(z3.Or(*[f(s.z, ops.strz(it2, x)) for x in a]))
            if ops.is_strlike(a):
                return SBool(f(s.z, ops.strz(it2, a)))
        if name in ('strip', 'lstrip', 'rstrip', 'lower', 'upper', 'title', 'capitalize') and not args and not kw:
            # a function of the string (same argument, same result); stripping never lengthens
            f = z3.Function('str.%s' % name, StrS, StrS)
            r = SStr(f(s.z))
            if not it2.quant_depth:
                it2.fact(slen(r.z) >= 0)
                if name in ('strip', 'lstrip', 'rstrip'):
                    it2.fact(slen(r.z) <= slen(s.z))
            return r
        if name in ('strip', 'lstrip', 'rstrip', 'lower', 'upper', 'title',
                    'replace', 'format', 'encode', 'decode', 'join',
                    'capitalize', 'expandtabs', 'zfill', 'ljust', 'rjust'):
            return it2.fresh_str(name)
        if name in ('isdigit', 'isalpha', 'isspace', 'isupper', 'islower',
                    'isalnum', 'isdecimal', 'isnumeric'):
            return SBool(z3.Bool(it2.path.fresh_name('str.' + name)))
        if name in ('split', 'splitlines', 'rsplit', 'partition'):
            return it2.fresh(T.list(T.str), name)
        if name in ('find', 'index', 'count', 'rfind'):
            raise Unsupported('SStr.%s' % name)
        raise Unsupported('SStr.%s' % name)
    return Builtin(m, 'SStr.' + name)


def _list_method(it, L, name):
    if name == 'append':
        return Builtin(lambda it2, x: L.append(x))
    if name == 'extend':
        def ext(it2, xs):
            L.extend(it2.iterate_concrete(xs))
        return Builtin(ext)
    if name == 'insert':
        def ins(it2, i, x):
            if not isinstance(i, int):
                raise Unsupported('symbolic insert index')
            L.insert(i, x)
        return Builtin(ins)
    if name == 'pop':
        def pop(it2, i=-1):
            if not isinstance(i, int):
                raise Unsupported('symbolic pop index')
            try:
                return L.pop(i)
            except IndexError as e:
                raise PyExc('IndexError', str(e))
        return Builtin(pop)
    if name == 'index':
        def index(it2, x, *rest):
            if rest:
                raise Unsupported('list.index with range')
            for j, y in enumerate(L):
                if it2.branch(zbool(values_equal(it2, x, y))):
                    return j
            raise PyExc('ValueError', 'x not in list')
        return Builtin(index)
    if name == 'count':
        def count(it2, x):
            r = 0
            for y in L:
                e = values_equal(it2, x, y)
                r = ops.binop(it2, '+', r, SInt(z3.If(zbool(e), 1, 0)) if not isinstance(e, bool) else int(e))
            return ops.simp_val(r) if isinstance(r, Sym) else r
        return Builtin(count)
    if name == 'remove':
        def remove(it2, x):
            for j, y in enumerate(L):
                if it2.branch(zbool(values_equal(it2, x, y))):
                    del L[j]
                    return None
            raise PyExc('ValueError', 'list.remove(x): x not in list')
        return Builtin(remove)
    if name == 'sort':
        def sort(it2, key=None, reverse=False):
            L[:] = b_sorted(it2, list(L), key=key, reverse=reverse)
        return Builtin(sort)
    if name == 'reverse':
        return Builtin(lambda it2: L.reverse())
    if name == 'copy':
        return Builtin(lambda it2: list(L))
    if name == 'clear':
        return Builtin(lambda it2: L.clear())
    return None


def _dict_method(it, d, name):
    def concrete_key(k):
        if isinstance(k, Sym):
            return False
        return True

    if name == 'get':
        def get(it2, k, default=None):
            if concrete_key(k):
                try:
                    return d.get(k, default)
                except TypeError:
                    raise Unsupported('unhashable key')
            for key in d:
                if it2.branch(zbool(values_equal(it2, k, key))):
                    return d[key]
            return default
        return Builtin(get)
    if name == 'items':
        return Builtin(lambda it2: list(d.items()))
    if name == 'keys':
        return Builtin(lambda it2: list(d.keys()))
    if name == 'values':
        return Builtin(lambda it2: list(d.values()))
    if name == 'update':
        def update(it2, *args, **kw):
            for a in args:
                if not isinstance(a, dict):
                    raise Unsupported('dict.update with non-dict')
                d.update(a)
            d.update(kw)
        return Builtin(update)
    if name == 'pop':
        def pop(it2, k, *default):
            if not concrete_key(k):
                raise Unsupported('dict.pop symbolic key')
            if k in d:
                return d.pop(k)
            if default:
                return default[0]
            raise PyExc('KeyError', repr(k))
        return Builtin(pop)
    if name == 'setdefault':
        def setdefault(it2, k, default=None):
            if not concrete_key(k):
                raise Unsupported('dict.setdefault symbolic key')
            return d.setdefault(k, default)
        return Builtin(setdefault)
    if name == 'copy':
        return Builtin(lambda it2: type(d)(d))
    if name == 'clear':
        return Builtin(lambda it2: d.clear())
    return None


def _smap_method(it, m, name):
    if name == 'get':
        def get(it2, k, default=None):
            if it2.branch(zbool(m.has(k))):
                return m.get(k)
            return default
        return Builtin(get)
    return None


def _set_method(it, s, name):
    if name == 'add':
        def add(it2, x):
            if isinstance(x, Sym):
                raise Unsupported('symbolic add to concrete set')
            s.add(x)
        return Builtin(add)
    if name in ('discard', 'remove'):
        def rm(it2, x):
            if isinstance(x, Sym):
                raise Unsupported('symbolic remove from concrete set')
            if name == 'remove' and x not in s:
                raise PyExc('KeyError', repr(x))
            s.discard(x)
        return Builtin(rm)
    if name in ('union', 'intersection', 'difference', 'issubset', 'issuperset'):
        def op(it2, other):
            if isinstance(other, Sym):
                raise Unsupported('set.%s with symbolic' % name)
            return getattr(s, name)(set(it2.iterate_concrete(other)))
        return Builtin(op)
    return None


def slist_method(it, L, name, args):
    """(new list or None, return value) for a method call on an SList."""
    g, n = L.get, L.n
    if name == 'append':
        x = args[0]
        return SList(n + 1, lambda i: it.ite_value(i == n, lambda: x, lambda: g(i)),
                     L.elt, L.kind), None
    if name == 'copy':
        return None, SList(n, g, L.elt, L.kind)
    if name == 'pop':
        if args:
            i = it.index_value(args[0])
            iz = z3.IntVal(i) if isinstance(i, int) else i
        else:
            iz = n - 1
        if it.branch(n == 0):
            raise PyExc('IndexError', 'pop from empty list')
        if not it.branch(z3.And(iz >= 0, iz < n)):
            raise Unsupported('pop with negative/out-of-range symbolic index')
        ret = g(iz)
        new = SList(n - 1, lambda j: it.ite_value(j < iz, lambda: g(j), lambda: g(j + 1)),
                    L.elt, L.kind)
        return new, ret
    if name == 'insert':
        i = it.index_value(args[0])
        iz = z3.IntVal(i) if isinstance(i, int) else i
        x = args[1]
        if not it.branch(z3.And(iz >= 0, iz <= n)):
            raise Unsupported('insert with negative/out-of-range symbolic index')
        new = SList(n + 1, lambda j: it.ite_value(
            j < iz, lambda: g(j), lambda: it.ite_value(j == iz, lambda: x, lambda: g(j - 1))),
            L.elt, L.kind)
        return new, None
    if name == 'index':
        x = args[0]
        r = z3.Int(it.path.fresh_name('index'))
        q = it.bound_var('ix')
        found = z3.Exists([q], z3.And(q >= 0, q < n, zbool(values_equal(it, g(q), x))))
        if not it.branch(found):
            raise PyExc('ValueError', 'x not in list')
        q2 = it.bound_var('ix')
        it.path.assume(z3.And(r >= 0, r < n, zbool(values_equal(it, g(r), x)),
                              z3.ForAll([q2], z3.Implies(z3.And(q2 >= 0, q2 < r),
                                                         z3.Not(zbool(values_equal(it, g(q2), x)))))))
        return None, SInt(r)
    raise Unsupported('SList.%s' % name)


# ---------------------------------------------------------------------------
# non-repo modules
# ---------------------------------------------------------------------------

def _dt_ctor(kind):
    def ctor(it, *args, **kw):
        # constructor precondition is the caller's obligation (C11)
        hook = it.spec_env.get('__datetime_ctor__')
        if hook is not None:
            return hook(it, kind, args, kw)
        if not _has_sym(list(args)):
            try:
                (datetime.datetime if kind == 'datetime' else datetime.date)(*args, **kw)
            except (ValueError, TypeError) as e:
                raise PyExc(type(e).__name__, str(e))
        return it.fresh(T.datetime if kind == 'datetime' else T.date, 'dt')
    b = Builtin(ctor, 'datetime.' + kind)
    b.pytype = datetime.datetime if kind == 'datetime' else datetime.date
    return b


_DT = _dt_ctor('datetime')
_D = _dt_ctor('date')


from .sym import StrS as _StrS
path_sepfree = z3.Function('path_sepfree', _StrS, z3.BoolSort())
path_under = z3.Function('path_under', _StrS, _StrS, z3.BoolSort())


def ospath_attr(full):
    """
    A-path: os.path.split/basename give a separator-free tail; join(d, b) with
    separator-free b lies under d; everything else is an unconstrained string.
    """
    name = full.split('.')[-1]
    if full == 'os.name':
        return 'posix'
    if full == 'os.sep':
        return '/'

    def sz(it, v):
        return ops.strz(it, v)

    if name == 'split':
        def split(it, p):
            head, tail = it.fresh_str('head'), it.fresh_str('tail')
            it.fact(path_sepfree(tail.z))
            return (head, tail)
        return Builtin(split)
    if name == 'basename':
        def basename(it, p):
            if isinstance(p, str):
                return __import__('posixpath').basename(p)
            t = it.fresh_str('basename')
            it.fact(path_sepfree(t.z))
            return t
        return Builtin(basename)
    if name == 'join':
        def join(it, d, *parts):
            r = it.fresh_str('joined')
            if len(parts) == 1 and ops.is_strlike(parts[0]) and ops.is_strlike(d):
                b = parts[0]
                if isinstance(b, str):
                    if '/' not in b and '\\' not in b and b not in ('..', '.', ''):
                        it.fact(path_under(r.z, sz(it, d)))
                else:
                    it.fact(z3.Implies(path_sepfree(sz(it, b)), path_under(r.z, sz(it, d))))
            return r
        return Builtin(join)
    if name in ('exists', 'isabs', 'isdir', 'isfile'):
        return Builtin(lambda it, p: SBool(z3.Bool(it.path.fresh_name('os.path.' + name))))
    if name in ('normpath', 'abspath', 'dirname', 'expanduser', 'realpath'):
        return Builtin(lambda it, p: it.fresh_str(name))
    if name == 'splitext':
        return Builtin(lambda it, p: (it.fresh_str('root'), it.fresh_str('ext')))
    if name == 'getcwd':
        return Builtin(lambda it: it.fresh_str('cwd'))
    raise Unsupported('module attribute %s' % full)


_DEFAULT_LOADER = SObj('unittest.defaultTestLoader', {'__open__': False})
_TESTLOADER_CLASS = SObj('unittest.TestLoader', {'__init__': Builtin(lambda it, *a, **k: None),
                                                 '__open__': False})


def module_attr(m, name):
    full = m.name + '.' + name
    table = {
        'datetime.datetime': _DT, 'datetime.date': _D,
        'datetime.datetime.datetime': _DT,
        'sys.stderr': SObj('stream'), 'sys.stdout': SObj('stream'),
        'sys.version_info': tuple(__import__('sys').version_info),
        'collections.OrderedDict': BUILTINS['OrderedDict'],
    }
    if full in table:
        return table[full]
    if full == 'sys.exit':
        def sys_exit(it, code=0):
            raise PyExc('SystemExit', code if isinstance(code, str) else str(code))
        return Builtin(sys_exit)
    if full in ('os.path', 'os.environ'):
        return ModuleRef(full)
    if full.startswith('os.path.') or full in ('os.getcwd', 'os.name', 'os.sep'):
        return ospath_attr(full)
    if full in ('os.remove', 'os.unlink'):
        def os_remove(it, path):
            it.path.events.append(('remove', path))
            it.path.writes.append(('remove', path))
            return None
        return Builtin(os_remove)
    if full == 'unittest.defaultTestLoader':
        return _DEFAULT_LOADER
    if full == 'unittest.TestLoader':
        return _TESTLOADER_CLASS
    if full == 'unittest.main':
        def unittest_main(it, *args, **kw):
            it.path.events.append(('unittest.main', args, dict(kw)))
            return None
        return Builtin(unittest_main)
    if full == 'sys.argv':
        return ['<sys.argv>']
    raise Unsupported('module attribute %s' % full)
