"""
pyvc.contracts -- sidecar contracts on repository functions.

One Contract object serves two uses:
  * verify():  the function's real body (extracted from /repo now) is executed
               symbolically against requires/ensures  -> obligations
  * apply():   at a call site inside another function under verification only
               the contract is used (modular reasoning): requires become
               `pre@callee` obligations, ensures are assumed on a fresh result.
"""
import time
import z3
from collections import OrderedDict

from .sym import (Sym, SBool, SInt, SReal, SStr, SList, SObj, TD, T, Unsupported,
                  model_value)
from .ops import PyExc, truth, zbool
from .path import Path, PathEnd, explore, Obligation
from .interp import Interp, Frame, Builtin, ReturnSig
from . import extract

REGISTRY = OrderedDict()


class LoopSpec(object):
    def __init__(self, invariants, index='_i', havoc=None, extra_env=None, variant=None):
        self.invariants = [(l, s) for l, s in invariants]
        self.index = index
        self.havoc = dict(havoc or {})
        self.extra_env = extra_env
        self.variant = variant


def _labelled(clauses):
    out = []
    for i, c in enumerate(clauses or []):
        if isinstance(c, tuple):
            out.append((c[0], c[1]))
        else:
            out.append(('c%d' % (i + 1), c))
    return out


class Contract(object):
    def __init__(self, ident, params=None, requires=None, ensures=None,
                 result=None, raises=None, self_view=None, loops=None,
                 inline=(), props=(), spec_env=None, effects=None,
                 olds=None, derived=(), assumed=False, name=None,
                 pre_effects=None, allow_raise=None, on_entry=None,
                 trusted_note='', max_paths=20000, callee_only=False,
                 replay=None, self_param='self', kwparams=None, always=None):
        self.ident = ident
        self.always = _labelled(always)     # clauses that must hold however the call ends (return or raise)
        self.name = name or ident.split('::')[-1]
        self.params = OrderedDict(params or {})
        self.requires = _labelled(requires)
        self.ensures = _labelled(ensures)
        self.result = result if result is not None else T.none
        self.raises = raises or {}          # etype -> spec condition src (when it MAY/MUST raise)
        self.self_view = self_view
        self.loops = loops or {}
        self.inline = set(inline)
        self.props = list(props)
        self.spec_env = dict(spec_env or {})
        self.effects = effects
        self.olds = dict(olds or {})
        self.derived = set(derived)
        self.assumed = assumed              # True: no body is verified (trusted/external)
        self.allow_raise = allow_raise      # dict etype -> condition src under which raising is correct
        self.on_entry = on_entry
        self.trusted_note = trusted_note
        self.max_paths = max_paths
        self.callee_only = callee_only
        self.replay = replay
        self.self_param = self_param
        self.kwparams = dict(kwparams or {})     # passed as keyword arguments (**kwargs of the target)

    # ------------------------------------------------------------------
    def bind(self, it, args, kwargs, selfobj):
        names = list(self.params)
        env = OrderedDict()
        args = list(args)
        kwargs = dict(kwargs)
        for i, n in enumerate(names):
            if i < len(args):
                env[n] = args[i]
            elif n in kwargs:
                env[n] = kwargs.pop(n)
            else:
                d = self.defaults.get(n, Ellipsis) if hasattr(self, 'defaults') else Ellipsis
                if d is Ellipsis:
                    raise PyExc('TypeError', '%s() missing argument %s' % (self.name, n))
                env[n] = d
        if len(args) > len(names) or kwargs:
            if not getattr(self, 'varargs_ok', False):
                raise PyExc('TypeError', '%s() got unexpected arguments' % self.name)
            env['_extra_args'] = tuple(args[len(names):])
            env['_extra_kwargs'] = kwargs
        if selfobj is not None:
            env['self'] = selfobj
        return env

    def apply(self, it, args, kwargs, selfobj=None):
        """Use the contract at a call site."""
        p = it.path
        env = self.bind(it, args, kwargs, selfobj)
        senv = dict(it.spec_env)
        senv.update(self.spec_env)
        senv.update(env)
        caller = it.target.name if it.target else '?'
        # which contracts the proof of the caller leans on: assumed ones are reported as assumptions
        used = getattr(it.target, '_callees_used', None)
        if used is not None:
            used[self.name] = ('assumed' + (': ' + self.trusted_note if self.trusted_note else '')) if self.assumed \
                else 'verified separately'
        for k, src in self.olds.items():
            senv[k] = it.eval_spec(src, senv)
        for label, src in self.requires:
            c = it.spec_bool(src, senv)
            p.oblige('%s.pre@%s.%s' % (caller, self.name, label), zbool(c), kind='pre')
        if self.raises:
            for etype, cond in self.raises.items():
                c = it.spec_bool(cond, senv)
                if it.branch(c):
                    raise PyExc(etype, 'raised by %s (contract)' % self.name)
        res = it.fresh(self.result, '%s.result' % self.name) if isinstance(self.result, TD) else self.result
        senv['result'] = res
        if self.effects is not None:
            r2 = self.effects(it, senv)
            if r2 is not None:
                res = r2
                senv['result'] = res
        sm, it.specmode = it.specmode, False
        it.specmode = sm
        for label, src in self.ensures:
            c = it.spec_bool(src, senv)
            p.assume(zbool(c))
        p.trace.append((self.name, dict(env), res))
        return res

    # ------------------------------------------------------------------
    def verify(self, registry=None, quick=False):
        """Symbolically execute the real function against this contract."""
        registry = registry if registry is not None else REGISTRY
        t0 = time.time()
        fn = extract.get_function(self.ident)
        report = FunctionReport(self, fn)
        self._callees_used = {}
        spec_env = dict(self.spec_env)
        loops = {}
        for k, ls in self.loops.items():
            loops[(fn.ident, k)] = ls
        inline = set(self.inline)

        def run(path):
            it = Interp(path, registry=registry, inline=inline, loops=loops,
                        spec_env=spec_env, target=self)
            env = OrderedDict()
            selfobj = None
            if self.self_view is not None:
                selfobj = self.self_view(it)
                env['self'] = selfobj
            for n, td in self.params.items():
                env[n] = it.fresh(td, n) if isinstance(td, TD) else td
            kwenv = OrderedDict()
            for n, td in self.kwparams.items():
                v = it.fresh(td, n) if isinstance(td, TD) else td
                if v is not Ellipsis:
                    kwenv[n] = v
            env['kwargs_given'] = kwenv
            path.inputs = dict(env)
            senv = dict(spec_env)
            senv.update(env)
            if self.on_entry:
                self.on_entry(it, senv)
            for k, src in self.olds.items():
                senv[k] = it.eval_spec(src, senv)
            for label, src in self.requires:
                path.assume(zbool(it.spec_bool(src, senv)))
            path.assumed_names = [l for l, _ in self.requires]
            # on_entry may replace parameter values (ghost-backed stubs)
            args = ([selfobj] if selfobj is not None else []) + [senv.get(n, env[n]) for n in self.params]
            outcome = None
            try:
                result = it.run_function(fn, args, kwenv)
                outcome = ('return', result)
            except PyExc as e:
                outcome = ('raise', e)
            if outcome[0] == 'raise':
                e = outcome[1]
                allowed = None
                if self.allow_raise and e.etype in self.allow_raise:
                    allowed = self.allow_raise[e.etype]
                name = '%s.noraise.%s@L%s' % (self.name, e.etype, e.lineno)
                if allowed is None:
                    ob = path.oblige(name, False, kind='noraise', detail=e.msg if isinstance(e.msg, str) else '')
                else:
                    c = it.spec_bool(allowed, senv)
                    path.oblige('%s.raise-only-when.%s@L%s' % (self.name, e.etype, e.lineno),
                                zbool(c), kind='noraise', detail='raising is correct only when: ' + allowed)
                senv['raised'] = e.etype
            else:
                senv['result'] = outcome[1]
                senv['raised'] = None
                # must-raise conditions
                if self.allow_raise:
                    for etype, cond in self.allow_raise.items():
                        if getattr(self, 'must_raise', {}).get(etype):
                            c = it.spec_bool(self.must_raise[etype], senv)
                            path.oblige('%s.must-raise.%s' % (self.name, etype),
                                        z3.Not(zbool(c)), kind='post')
                for label, src in self.ensures:
                    try:
                        c = it.spec_bool(src, senv)
                    except Unsupported as u:
                        ob = Obligation('%s.post.%s' % (self.name, label), 'undecided',
                                        'none', 0.0, pathid=path.pathid,
                                        detail='spec not evaluable: %s' % u, kind='post')
                        path.obligations.append(ob)
                        continue
                    kind = 'post-derived' if label in self.derived else 'post'
                    path.oblige('%s.post.%s' % (self.name, label), zbool(c), kind=kind)
            for label, src in self.always:
                try:
                    c = it.spec_bool(src, senv)
                except Unsupported as u:
                    path.obligations.append(Obligation('%s.always.%s' % (self.name, label), 'undecided', 'none', 0.0,
                                                       pathid=path.pathid, detail='spec not evaluable: %s' % u,
                                                       kind='post'))
                    continue
                path.oblige('%s.always.%s' % (self.name, label), zbool(c), kind='post',
                            detail='outcome: %s' % (outcome[0] if outcome[0] == 'return' else 'raise ' + outcome[1].etype))
            return outcome

        def on_path(path, outcome):
            for ob in path.obligations:
                if ob.status == 'refuted' and ob.model_obj is not None:
                    try:
                        ob.model = self.describe_model(path, ob.model_obj, outcome)
                    except Exception as e:   # model printing must never kill a run
                        ob.model = {'error': 'model extraction failed: %r' % (e,)}
                    ob.model_obj = None

        res = explore(run, max_paths=self.max_paths, on_path=on_path)
        report.result = res
        report.seconds = time.time() - t0
        return report

    def describe_model(self, path, model, outcome):
        d = {'inputs': {}, 'calls': []}
        for n, v in path.inputs.items():
            d['inputs'][n] = _jsonable(model_value(model, v))
        for name, env, res in path.trace:
            d['calls'].append({'callee': name,
                               'args': {k: _jsonable(model_value(model, v))
                                        for k, v in env.items() if k != 'self'},
                               'result': _jsonable(model_value(model, res))})
        if outcome is not None:
            if outcome[0] == 'return':
                d['symbolic_result'] = _jsonable(model_value(model, outcome[1]))
            else:
                d['raised'] = str(outcome[1])
        return d


def _jsonable(v):
    import fractions
    if isinstance(v, fractions.Fraction):
        return {'fraction': [v.numerator, v.denominator], 'float': float(v)}
    if isinstance(v, dict):
        return {str(k): _jsonable(x) for k, x in v.items()}
    if isinstance(v, (list, tuple)):
        return [_jsonable(x) for x in v]
    if isinstance(v, (str, int, float, bool)) or v is None:
        return v
    return repr(v)


class FunctionReport(object):
    def __init__(self, contract, fn):
        self.contract = contract
        self.fn = fn
        self.result = None
        self.seconds = 0.0

    @property
    def obligations(self):
        return self.result.obligations

    def summary(self):
        r = self.result
        by = {}
        for ob in r.obligations:
            by.setdefault(ob.status, []).append(ob)
        return {
            'function': self.fn.ident, 'extraction': self.fn.info(),
            'paths': r.paths, 'infeasible_pruned': r.infeasible,
            'loop_ends': r.ended,
            'unsupported': [u[1] for u in r.unsupported][:10],
            'obligations': len(r.obligations),
            'discharged': len(by.get('discharged', [])),
            'refuted': len(by.get('refuted', [])),
            'undecided': len(by.get('undecided', [])),
            'solver_seconds': round(r.solver_seconds, 3),
            'seconds': round(self.seconds, 3),
            'callee_contracts_used': dict(getattr(self.contract, '_callees_used', {}) or {}),
            'abstraction': getattr(self.contract, 'abstraction', None),
        }


def contract(ident, **kw):
    c = Contract(ident, **kw)
    REGISTRY[ident] = c
    return c


class Lemma(Contract):
    """
    A stand-alone implication between contracts/specs (no code involved):
    setup(it) builds the symbolic environment, `assumes` are assumed,
    `proves` become obligations named <name>.lemma.<label>.
    """
    def __init__(self, name, setup, assumes, proves, props=(), spec_env=None):
        Contract.__init__(self, 'lemma::' + name, props=props, spec_env=spec_env, name=name)
        self.setup = setup
        self.assumes = _labelled(assumes)
        self.proves = _labelled(proves)

    def verify(self, registry=None, quick=False):
        t0 = time.time()
        registry = registry if registry is not None else REGISTRY

        class _Fn(object):
            ident = self.ident

            def info(s):
                return {'function': self.ident, 'lines': [0, 0], 'sha256': '-',
                        'dropped': [], 'note': 'lemma over contracts: no repository code'}
        report = FunctionReport(self, _Fn())

        def run(path):
            it = Interp(path, registry=registry, spec_env=dict(self.spec_env), target=self)
            env = dict(self.spec_env)
            env.update(self.setup(it))
            path.inputs = {k: v for k, v in env.items() if k not in self.spec_env}
            for label, src in self.assumes:
                path.assume(zbool(it.spec_bool(src, env)))
            for label, src in self.proves:
                path.oblige('%s.lemma.%s' % (self.name, label), zbool(it.spec_bool(src, env)),
                            kind='lemma')
            return ('return', None)

        def on_path(path, outcome):
            for ob in path.obligations:
                if ob.status == 'refuted' and ob.model_obj is not None:
                    try:
                        ob.model = self.describe_model(path, ob.model_obj, None)
                    except Exception as e:
                        ob.model = {'error': repr(e)}
                    ob.model_obj = None
        report.result = explore(run, on_path=on_path)
        report.seconds = time.time() - t0
        return report


def lemma(name, **kw):
    c = Lemma(name, **kw)
    REGISTRY[c.ident] = c
    return c
