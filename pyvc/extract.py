"""
pyvc.extract -- mechanical extraction of functions and module constants
from /repo's *current* working tree.

Dropped by extraction (and nothing else): docstrings.  print()/warn() calls
are kept in the AST and modelled by the interpreter as no-ops that cannot
raise; blocks guarded by a module constant that folds to False are simply
never executed by the interpreter (their guard is evaluated concretely).
"""
import ast
import hashlib
import os
import sys

REPO = os.environ.get('VERIF_REPO', '/repo')

_cache = {}


class RepoFunction(object):
    def __init__(self, module, node, cls=None):
        self.module = module
        self.node = node
        self.cls = cls
        self.name = node.name

    @property
    def qualname(self):
        return (self.cls.name + '.' if self.cls else '') + self.name

    @property
    def ident(self):
        return '%s::%s' % (self.module.relpath, self.qualname)

    def source_segment(self):
        return ast.get_source_segment(self.module.source, self.node) or ''

    def sha256(self):
        return hashlib.sha256(self.source_segment().encode()).hexdigest()

    def span(self):
        return (self.node.lineno, self.node.end_lineno)

    def info(self):
        return {'function': self.ident, 'lines': list(self.span()),
                'sha256': self.sha256()[:16],
                'dropped': ['docstring'] if ast.get_docstring(self.node) else []}

    def body(self):
        b = self.node.body
        if (b and isinstance(b[0], ast.Expr)
                and isinstance(b[0].value, ast.Constant)
                and isinstance(b[0].value.value, str)):
            return b[1:]
        return b

    def __repr__(self):
        return '<RepoFunction %s>' % self.ident


class RepoClass(object):
    def __init__(self, module, node):
        self.module = module
        self.node = node
        self.name = node.name
        self.methods = {}
        self.class_attrs = {}
        for n in node.body:
            if isinstance(n, (ast.FunctionDef,)):
                self.methods[n.name] = RepoFunction(module, n, self)

    def base_names(self):
        out = []
        for b in self.node.bases:
            if isinstance(b, ast.Name):
                out.append(b.id)
            elif isinstance(b, ast.Attribute):
                out.append(b.attr)
        return out

    def find_method(self, name):
        if name in self.methods:
            return self.methods[name]
        for bn in self.base_names():
            try:
                b = self.module.resolve(bn)
            except KeyError:
                continue
            if isinstance(b, RepoClass):
                m = b.find_method(name)
                if m:
                    return m
        return None

    def instances_have(self, name, _seen=None):
        """Does the class (or a base class in the repository) ever assign self.<name> or define <name>?
        None when a base class is outside the repository (unknown)."""
        import ast as _ast
        _seen = _seen or set()
        if self.name in _seen:
            return False
        _seen.add(self.name)
        for n in _ast.walk(self.node):
            if isinstance(n, _ast.Attribute) and isinstance(n.ctx, _ast.Store) and n.attr == name \
                    and isinstance(n.value, _ast.Name) and n.value.id in ('self', 'cls'):
                return True
            if isinstance(n, (_ast.FunctionDef, _ast.ClassDef)) and n.name == name and n in self.node.body:
                return True
            if isinstance(n, _ast.Assign) and n in self.node.body:
                for t in n.targets:
                    if isinstance(t, _ast.Name) and t.id == name:
                        return True
            if isinstance(n, _ast.Call) and isinstance(n.func, _ast.Name) and n.func.id == 'setattr':
                return None
        unknown = False
        for bn in self.base_names():
            if bn == 'object':
                continue
            try:
                b = self.module.resolve(bn)
            except KeyError:
                unknown = True
                continue
            if isinstance(b, RepoClass):
                r = b.instances_have(name, _seen)
                if r:
                    return True
                if r is None:
                    unknown = True
            else:
                unknown = True
        return None if unknown else False

    def __repr__(self):
        return '<RepoClass %s>' % self.name


class ModuleRef(object):
    """Reference to a non-repo module (datetime, os, re, sys, ...)."""
    def __init__(self, name):
        self.name = name

    def __repr__(self):
        return '<ModuleRef %s>' % self.name


class Unfoldable(Exception):
    pass


class BuiltinRef(object):
    """A module-level alias of a Python builtin (e.g. long_type = int)."""
    def __init__(self, name):
        self.name = name

    def __repr__(self):
        return '<BuiltinRef %s>' % self.name


BUILTIN_NAMES = ('int', 'str', 'bytes', 'float', 'bool', 'list', 'tuple',
                 'dict', 'set', 'frozenset', 'object', 'len', 'sorted')


class RepoModule(object):
    def __init__(self, relpath, abspath=None):
        self.relpath = relpath
        self.path = abspath or os.path.join(REPO, relpath)
        with open(self.path, encoding='utf-8') as f:
            self.source = f.read()
        self.tree = ast.parse(self.source, filename=self.path)
        self.functions = {}
        self.classes = {}
        self.assigns = {}     # name -> ast expr (last module-level assignment)
        self.imports = {}     # name -> (module, original name or None)
        self.values = {}
        self._scan(self.tree.body)

    def _scan(self, body):
        for n in body:
            if isinstance(n, ast.FunctionDef):
                self.functions[n.name] = RepoFunction(self, n)
            elif isinstance(n, ast.ClassDef):
                self.classes[n.name] = RepoClass(self, n)
            elif isinstance(n, ast.Assign):
                for t in n.targets:
                    if isinstance(t, ast.Name):
                        self.assigns[t.id] = n.value
                    elif isinstance(t, ast.Tuple) and isinstance(n.value, ast.Tuple):
                        for tt, vv in zip(t.elts, n.value.elts):
                            if isinstance(tt, ast.Name):
                                self.assigns[tt.id] = vv
            elif isinstance(n, ast.ImportFrom):
                for a in n.names:
                    self.imports[a.asname or a.name] = (n.module, a.name)
            elif isinstance(n, ast.Import):
                for a in n.names:
                    self.imports[a.asname or a.name.split('.')[0]] = (a.name, None)
            elif isinstance(n, ast.If):
                try:
                    t = self.fold(n.test)
                except Unfoldable:
                    continue
                self._scan(n.body if t else n.orelse)
            elif isinstance(n, ast.Try):
                self._scan(n.body)

    # -- constant folding of module-level expressions ----------------------
    def fold(self, e):
        if isinstance(e, ast.Constant):
            return e.value
        if isinstance(e, (ast.Tuple, ast.List, ast.Set)):
            vals = [self.fold(x) for x in e.elts]
            return (tuple(vals) if isinstance(e, ast.Tuple)
                    else list(vals) if isinstance(e, ast.List) else set(vals))
        if isinstance(e, ast.Dict):
            return {self.fold(k): self.fold(v) for k, v in zip(e.keys, e.values)}
        if isinstance(e, ast.Name):
            if e.id in ('True', 'False', 'None'):
                return {'True': True, 'False': False, 'None': None}[e.id]
            try:
                v = self.resolve(e.id)
            except KeyError:
                if e.id in BUILTIN_NAMES:
                    return BuiltinRef(e.id)
                raise Unfoldable(e.id)
            if isinstance(v, (RepoFunction, RepoClass, ModuleRef)):
                raise Unfoldable(e.id)
            return v
        if isinstance(e, ast.UnaryOp):
            v = self.fold(e.operand)
            if isinstance(e.op, ast.USub):
                return -v
            if isinstance(e.op, ast.Not):
                return not v
            if isinstance(e.op, ast.UAdd):
                return +v
        if isinstance(e, ast.BinOp):
            l, r = self.fold(e.left), self.fold(e.right)
            ops = {ast.Add: lambda: l + r, ast.Sub: lambda: l - r,
                   ast.Mult: lambda: l * r, ast.Mod: lambda: l % r,
                   ast.BitOr: lambda: l | r, ast.Div: lambda: l / r,
                   ast.FloorDiv: lambda: l // r}
            if type(e.op) in ops:
                return ops[type(e.op)]()
        if isinstance(e, ast.Compare) and len(e.ops) == 1:
            l, r = self.fold(e.left), self.fold(e.comparators[0])
            ops = {ast.Lt: l.__lt__, ast.LtE: l.__le__, ast.Gt: l.__gt__,
                   ast.GtE: l.__ge__, ast.Eq: l.__eq__, ast.NotEq: l.__ne__}
            if type(e.ops[0]) in ops:
                return ops[type(e.ops[0])](r)
        if isinstance(e, ast.Subscript):
            return self.fold(e.value)[self.fold(e.slice)]
        if isinstance(e, ast.Attribute):
            # sys.version_info and friends
            if (isinstance(e.value, ast.Name) and e.value.id == 'sys'
                    and e.attr == 'version_info'):
                return tuple(sys.version_info)
            if (isinstance(e.value, ast.Name) and e.value.id == 're'
                    and e.attr in ('UNICODE', 'DOTALL', 'U', 'S', 'I',
                                   'IGNORECASE', 'MULTILINE', 'M')):
                import re
                return int(getattr(re, e.attr))
        if isinstance(e, ast.BoolOp):
            vals = [self.fold(v) for v in e.values]
            if isinstance(e.op, ast.And):
                r = True
                for v in vals:
                    r = v
                    if not v:
                        break
                return r
            r = False
            for v in vals:
                r = v
                if v:
                    break
            return r
        if isinstance(e, ast.Call) and isinstance(e.func, ast.Name):
            if e.func.id in ('tuple', 'list', 'set', 'frozenset', 'len',
                             'sorted', 'dict', 'str', 'int', 'OrderedDict'):
                from collections import OrderedDict
                args = [self.fold(a) for a in e.args]
                return {'tuple': tuple, 'list': list, 'set': set,
                        'frozenset': frozenset, 'len': len, 'sorted': sorted,
                        'dict': dict, 'str': str, 'int': int,
                        'OrderedDict': OrderedDict}[e.func.id](*args)
        if (isinstance(e, ast.Call) and isinstance(e.func, ast.Attribute)
                and e.func.attr in ('keys', 'values', 'items') and not e.args):
            d = self.fold(e.func.value)
            if isinstance(d, dict):
                return list(getattr(d, e.func.attr)())
        raise Unfoldable(ast.dump(e)[:80])

    def resolve(self, name):
        """Module-level meaning of a name: constant, function, class, moduleref."""
        if name in self.values:
            return self.values[name]
        if name in self.functions:
            return self.functions[name]
        if name in self.classes:
            return self.classes[name]
        if name in self.assigns:
            try:
                v = self.fold(self.assigns[name])
            except Unfoldable:
                raise KeyError(name)
            self.values[name] = v
            return v
        if name in self.imports:
            mod, orig = self.imports[name]
            if mod and mod.startswith('tdda'):
                rel = mod.replace('.', '/')
                for cand in (rel + '.py', rel + '/__init__.py'):
                    if os.path.exists(os.path.join(REPO, cand)):
                        m = load_module(cand)
                        if orig is None:
                            return m
                        return m.resolve(orig)
                raise KeyError(name)
            if orig is None:
                return ModuleRef(mod)
            return ModuleRef(mod + '.' + orig)
        raise KeyError(name)

    def function(self, qualname):
        if '.' in qualname:
            c, m = qualname.split('.', 1)
            f = self.classes[c].find_method(m)
            if f is None:
                raise KeyError(qualname)
            return f
        return self.functions[qualname]


def load_module(relpath, abspath=None):
    key = (REPO, relpath)
    if key not in _cache:
        _cache[key] = RepoModule(relpath, abspath)
    return _cache[key]


def clear_cache():
    _cache.clear()


def get_function(ident):
    """ident = 'tdda/constraints/base.py::fuzz_down' or '...::Class.method'"""
    relpath, qual = ident.split('::')
    return load_module(relpath).function(qual)
