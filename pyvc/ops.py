"""
pyvc.ops -- Python operator semantics over mixed concrete/symbolic values.
All functions take the Interp (for forking / facts) as first argument.
"""
import datetime
import z3

from .sym import (SText, SymKeyDict, Sym, SBool, SInt, SReal, SDate, SStr, SOpaque, SList, SSet,
                  SMap, SObj, StrS, slen, str_lt, str_contains, str_cat,
                  Unsupported, is_numeric, num_z, to_real, pyfloat_to_z3)


class PyExc(Exception):
    """An exception raised by the *interpreted* program."""
    def __init__(self, etype, msg='', lineno=None):
        Exception.__init__(self, '%s: %s' % (etype, msg))
        self.etype = etype
        self.msg = msg
        self.lineno = lineno


EXC_PARENTS = {
    'UnboundLocalError': 'NameError', 'NameError': 'Exception',
    'KeyError': 'LookupError', 'IndexError': 'LookupError',
    'LookupError': 'Exception', 'ValueError': 'Exception',
    'TypeError': 'Exception', 'AttributeError': 'Exception',
    'AssertionError': 'Exception', 'ZeroDivisionError': 'ArithmeticError',
    'ArithmeticError': 'Exception', 'OSError': 'Exception',
    'IOError': 'Exception', 'FileNotFoundError': 'OSError',
    'UnicodeDecodeError': 'ValueError', 'UnicodeError': 'ValueError',
    'StopIteration': 'Exception', 'RuntimeError': 'Exception',
    'NotImplementedError': 'RuntimeError',
    'Exception': 'BaseException', 'SystemExit': 'BaseException',
    'KeyboardInterrupt': 'BaseException',
    'InvalidConstraintSpecification': 'Exception',
}


def exc_isa(etype, target):
    while etype is not None:
        if etype == target:
            return True
        etype = EXC_PARENTS.get(etype, 'Exception' if etype not in
                                ('BaseException',) else None)
        if etype == 'BaseException' and target != 'BaseException':
            return False
    return False


def strz(it, v):
    """z3 Str term for a str / SStr."""
    if isinstance(v, SStr):
        return v.z
    if isinstance(v, str):
        return it.strlit(v)
    raise TypeError(v)


def is_strlike(v):
    return isinstance(v, (str, SStr))


def typename(v):
    if isinstance(v, Sym):
        t = v.pytype
        return getattr(t, '__name__', str(t))
    if isinstance(v, SObj):
        return v.cls
    return type(v).__name__


def truth(it, v):
    """python bool or z3 Bool for the truth value of v."""
    if isinstance(v, z3.BoolRef):
        return v
    if isinstance(v, SBool):
        return v.z
    if isinstance(v, SInt):
        return v.z != 0
    if isinstance(v, SReal):
        return v.z != 0
    if isinstance(v, SStr):
        it.fact(slen(v.z) >= 0)
        return slen(v.z) != 0
    if isinstance(v, SList):
        return v.n > 0
    if isinstance(v, SDate):
        return True
    if isinstance(v, SObj):
        t = v.attrs.get('__truth__')
        if t is not None:
            return truth(it, t)
        return True
    if isinstance(v, SSet):
        if v.card is not None:
            return v.card > 0
        # non-emptiness of an abstract set of strings: a Skolem witness for the positive case, a universally
        # quantified fact for the negative one (cached on the set so that repeated tests agree)
        if getattr(v, 'nonempty', None) is None:
            if it.specmode or it.quant_depth:
                raise Unsupported('truth of abstract set in a spec')
            if v.elt is not None and getattr(v.elt, 'tag', None) != 'str':
                raise Unsupported('truth of abstract set of %r' % (v.elt,))
            w = it.fresh_str('member')
            ne = z3.Bool(it.path.fresh_name('nonempty'))
            q = z3.Const(it.path.fresh_name('anystr'), StrS)
            it.path.assume(z3.Implies(ne, zbool(v.has(w))))
            it.path.assume(z3.Implies(z3.Not(ne), z3.ForAll([q], z3.Not(zbool(v.has(SStr(q)))))))
            v.nonempty = ne
        return v.nonempty
    if isinstance(v, (SMap, SOpaque)):
        raise Unsupported('truth of %s' % type(v).__name__)
    return bool(v)


def to_sbool(b):
    return b if isinstance(b, bool) else SBool(b)


def zbool(b):
    return z3.BoolVal(b) if isinstance(b, bool) else b


def wrap_num(z, real):
    return SReal(z) if real else SInt(z)


def simp_val(v):
    """Turn constant symbolic numerals back into Python values."""
    if isinstance(v, (SInt, SBool, SReal)):
        s = z3.simplify(v.z)
        if isinstance(v, SBool):
            if z3.is_true(s):
                return True
            if z3.is_false(s):
                return False
        elif isinstance(v, SInt) and z3.is_int_value(s):
            return s.as_long()
    return v


def binop(it, op, a, b):
    # objects that define the operator themselves (stubs of library types: a mask | a mask)
    for x in (a, b):
        if isinstance(x, SObj) and x.attrs.get('__binop__') is not None:
            return x.attrs['__binop__'](it, op, a, b)
    # concrete fast path
    if not isinstance(a, (Sym, SObj)) and not isinstance(b, (Sym, SObj)):
        if (isinstance(a, (list, tuple)) and any(isinstance(x, (Sym, SObj)) for x in a)
                or isinstance(b, (list, tuple)) and any(isinstance(x, (Sym, SObj)) for x in b)):
            if op == '+' and type(a) is type(b):
                return a + b
            if op == '*' and isinstance(b, int):
                return a * b
        try:
            if op == '+':
                return a + b
            if op == '-':
                return a - b
            if op == '*':
                return a * b
            if op == '/':
                return a / b
            if op == '//':
                return a // b
            if op == '%':
                if isinstance(a, str):
                    items = b if isinstance(b, tuple) else (list(b.values()) if isinstance(b, dict) else [b])
                    if any(isinstance(x, (Sym, SObj)) for x in items):
                        # a symbolic value inside the argument tuple: never format its repr
                        if getattr(it, 'structured_text', False):
                            return SText([('fmt', a, b if isinstance(b, tuple) else (b,))])
                        return it.fresh_str('fmt')
                    try:
                        return a % b
                    except TypeError:
                        if getattr(it, 'structured_text', False):
                            return SText([('fmt', a, b if isinstance(b, tuple) else (b,))])
                        return it.fresh_str('fmt')
                return a % b
            if op == '**':
                return a ** b
            if op == '|':
                return a | b
            if op == '&':
                return a & b
            if op == '^':
                return a ^ b
            if op == '<<':
                return a << b
            if op == '>>':
                return a >> b
        except ZeroDivisionError as e:
            raise PyExc('ZeroDivisionError', str(e))
        except TypeError as e:
            raise PyExc('TypeError', str(e))
        except ValueError as e:
            raise PyExc('ValueError', str(e))
        raise Unsupported('binop %s' % op)
    # structured text (only when the contract under verification asks for it)
    if getattr(it, 'structured_text', False):
        if op == '%' and isinstance(a, str):
            return SText([('fmt', a, b if isinstance(b, tuple) else (b,))])
        if op == '+' and (isinstance(a, SText) or isinstance(b, SText)) and (
                isinstance(a, (str, SStr, SText)) and isinstance(b, (str, SStr, SText))):
            pa = a.parts if isinstance(a, SText) else [a]
            pb = b.parts if isinstance(b, SText) else [b]
            return SText(pa + pb)
    # string formatting / concatenation with symbolic parts -> opaque string
    if op == '%' and is_strlike(a):
        return it.fresh_str('fmt')
    if op == '+' and is_strlike(a) and is_strlike(b):
        r = SStr(str_cat(strz(it, a), strz(it, b)))
        it.fact(slen(r.z) == slen(strz(it, a)) + slen(strz(it, b)))
        from .builtins import path_sepfree
        for x in (a, b):
            if isinstance(x, str) and '/' not in x and '\\' not in x and x not in ('..', '.'):
                it.fact(path_sepfree(strz(it, x)))
        it.fact(z3.Implies(z3.And(path_sepfree(strz(it, a)), path_sepfree(strz(it, b))),
                           path_sepfree(r.z)))
        return r
    if op == '*' and is_strlike(a) and is_numeric(b):
        return it.fresh_str('rep')
    if is_numeric(a) and is_numeric(b):
        za, ra = num_z(a)
        zb, rb = num_z(b)
        real = ra or rb
        if real:
            za, zb = to_real(za), to_real(zb)
        if op == '+':
            return wrap_num(za + zb, real)
        if op == '-':
            return wrap_num(za - zb, real)
        if op == '*':
            return wrap_num(za * zb, real)
        if op == '/':
            if it.branch(zb == 0):
                raise PyExc('ZeroDivisionError', 'division by zero')
            return SReal(to_real(za) / to_real(zb))
        if op in ('//', '%'):
            if real:
                raise Unsupported('real floor division')
            if it.branch(zb == 0):
                raise PyExc('ZeroDivisionError', 'integer division or modulo by zero')
            # Python floor semantics
            q = z3.If(zb > 0, za / zb, (-za) / (-zb))
            if op == '//':
                return SInt(q)
            return SInt(za - zb * q)
        raise Unsupported('numeric binop %s' % op)
    if op == '+' and isinstance(a, SList) and isinstance(b, SList):
        an, ag, bg = a.n, a.get, b.get
        return SList(a.n + b.n,
                     lambda i: it.ite_value(i < an, lambda: ag(i), lambda: bg(i - an)),
                     a.elt, a.kind)
    if op == '+' and isinstance(a, SList) and isinstance(b, (list, tuple)):
        return binop(it, op, a, it.lift_list(b))
    if op == '+' and isinstance(a, (list, tuple)) and isinstance(b, SList):
        return binop(it, op, it.lift_list(a), b)
    if op == '-' and isinstance(a, SDate) and isinstance(b, SDate):
        return it.fresh_opaque('timedelta')
    if op == '-' and (isinstance(a, (SSet, set, frozenset))
                      and isinstance(b, (SSet, set, frozenset))):
        sa, sb = it.lift_set(a), it.lift_set(b)
        return SSet(lambda x: z3.And(zbool(sa.has(x)), z3.Not(zbool(sb.has(x)))),
                    None, sa.elt, sa.forall)
    if op == '|' and (isinstance(a, (SSet, set, frozenset))
                      and isinstance(b, (SSet, set, frozenset))):
        sa, sb = it.lift_set(a), it.lift_set(b)
        return SSet(lambda x: z3.Or(zbool(sa.has(x)), zbool(sb.has(x))),
                    None, sa.elt)
    if a is None or b is None:
        raise PyExc('TypeError', 'unsupported operand type(s) for %s: %s and %s'
                    % (op, typename(a), typename(b)))
    if (is_numeric(a) and (is_strlike(b) or isinstance(b, SDate))
            or is_numeric(b) and (is_strlike(a) or isinstance(a, SDate))):
        if op == '*' and is_strlike(a) or op == '*' and is_strlike(b):
            return it.fresh_str('rep')
        raise PyExc('TypeError', 'unsupported operand type(s) for %s: %s and %s'
                    % (op, typename(a), typename(b)))
    raise Unsupported('binop %s on %s, %s' % (op, typename(a), typename(b)))


def unaryop(it, op, a):
    if isinstance(a, SObj) and op != 'not' and a.attrs.get('__unaryop__') is not None:
        return a.attrs['__unaryop__'](it, op, a)
    if op == 'not':
        t = truth(it, a)
        if isinstance(t, bool):
            return not t
        if it.specmode:
            return SBool(z3.Not(t))
        return not it.branch(t)
    if not isinstance(a, Sym):
        try:
            return {'-': lambda: -a, '+': lambda: +a, '~': lambda: ~a}[op]()
        except TypeError as e:
            raise PyExc('TypeError', str(e))
    if is_numeric(a):
        z, real = num_z(a)
        if op == '-':
            return wrap_num(-z, real)
        if op == '+':
            return wrap_num(z, real)
    raise Unsupported('unary %s on %s' % (op, typename(a)))


def _num_cmp(op, za, zb):
    return {'<': za < zb, '<=': za <= zb, '>': za > zb, '>=': za >= zb,
            '==': za == zb, '!=': za != zb}[op]


def values_equal(it, a, b):
    """python bool or z3 Bool: a == b (never raises)."""
    if a is None or b is None:
        return a is None and b is None
    if is_numeric(a) and is_numeric(b):
        if not isinstance(a, Sym) and not isinstance(b, Sym):
            return a == b
        za, ra = num_z(a)
        zb, rb = num_z(b)
        if ra or rb:
            za, zb = to_real(za), to_real(zb)
        return za == zb
    if is_strlike(a) and is_strlike(b):
        if isinstance(a, str) and isinstance(b, str):
            return a == b
        return strz(it, a) == strz(it, b)
    if isinstance(a, SDate) and isinstance(b, SDate):
        if a.kind != b.kind:
            return False
        return a.z == b.z
    if isinstance(a, SOpaque) and isinstance(b, SOpaque):
        return a.z == b.z
    if isinstance(a, SObj) or isinstance(b, SObj):
        return a is b
    if isinstance(a, (list, tuple)) and isinstance(b, (list, tuple)):
        if type(a) is not type(b) or len(a) != len(b):
            return False
        parts = [values_equal(it, x, y) for x, y in zip(a, b)]
        if any(p is False for p in parts):
            return False
        zs = [p for p in parts if p is not True]
        return z3.And(*zs) if zs else True
    if isinstance(a, SList) or isinstance(b, SList):
        la, lb = it.lift_list(a), it.lift_list(b)
        if not isinstance(la, SList) or not isinstance(lb, SList):
            return False
        if la.kind != lb.kind:
            return False
        i = it.bound_var('eqi')
        ea, eb = la.get(i), lb.get(i)
        e = values_equal(it, ea, eb)
        return z3.And(la.n == lb.n,
                      z3.ForAll([i], z3.Implies(z3.And(i >= 0, i < la.n), zbool(e))))
    if isinstance(a, SSet) and isinstance(b, SSet) and getattr(a, 'exact', False) and getattr(b, 'exact', False):
        # both sets are given by an exact enumeration: mutual inclusion
        return z3.And(a.forall(lambda y: b.has(y)), b.forall(lambda y: a.has(y)))
    if isinstance(a, Sym) or isinstance(b, Sym):
        # different static types
        if (isinstance(a, (SSet, SMap, SOpaque)) or isinstance(b, (SSet, SMap, SOpaque))):
            raise Unsupported('equality on %s/%s' % (typename(a), typename(b)))
        return False
    try:
        return bool(a == b)
    except Exception:
        return False


def _order_facts(it, t):
    """
    str_lt is a strict total order: ground instances of irreflexivity, trichotomy and transitivity over the string
    terms that have been compared on this path (no quantifiers, so refutations come with models).
    """
    if it.quant_depth:
        return
    terms = it.path.__dict__.setdefault('ordered_strings', [])
    key = t.get_id()
    if any(u.get_id() == key for u in terms):
        return
    if len(terms) >= 12:
        return          # beyond this the cubic number of instances is not worth it: fewer facts, never wrong ones
    it.path.assume(z3.Not(str_lt(t, t)))
    for u in terms:
        it.path.assume(z3.Or(str_lt(t, u), str_lt(u, t), t == u))
        it.path.assume(z3.Not(z3.And(str_lt(t, u), str_lt(u, t))))
        it.path.assume(z3.Implies(t == u, z3.And(z3.Not(str_lt(t, u)), z3.Not(str_lt(u, t)))))
    for u in terms:
        for v in terms:
            for x, y, w in ((t, u, v), (u, t, v), (u, v, t)):
                it.path.assume(z3.Implies(z3.And(str_lt(x, y), str_lt(y, w)), str_lt(x, w)))
    terms.append(t)


def compare(it, op, a, b):
    """Result value (python bool or SBool) of `a op b`; may raise PyExc."""
    if op == 'is':
        return _is(it, a, b)
    if op == 'is not':
        r = _is(it, a, b)
        return (not r) if isinstance(r, bool) else SBool(z3.Not(r.z))
    if op == 'in':
        return contains(it, b, a)
    if op == 'not in':
        r = contains(it, b, a)
        return (not r) if isinstance(r, bool) else SBool(z3.Not(r.z))
    if op in ('==', '!='):
        for x in (a, b):
            if isinstance(x, SObj) and x.attrs.get('__cmp__') is not None:
                return x.attrs['__cmp__'](it, op, a, b)
    if op == '==':
        return to_sbool(values_equal(it, a, b))
    if op == '!=':
        r = values_equal(it, a, b)
        return (not r) if isinstance(r, bool) else SBool(z3.Not(r))
    # ordering
    for x in (a, b):
        if isinstance(x, SObj) and x.attrs.get('__cmp__') is not None:
            return x.attrs['__cmp__'](it, op, a, b)
    if not isinstance(a, (Sym, SObj)) and not isinstance(b, (Sym, SObj)):
        try:
            return {'<': lambda: a < b, '<=': lambda: a <= b,
                    '>': lambda: a > b, '>=': lambda: a >= b}[op]()
        except TypeError as e:
            raise PyExc('TypeError', str(e))
    if is_numeric(a) and is_numeric(b):
        za, ra = num_z(a)
        zb, rb = num_z(b)
        if ra or rb:
            za, zb = to_real(za), to_real(zb)
        return SBool(_num_cmp(op, za, zb))
    if is_strlike(a) and is_strlike(b):
        za, zb = strz(it, a), strz(it, b)
        _order_facts(it, za)
        _order_facts(it, zb)
        lt = {'<': str_lt(za, zb), '>': str_lt(zb, za),
              '<=': z3.Or(str_lt(za, zb), za == zb),
              '>=': z3.Or(str_lt(zb, za), za == zb)}[op]
        return SBool(lt)
    if isinstance(a, SDate) and isinstance(b, SDate):
        if a.kind != b.kind:
            raise PyExc('TypeError', "can't compare %s to %s" % (a.kind, b.kind))
        return SBool(_num_cmp(op, a.z, b.z))
    if isinstance(a, (SSet, SMap, SOpaque, SObj)) or isinstance(b, (SSet, SMap, SOpaque, SObj)):
        raise Unsupported('ordering on %s/%s' % (typename(a), typename(b)))
    raise PyExc('TypeError', "'%s' not supported between instances of '%s' and '%s'"
                % (op, typename(a), typename(b)))


def _is(it, a, b):
    if a is b:
        return True
    if a is None or b is None:
        return a is None and b is None
    if isinstance(a, bool) and isinstance(b, bool):
        return a is b
    if isinstance(a, SBool) and isinstance(b, bool):
        return SBool(a.z if b else z3.Not(a.z))
    if isinstance(b, SBool) and isinstance(a, bool):
        return SBool(b.z if a else z3.Not(b.z))
    if isinstance(a, SBool) and isinstance(b, SBool):
        return SBool(a.z == b.z)
    if isinstance(a, type) or isinstance(b, type):
        return a is b
    if isinstance(a, SObj) or isinstance(b, SObj):
        return a is b
    if isinstance(a, Sym) != isinstance(b, Sym):
        # e.g. `value is False` with non-bool value
        if isinstance(a, (bool,)) or isinstance(b, (bool,)):
            return False
    if isinstance(a, Sym) or isinstance(b, Sym):
        if isinstance(a, Sym) and isinstance(b, Sym) and type(a) is not type(b):
            return False
        raise Unsupported('identity on %s/%s' % (typename(a), typename(b)))
    return a is b


def contains(it, container, x):
    """`x in container` -> python bool or SBool."""
    if isinstance(container, (list, tuple, set, frozenset)):
        parts = []
        for y in container:
            e = values_equal(it, x, y)
            if e is True:
                return True
            if e is not False:
                parts.append(e)
        if not parts:
            return False
        return SBool(z3.Or(*parts))
    if isinstance(container, dict):
        return contains(it, list(container.keys()), x)
    if isinstance(container, SymKeyDict):
        return contains(it, [k for k, _ in container.entries], x)
    if isinstance(container, SList):
        i = it.bound_var('ini')
        e = values_equal(it, container.get(i), x)
        return SBool(z3.Exists([i], z3.And(i >= 0, i < container.n, zbool(e))))
    if isinstance(container, SSet):
        return to_sbool(container.has(x))
    if isinstance(container, SMap):
        return to_sbool(container.has(x))
    if is_strlike(container):
        if not is_strlike(x):
            raise PyExc('TypeError', "'in <string>' requires string as left operand")
        if isinstance(container, str) and isinstance(x, str):
            return x in container
        return SBool(str_contains(strz(it, container), strz(it, x)))
    if isinstance(container, SObj) and '__contains__' in container.attrs:
        return container.attrs['__contains__'](x)
    if container is None or is_numeric(container):
        raise PyExc('TypeError', "argument of type '%s' is not iterable" % typename(container))
    raise Unsupported('in on %s' % typename(container))
