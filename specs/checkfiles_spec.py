# Oracle for C15 (binary files) and the artefact bookkeeping of add_failures.
# Primitive: forall_int(lo, hi, pred).


def same_bytes(E, A):
    return len(E) == len(A) and forall_int(0, len(E), lambda j: E[j] == A[j])


def is_first_diff(E, A, off):
    # least index at which the two byte strings differ, or the shorter length
    # when one is a prefix of the other
    m = len(E) if len(E) <= len(A) else len(A)
    return (0 <= off and off <= m
            and forall_int(0, off, lambda j: E[j] == A[j])
            and (off == m or E[off] != A[off]))


def raw_written_ok(create_temporaries, actual, actual_path, expected, expected_path,
                   reconstruction, nwrites):
    # number of files written: one raw temporary per side that has content but
    # no path, plus the post-processed pair when there is a reconstruction
    if not create_temporaries:
        return nwrites == 0
    n = 0
    if expected is not None and not expected_path:
        n = n + 1
    if actual is not None and not actual_path:
        n = n + 1
    if reconstruction is not None:
        n = n + 2
    return nwrites == n
