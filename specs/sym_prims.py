"""
Symbolic implementations of the spec primitives, and the symbolic column view.
"""
import datetime
import os
import z3

from pyvc.sym import (Sym, SBool, SInt, SReal, SDate, SStr, SOpaque, SList,
                      SSet, SObj, StrS, ObjS, slen, T, TD, Unsupported)
from pyvc.ops import truth, zbool, values_equal
from pyvc.interp import Builtin, specfn, SpecFunction
from pyvc import extract

HERE = os.path.dirname(os.path.abspath(__file__))

rex_matches = z3.Function('rex_matches', StrS, StrS, z3.BoolSort())


def load_spec_functions(fname):
    """SpecFunction objects for every def in /verif/specs/<fname>."""
    m = extract.load_module('verif-specs/' + fname, abspath=os.path.join(HERE, fname))
    return {n: SpecFunction(f) for n, f in m.functions.items()}


TTYPES = ('bool', 'int', 'real', 'string', 'date', 'other')


def make_col(it, name='col', ttypes=TTYPES, exists=None, datekind='datetime', nunique=True):
    """
    Symbolic column view.  The tdda type is split eagerly (one path each);
    values are an uninterpreted function of the row index, nulls a predicate.
    Facts assumed about the ghost counts (A-card): 0 <= nn, n0; nn + n0 = N;
    nn > 0 <=> some non-null row; n0 > 0 <=> some null row;
    0 <= nunique <= nn; nunique >= 1 <=> nn >= 1;
    nunique = nn <=> no two non-null rows are equal.
    """
    p = it.path
    k = p.choose([True] * len(ttypes))
    ttype = ttypes[k]
    n = p.fresh_name(name)
    N = z3.Int(n + '.N')
    nn = z3.Int(n + '.nn')
    n0 = z3.Int(n + '.n0')
    nu = z3.Int(n + '.nunique')
    null = z3.Function(n + '.null', z3.IntSort(), z3.BoolSort())
    sort = {'bool': z3.BoolSort(), 'int': z3.IntSort(), 'real': z3.RealSort(),
            'string': StrS, 'date': z3.IntSort(), 'other': ObjS}[ttype]
    val = z3.Function(n + '.val', z3.IntSort(), sort)
    wrap = {'bool': SBool, 'int': SInt, 'real': SReal, 'string': SStr,
            'date': lambda z: SDate(z, datekind),
            'other': lambda z: SOpaque(z, 'cell')}[ttype]
    ex = z3.Bool(n + '.exists') if exists is None else exists
    i, j = z3.Int(n + '!i'), z3.Int(n + '!j')
    inr = lambda q: z3.And(q >= 0, q < N)
    p.assume(z3.And(N >= 0, nn >= 0, n0 >= 0, nn + n0 == N, nu >= 0, nu <= nn))
    # counts vs rows, Skolemised so that quantifiers occur only positively
    wn, w0 = z3.Int(n + '!wnn'), z3.Int(n + '!wnull')
    p.assume(z3.Implies(nn > 0, z3.And(inr(wn), z3.Not(null(wn)))))
    p.assume(z3.Implies(nn == 0, z3.ForAll([i], z3.Implies(inr(i), null(i)))))
    p.assume(z3.Implies(n0 > 0, z3.And(inr(w0), null(w0))))
    p.assume(z3.Implies(n0 == 0, z3.ForAll([i], z3.Implies(inr(i), z3.Not(null(i))))))
    p.assume((nu >= 1) == (nn >= 1))
    D = z3.Bool(n + '.distinct')
    d1, d2 = z3.Int(n + '!dup1'), z3.Int(n + '!dup2')
    distinct = D
    if nunique:
        p.assume(z3.Implies(D, z3.ForAll([i, j], z3.Implies(
            z3.And(inr(i), inr(j), i != j, z3.Not(null(i)), z3.Not(null(j))),
            val(i) != val(j)))))
        p.assume(z3.Implies(z3.Not(D), z3.And(inr(d1), inr(d2), d1 != d2, z3.Not(null(d1)),
                                              z3.Not(null(d2)), val(d1) == val(d2))))
        p.assume((nu == nn) == D)
    if ttype == 'string':
        p.assume(z3.ForAll([i], slen(val(i)) >= 0))
    col = SObj('Col', {
        'exists': SBool(ex) if not isinstance(ex, bool) else ex,
        'ttype': ttype, 'N': SInt(N), 'nn': SInt(nn), 'n0': SInt(n0),
        'nunique': SInt(nu),
    }, label=n)
    col.z = dict(N=N, nn=nn, n0=n0, nu=nu, null=null, val=val, wrap=wrap,
                 distinct=distinct, name=n)
    return col


def _quant(it, col, pred, universal):
    z = col.z
    i = it.bound_var(z['name'] + '!q')
    x = z['wrap'](z['val'](i))
    old = it.quant_depth
    it.quant_depth += 1
    sm, it.specmode = it.specmode, True
    try:
        body = truth(it, it.call(pred, [x], {}))
    finally:
        it.quant_depth = old
        it.specmode = sm
    guard = z3.And(i >= 0, i < z['N'], z3.Not(z['null'](i)))
    if universal:
        return SBool(z3.ForAll([i], z3.Implies(guard, zbool(body))))
    return SBool(z3.Exists([i], z3.And(guard, zbool(body))))


@specfn
def forall_nn(it, col, pred):
    return _quant(it, col, pred, True)


@specfn
def exists_nn(it, col, pred):
    return _quant(it, col, pred, False)


@specfn
def distinct_nn(it, col):
    return SBool(col.z['distinct'])


@specfn
def whole(it, x):
    if isinstance(x, SReal):
        return SBool(z3.IsInt(x.z))
    if isinstance(x, (SInt, SBool, int, bool)):
        return True
    if isinstance(x, float):
        return x.is_integer()
    return False


@specfn
def rex_match(it, rexes, x):
    if not isinstance(x, (SStr, str)):
        return False
    from pyvc.ops import strz
    xz = strz(it, x)
    if isinstance(rexes, SList):
        j = it.bound_var('rx')
        r = rexes.get(j)
        return SBool(z3.Exists([j], z3.And(j >= 0, j < rexes.n,
                                           rex_matches(strz(it, r), xz))))
    parts = [rex_matches(strz(it, r), xz) for r in rexes]
    return SBool(z3.Or(*parts)) if parts else False


@specfn
def members_are_values(it, lst, col):
    """every element of the list is a non-null value of the column"""
    from pyvc.ops import values_equal as veq
    z = col.z
    lst = it.lift_list(lst)
    k, i = it.bound_var('mk'), it.bound_var('mi')
    return SBool(z3.ForAll([k], z3.Implies(
        z3.And(k >= 0, k < lst.n),
        z3.Exists([i], z3.And(i >= 0, i < z['N'], z3.Not(z['null'](i)),
                              zbool(veq(it, lst.get(k), z['wrap'](z['val'](i)))))))))


@specfn
def forall_int(it, lo, hi, pred):
    """forall j. lo <= j < hi -> pred(j)"""
    from pyvc.sym import num_z
    j = it.bound_var('fj')
    old = it.quant_depth
    it.quant_depth += 1
    sm, it.specmode = it.specmode, True
    try:
        body = truth(it, it.call(pred, [SInt(j)], {}))
    finally:
        it.quant_depth = old
        it.specmode = sm
    zl, zh = num_z(lo)[0], num_z(hi)[0]
    return SBool(z3.ForAll([j], z3.Implies(z3.And(j >= zl, j < zh), zbool(body))))


def _static(v):
    return v.pytype if isinstance(v, Sym) else type(v)


@specfn
def is_datev(it, v):
    return _static(v) in (datetime.datetime, datetime.date)


@specfn
def is_numv(it, v):
    return _static(v) in (bool, int, float)


@specfn
def is_strv(it, v):
    return _static(v) is str


@specfn
def is_boolv(it, v):
    return _static(v) is bool


@specfn
def implies(it, a, b):
    ta, tb = truth(it, a), truth(it, b)
    if ta is False or tb is True:
        return True
    if ta is True:
        return tb if isinstance(tb, bool) else SBool(tb)
    return SBool(z3.Implies(zbool(ta), zbool(tb)))


@specfn
def iff(it, a, b):
    ta, tb = truth(it, a), truth(it, b)
    if isinstance(ta, bool) and isinstance(tb, bool):
        return ta == tb
    return SBool(zbool(ta) == zbool(tb))


@specfn
def called(it, name):
    """Number of calls to contract-callee `name` on this path (ghost trace)."""
    return sum(1 for n, _, _ in it.path.trace if n.split('.')[-1] == name)


@specfn
def call_args(it, name, k=0):
    c = [env for n, env, _ in it.path.trace if n.split('.')[-1] == name]
    return c[k] if k < len(c) else None


@specfn
def hook_args_ok(it, name, **expected):
    """Every recorded call of hook `name` was made with exactly these argument objects."""
    from pyvc.ops import values_equal as veq
    zs = []
    for n, env, _ in it.path.trace:
        if n.split('.')[-1] != name:
            continue
        for k, v in expected.items():
            a = env.get(k, Ellipsis)
            if a is Ellipsis:
                return False
            if a is v:
                continue
            e = veq(it, a, v)
            if e is False:
                return False
            if e is not True:
                zs.append(e)
    return SBool(z3.And(*zs)) if zs else True


PRIMS = {
    'forall_nn': forall_nn, 'exists_nn': exists_nn, 'distinct_nn': distinct_nn,
    'whole': whole, 'rex_match': rex_match, 'is_datev': is_datev,
    'is_numv': is_numv, 'is_strv': is_strv, 'is_boolv': is_boolv,
    'implies': implies, 'iff': iff, 'called': called, 'call_args': call_args,
    'hook_args_ok': hook_args_ok, 'forall_int': forall_int, 'members_are_values': members_are_values,
    'datetime': extract.ModuleRef('datetime'),
}


def constraints_spec_env():
    env = dict(PRIMS)
    env.update(load_spec_functions('constraints_spec.py'))
    return env
