# The oracle for C01 / C02 / C06 / C07 / C08: the documented meaning of each
# constraint kind, stated over a column view `col`:
#
#   col.exists  the field is present in the data
#   col.ttype   'bool' | 'int' | 'real' | 'string' | 'date' | 'other'
#   col.N       number of records;  col.nn / col.n0  non-null / null counts
#   col.nunique number of distinct non-null values
#
# and the primitives (two implementations: specs/sym_prims.py builds SMT terms,
# specs/native_prims.py evaluates on concrete columns):
#
#   forall_nn(col, p)   every non-null value x of the column satisfies p(x)
#   exists_nn(col, p)   some non-null value does
#   distinct_nn(col)    no two non-null records hold equal values
#   whole(x)            the real number x is a whole number
#   rex_match(rexes, x) x is matched in full by one of the expressions
#   is_datev/is_numv/is_strv(v)  static type tests on a constraint value
#
# This file is *interpreted* by pyvc in spec mode and *executed* natively by
# the bounded layer and by replay: one text, two checkers.
#
# Sources: tdda/constraints/tdda_json_file_format.md, the verify_df docstring,
# and the statements of C02 / C07.  Clauses the documents are silent on are
# marked (code) and are reported as UNDECIDED-spec, never as violations.


def coarse_of_ttype(t):
    if t in ('bool', 'int', 'real'):
        return 'number'
    return t


def coarse_of_value(v):
    if is_numv(v):
        return 'number'
    if is_datev(v):
        return 'date'
    if is_strv(v):
        return 'string'
    return 'other'


def eff_precision(p):
    # "fuzzy" is the default precision
    if p is None:
        return 'fuzzy'
    return p


def spec_min(col, value, precision, eps):
    if not col.exists:
        return False                       # missing field: failed (doc)
    if value is None:
        return True                        # null-valued constraint (doc)
    if col.nn == 0:
        return True                        # no values: nothing can violate
    if coarse_of_ttype(col.ttype) != coarse_of_value(value):
        return False                       # (code)
    if precision == 'closed' or is_datev(value):
        return forall_nn(col, lambda x: x >= value)
    if precision == 'open':
        return forall_nn(col, lambda x: x > value)
    return forall_nn(col, lambda x: x >= value - eps * abs(value))


def spec_max(col, value, precision, eps):
    if not col.exists:
        return False
    if value is None:
        return True
    if col.nn == 0:
        return True
    if coarse_of_ttype(col.ttype) != coarse_of_value(value):
        return False                       # (code)
    if precision == 'closed' or is_datev(value):
        return forall_nn(col, lambda x: x <= value)
    if precision == 'open':
        return forall_nn(col, lambda x: x < value)
    return forall_nn(col, lambda x: x <= value + eps * abs(value))


def spec_min_length(col, value):
    if not col.exists:
        return False
    if value is None:
        return True
    if col.ttype != 'string':
        return False                       # (code)
    return forall_nn(col, lambda x: len(x) >= value)


def spec_max_length(col, value):
    if not col.exists:
        return False
    if value is None:
        return True
    if col.ttype != 'string':
        return False                       # (code)
    return forall_nn(col, lambda x: len(x) <= value)


def allowed_list(value):
    if isinstance(value, (list, tuple)):
        return value
    return [value]


def spec_type(col, value, type_checking):
    if not col.exists:
        return False
    allowed = allowed_list(value)
    if len(allowed) == 1 and allowed[0] is None:
        return True
    if col.ttype in allowed:
        return True
    if type_checking == 'strict':
        return False
    if 'int' in allowed and col.ttype == 'real':
        return forall_nn(col, lambda x: whole(x))
    if 'bool' in allowed and col.ttype == 'real':
        return forall_nn(col, lambda x: whole(x))          # (code)
    if 'bool' in allowed and col.ttype == 'string':
        return forall_nn(col, lambda x: is_boolv(x))
    return False


def spec_sign(col, value):
    if not col.exists:
        return False
    if value is None:
        return True
    if col.nn == 0:
        return True
    if coarse_of_ttype(col.ttype) != 'number':
        return False                       # (code)
    if value == 'null':
        return False
    if value == 'positive':
        return forall_nn(col, lambda x: x > 0)
    if value == 'non-negative':
        return forall_nn(col, lambda x: x >= 0)
    if value == 'zero':
        return forall_nn(col, lambda x: x == 0)
    if value == 'non-positive':
        return forall_nn(col, lambda x: x <= 0)
    if value == 'negative':
        return forall_nn(col, lambda x: x < 0)
    return False


def spec_max_nulls(col, value):
    if not col.exists:
        return False
    if value is None:
        return True
    return col.n0 <= value


def spec_no_duplicates(col, value):
    if not col.exists:
        return False
    if value is None or value is False:
        return True
    return distinct_nn(col)


def spec_allowed_values(col, value):
    if not col.exists:
        return False
    if value is None:
        return True
    return forall_nn(col, lambda x: x in value)


def spec_rex(col, value):
    if not col.exists:
        return False
    if col.ttype != 'string':
        return False
    if value is None:
        return True
    return forall_nn(col, lambda x: rex_match(value, x))


# ---------------------------------------------------------------------------
# discovery (C07): the strongest sign class all values share
# ---------------------------------------------------------------------------

def strongest_sign(m, M):
    # m, M: attained minimum and maximum of a non-empty numeric column
    if m == 0 and M == 0:
        return 'zero'
    if m > 0:
        return 'positive'
    if m >= 0:
        return 'non-negative'
    if M < 0:
        return 'negative'
    if M <= 0:
        return 'non-positive'
    return 'mixed'


# ---------------------------------------------------------------------------
# discovery (C07): the record discover_field_constraints must return
# ---------------------------------------------------------------------------
# K is the mapping kind -> constraint of the returned FieldConstraints.
# Each clause is one sentence of C07.

def is_numeric_ttype(t):
    return t in ('bool', 'int', 'real')


def disc_type(col, K):
    return 'type' in K and K['type'].value == col.ttype


def disc_max_nulls(col, K):
    # the null count when that is 0 or 1, otherwise absent; nothing for no data
    if col.N > 0 and col.n0 < 2:
        return 'max_nulls' in K and K['max_nulls'].value == col.n0
    return 'max_nulls' not in K


def disc_min(col, K):
    # the smallest non-null value (non-string fields), attained
    if col.ttype != 'string' and col.nn > 0:
        return ('min' in K and forall_nn(col, lambda x: x >= K['min'].value)
                and exists_nn(col, lambda x: x == K['min'].value)
                and K['min'].precision is None)
    return 'min' not in K


def disc_max(col, K):
    if col.ttype != 'string' and col.nn > 0:
        return ('max' in K and forall_nn(col, lambda x: x <= K['max'].value)
                and exists_nn(col, lambda x: x == K['max'].value)
                and K['max'].precision is None)
    return 'max' not in K


def disc_min_length(col, K):
    if col.ttype == 'string' and col.nn > 0:
        return ('min_length' in K
                and forall_nn(col, lambda x: len(x) >= K['min_length'].value)
                and exists_nn(col, lambda x: len(x) == K['min_length'].value))
    return 'min_length' not in K


def disc_max_length(col, K):
    if col.ttype == 'string' and col.nn > 0:
        return ('max_length' in K
                and forall_nn(col, lambda x: len(x) <= K['max_length'].value)
                and exists_nn(col, lambda x: len(x) == K['max_length'].value))
    return 'max_length' not in K


def disc_sign(col, K):
    # the strongest sign class all values share (numeric fields with data)
    if is_numeric_ttype(col.ttype) and col.nn > 0:
        if 'min' not in K or 'max' not in K:
            return False
        s = strongest_sign(K['min'].value, K['max'].value)
        if s == 'mixed':
            return 'sign' not in K
        return 'sign' in K and K['sign'].value == s
    return 'sign' not in K


def disc_no_duplicates(col, K):
    # present exactly when a non-real field has more than one non-null value
    # and all are distinct
    if col.ttype != 'real' and col.nn > 1 and distinct_nn(col):
        return 'no_duplicates' in K and K['no_duplicates'].value is True
    return 'no_duplicates' not in K


def disc_allowed_values(col, K, max_categories):
    # exactly the set of distinct non-null strings when there are at most twenty
    if col.ttype == 'string' and col.nunique >= 1 and col.nunique <= max_categories:
        return ('allowed_values' in K
                and forall_nn(col, lambda x: x in K['allowed_values'].value)
                and members_are_values(K['allowed_values'].value, col)
                and len(K['allowed_values'].value) == col.nunique)
    return 'allowed_values' not in K


def disc_rex(col, K, inc_rex):
    if col.ttype == 'string' and inc_rex:
        return 'rex' in K and forall_nn(col, lambda x: rex_match(K['rex'].value, x))
    return 'rex' not in K
