# Oracle for C10: when is a reference of a given kind regenerated?
# T is the regeneration table (kind -> bool; the None key means all kinds):
# "all kinds for write-all, otherwise exactly the named kinds".
# Primitives: t_has(T, k), t_val(T, k).


def should_regen(T, kind):
    if t_has(T, kind):
        return t_val(T, kind)
    if t_has(T, None):
        return t_val(T, None)
    return False
