"""
Native implementations of the spec primitives over a concrete column view,
and the loader that executes /verif/specs/*.py natively with them.
"""
import datetime
import fractions
import math
import os
import re

HERE = os.path.dirname(os.path.abspath(__file__))
RE_FLAGS = re.UNICODE | re.DOTALL


class NCol(object):
    """Concrete column view: values (Python scalars, None for null)."""
    def __init__(self, exists, ttype, values):
        self.exists = exists
        self.ttype = ttype
        self.values = list(values)
        self.N = len(self.values)
        self.nonnull = [v for v in self.values if v is not None]
        self.nn = len(self.nonnull)
        self.n0 = self.N - self.nn
        try:
            self.nunique = len(set(self.nonnull))
        except TypeError:
            self.nunique = len(self.nonnull)

    def __repr__(self):
        return 'NCol(%r, %r, %r)' % (self.exists, self.ttype, self.values)


def forall_nn(col, p):
    return all(p(x) for x in col.nonnull)


def exists_nn(col, p):
    return any(p(x) for x in col.nonnull)


def distinct_nn(col):
    return col.nunique == col.nn


def whole(x):
    if isinstance(x, float):
        return x.is_integer() if math.isfinite(x) else False
    if isinstance(x, fractions.Fraction):
        return x.denominator == 1
    return True


def rex_match(rexes, x):
    # the meaning tdda gives a rex constraint: re.match under UNICODE | DOTALL
    if not isinstance(x, str):
        return False
    return any(re.match(re.compile(r, RE_FLAGS), x) is not None for r in rexes)


def members_are_values(lst, col):
    return all(any(x == y and type(x) is type(y) for y in col.nonnull) for x in lst)


def forall_int(lo, hi, pred):
    return all(pred(j) for j in range(lo, hi))


def is_datev(v):
    return isinstance(v, (datetime.datetime, datetime.date))


def is_numv(v):
    return isinstance(v, (bool, int, float, fractions.Fraction)) and not is_datev(v)


def is_strv(v):
    return isinstance(v, str)


def is_boolv(v):
    return isinstance(v, bool)


def implies(a, b):
    return (not a) or bool(b)


def iff(a, b):
    return bool(a) == bool(b)


NATIVE_PRIMS = dict(forall_nn=forall_nn, exists_nn=exists_nn, distinct_nn=distinct_nn,
                    whole=whole, rex_match=rex_match, is_datev=is_datev,
                    is_numv=is_numv, forall_int=forall_int, members_are_values=members_are_values, is_strv=is_strv, is_boolv=is_boolv,
                    implies=implies, iff=iff, datetime=datetime)

_loaded = {}


def load_native_spec(fname):
    """Execute a spec file natively; returns its namespace."""
    if fname not in _loaded:
        ns = dict(NATIVE_PRIMS)
        with open(os.path.join(HERE, fname)) as f:
            exec(compile(f.read(), fname, 'exec'), ns)
        _loaded[fname] = ns
    return _loaded[fname]


def t_has(T, k):
    return k in T


def t_val(T, k):
    return bool(T[k])


NATIVE_PRIMS.update(t_has=t_has, t_val=t_val)
