"""
Native replay of deductive counter-models of the constraint verifiers and the
discoverer: the rows, constraint and options of the z3 model are turned into
a real pandas frame and a real constraint object, the real tdda code is run
on them, and its answer is compared with the documented meaning evaluated
natively (specs/constraints_spec.py).  Outcomes:

  confirmed       the real code disagrees with the documented meaning on this
                  concrete input (the replay file then carries the input)
  not-reproduced  the real code agrees on the concretised input (floats
                  rounded from the model's rationals, synthesised strings, an
                  assumed calculator contract that does not hold, ...): the
                  violation stays reported with `no-failing-input-found`
  unavailable     the model cannot be concretised (opaque cells, expressions)
"""
import datetime
import fractions
import re
import traceback

BASE_DT = datetime.datetime(2001, 1, 1)


class Unavailable(Exception):
    pass


def _num(v):
    if isinstance(v, dict) and 'fraction' in v:
        n, d = v['fraction']
        return fractions.Fraction(n, d)
    return v


class _Strings(object):
    """Distinct model identities become distinct strings of the model's lengths."""
    def __init__(self):
        self.by_id = {}

    def get(self, ident, length=None):
        if ident in self.by_id:
            return self.by_id[ident]
        k = len(self.by_id)
        if length is None:
            length = 3
        if length < 0:
            raise Unavailable('negative string length in the model')
        digits = []
        x = k
        while True:
            digits.append('abcdefghijklmnopqrstuvwxyz'[x % 26])
            x //= 26
            if not x:
                break
        s = ''.join(digits)
        if len(s) > length:
            if length == 0 and k == 0:
                s = ''
            else:
                raise Unavailable('model has %d distinct strings of length %d' % (k + 1, length))
        s = s + 'z' * (length - len(s))
        if s in self.by_id.values():
            raise Unavailable('cannot synthesise distinct strings of length %d' % length)
        self.by_id[ident] = s
        return s


def concretise(cell, ttype, strings):
    """model cell -> (python value for the frame, exact value for the spec)"""
    if cell is None:
        return None, None
    if ttype == 'bool':
        return bool(cell), bool(cell)
    if ttype == 'int':
        if isinstance(cell, bool) or not isinstance(cell, int):
            raise Unavailable('int cell %r' % (cell,))
        if abs(cell) >= 2 ** 63:
            raise Unavailable('integer outside int64')
        return cell, cell
    if ttype == 'real':
        q = _num(cell)
        f = float(q)
        return f, fractions.Fraction(f)
    if ttype == 'date':
        if isinstance(cell, (list, tuple)) and str(cell[0]).startswith('date:'):
            k = cell[1]
            if abs(k) > 10 ** 9:
                raise Unavailable('date offset out of range')
            d = BASE_DT + datetime.timedelta(seconds=k)
            return d, d
        raise Unavailable('date cell %r' % (cell,))
    if ttype == 'string':
        if isinstance(cell, (list, tuple)) and cell[0] == 'str':
            s = strings.get(cell[1], cell[2] if len(cell) > 2 else None)
            return s, s
        raise Unavailable('string cell %r' % (cell,))
    raise Unavailable('cells of tdda type %r' % ttype)


def bound_value(v, strings):
    """constraint value of the model -> (python value for the constraint object, exact value for the spec)"""
    if v is None or isinstance(v, (bool, int)):
        return v, v
    if isinstance(v, dict) and 'fraction' in v:
        f = float(_num(v))
        return f, fractions.Fraction(f)
    if isinstance(v, (list, tuple)) and v and str(v[0]).startswith('date:'):
        d = BASE_DT + datetime.timedelta(seconds=v[1])
        if v[0] == 'date:date':
            d = d.date()
        return d, d
    if isinstance(v, (list, tuple)) and v and v[0] == 'str':
        s = strings.get(v[1], v[2] if len(v) > 2 else None)
        return s, s
    if isinstance(v, str):
        return v, v
    if isinstance(v, list):
        out = [bound_value(x, strings) for x in v]
        return [a for a, _ in out], [b for _, b in out]
    raise Unavailable('constraint value %r' % (v,))


def candidate_rows(w, col):
    """
    Row lists to try: the rows of the model when it is small; otherwise small columns built from what the
    calculator calls of the counter-model returned (minimum, maximum, lengths, unique values, null count) --
    a counterexample-guided search for a concrete input, each candidate being run on the real code.
    """
    rows = col.get('rows')
    if isinstance(rows, list):
        return [rows]
    res = {}
    for c in w.get('calls', []):
        name = c.get('callee', '').split('.')[-1]
        res.setdefault(name, c.get('result'))
    ttype = col.get('ttype')
    base = []
    if ttype in ('int', 'real', 'bool', 'date'):
        for k in ('calc_min', 'calc_max'):
            if k in res and res[k] is not None:
                base.append(res[k])
        if len(base) == 2 and base[0] == base[1]:
            base = base[:1]
    elif ttype == 'string':
        uv = res.get('calc_unique_values')
        if isinstance(uv, list) and uv and len(uv) <= 8:
            base = list(uv)
        else:
            for i, k in enumerate(('calc_min_length', 'calc_max_length')):
                if isinstance(res.get(k), int):
                    base.append(['str', 'synth%d' % i, res[k]])
    if not base and not res.get('calc_null_count'):
        raise Unavailable('model too large (N=%r) and no calculator results to build a small column from' % col.get('N'))
    out = [list(base), list(base) + [None], list(base) + list(base[:1]), list(base) + list(base[:1]) + [None], [None]]
    return [r for r in out if r]


def build_column(col, strings, rows=None):
    from bounded import frames as F
    if rows is None:
        rows = col.get('rows')
    if not isinstance(rows, list):
        raise Unavailable('no rows in the counter-model (%r)' % (rows,))
    ttype = col.get('ttype')
    pairs = [concretise(c, ttype, strings) for c in rows]
    values = [a for a, _ in pairs]
    exacts = [b for _, b in pairs]
    has_null = any(v is None for v in values)
    family = {'int': 'Int64' if has_null else 'int64', 'real': 'float64',
              'bool': 'boolean' if has_null else 'bool', 'string': 'object-str',
              'date': 'datetime64[ns]'}.get(ttype)
    if family is None:
        raise Unavailable('no pandas column for tdda type %r' % ttype)
    df = F.make_frame(family, tuple(values))
    return family, values, exacts, df


KIND_METHOD = {'min': 'verify_min_constraint', 'max': 'verify_max_constraint',
               'min_length': 'verify_min_length_constraint', 'max_length': 'verify_max_length_constraint',
               'type': 'verify_tdda_type_constraint', 'sign': 'verify_sign_constraint',
               'max_nulls': 'verify_max_nulls_constraint', 'no_duplicates': 'verify_no_duplicates_constraint',
               'allowed_values': 'verify_allowed_values_constraint'}
KIND_CLASS = {'min': 'MinConstraint', 'max': 'MaxConstraint', 'min_length': 'MinLengthConstraint',
              'max_length': 'MaxLengthConstraint', 'type': 'TypeConstraint', 'sign': 'SignConstraint',
              'max_nulls': 'MaxNullsConstraint', 'no_duplicates': 'NoDuplicatesConstraint',
              'allowed_values': 'AllowedValuesConstraint'}


def replay_verify(f):
    try:
        return _replay_verify(f)
    except Unavailable as u:
        return {'outcome': 'unavailable', 'note': 'counter-model cannot be turned into a pandas frame: %s' % u}
    except Exception:
        return {'outcome': 'unavailable', 'note': 'replay harness error: ' + traceback.format_exc()[-500:]}


def _replay_verify(f):
    from bounded import constraints_bounded as cb
    from specs.native_prims import NCol
    SPEC = cb.SPEC
    pc, base = cb._tdda()
    w = f.witness
    inp = w['inputs']
    slf = inp['self']
    col = slf['col']
    con = inp['constraint']
    kind = con.get('kind')
    if kind not in KIND_METHOD:
        raise Unavailable('constraint kind %r' % kind)
    if not col.get('exists'):
        raise Unavailable('model with a missing column (nothing to compute)')
    last = None
    for rows in candidate_rows(w, col):
        try:
            r = _verify_once(f, w, col, con, kind, slf, rows, cb, NCol, SPEC, pc, base)
        except Unavailable as u:
            last = {'outcome': 'unavailable', 'note': str(u)}
            continue
        if r['outcome'] == 'confirmed':
            return r
        last = r
    return last


def _verify_once(f, w, col, con, kind, slf, rows, cb, NCol, SPEC, pc, base):
    strings = _Strings()
    family, values, exacts, df = build_column(col, strings, rows)
    value, xvalue = bound_value(con.get('value'), strings)
    precision = con.get('precision')
    eps, xeps = bound_value(slf.get('epsilon'), strings)
    tc = slf.get('type_checking') or 'strict'
    cls = getattr(base, KIND_CLASS[kind])
    cobj = cls(value, precision=precision) if kind in ('min', 'max') else cls(value)
    ver = pc.PandasConstraintVerifier(df, epsilon=eps, type_checking=tc)
    try:
        with cb.quiet():
            got = getattr(ver, KIND_METHOD[kind])('c', cobj)
        got_desc = bool(got)
    except Exception as e:
        got, got_desc = None, 'raised %s: %s' % (type(e).__name__, e)
    ncol = NCol(True, col['ttype'], exacts)
    if kind in ('min', 'max'):
        want = SPEC['spec_' + kind](ncol, xvalue, SPEC['eff_precision'](precision),
                                    fractions.Fraction(xeps) if xeps is not None else 0)
    elif kind == 'type':
        want = SPEC['spec_type'](ncol, xvalue, tc)
    else:
        want = SPEC['spec_' + kind](ncol, xvalue)
    concrete = {'column dtype': family, 'values': [repr(v) for v in values],
                'constraint': {kind: repr(value), 'precision': precision}, 'epsilon': repr(eps), 'type_checking': tc,
                'verifier': got_desc, 'documented meaning': bool(want)}
    if isinstance(got_desc, str) or bool(got) != bool(want):
        return {'outcome': 'confirmed', 'note': 'concrete run of the real pandas verifier on the counter-model',
                'concrete_input': concrete}
    return {'outcome': 'not-reproduced',
            'note': 'the real pandas verifier agrees with the documented meaning on the concretised counter-model '
                    '(rationals rounded to floats / synthesised strings / calculator contract)', 'concrete_input': concrete}


def replay_discover(f):
    try:
        return _replay_discover(f)
    except Unavailable as u:
        return {'outcome': 'unavailable', 'note': 'counter-model cannot be turned into a pandas frame: %s' % u}
    except Exception:
        return {'outcome': 'unavailable', 'note': 'replay harness error: ' + traceback.format_exc()[-500:]}


def _replay_discover(f):
    from bounded import constraints_bounded as cb
    m = re.search(r'discover_field_constraints\.post\.(\w+)$', f.name)
    clause = m.group(1) if m else None
    w = f.witness
    col = w['inputs']['self']['col'] if 'col' in w['inputs'].get('self', {}) else None
    if col is None:
        raise Unavailable('no column in the model')
    last = None
    for rows in candidate_rows(w, col):
        strings = _Strings()
        try:
            family, values, exacts, df = build_column(col, strings, rows)
        except Unavailable as u:
            last = {'outcome': 'unavailable', 'note': str(u)}
            continue
        out = cb._work((family, [tuple(values)], ('C07',), {}))
        fails = [x for x in out[3] if x[0].startswith('C07.discover.')]
        mine = [x for x in fails if clause and x[0] == 'C07.discover.' + clause]
        concrete = {'column dtype': family, 'values': [repr(v) for v in values]}
        if mine:
            return {'outcome': 'confirmed', 'note': 'discover_df on a column built from the counter-model: ' + mine[0][2][:300],
                    'concrete_input': concrete, 'failed_clause': mine[0][0]}
        last = {'outcome': 'not-reproduced',
                'note': 'discover_df reports the exact statistics on the columns built from the counter-model',
                'concrete_input': concrete}
    return last


REPLAYERS = [(r'verify_\w+_constraint\.post\.doc$', replay_verify),
             (r'discover_field_constraints\.post\.\w+$', replay_discover)]


# ---------------------------------------------------------------------------
# detect_*_constraint: a refuted record-level contract is replayed by running the real detect_df on small frames of
# the column types the kind applies (and does not apply) to, judged by the driver's record-level oracle
# ---------------------------------------------------------------------------

_DETECT_FRAMES = [('int64', (1, -2, 0, 7)), ('Int64', (1, None, 3, 3)), ('float64', (0.5, None, -2.0)),
                  ('object-str', ('a', None, 'ab', 'a')), ('object-str', ('', 'é£')), ('bool', (True, False)),
                  ('datetime64[ns]', None)]
_DETECT_CHECKS = {'min': ('C06.record-flag.min',), 'max': ('C06.record-flag.max',), 'sign': ('C06.record-flag.sign',),
                  'min_length': ('C06.record-flag.min_length',), 'max_length': ('C06.record-flag.max_length',),
                  'tdda_type': ('C06.record-flag.type',), 'max_nulls': ('C06.record-flag.max_nulls',),
                  'no_duplicates': ('C06.record-flag.no_duplicates',),
                  'allowed_values': ('C06.record-flag.allowed_values',), 'rex': ('C06.record-flag.rex',)}
_DETECT_ALWAYS = ('C06.flag-column-present', 'C06.failing-constraint-flags-some-record', 'C06.n_failures-equals-false-flags',
                  'C06.detect_df.noraise')


def replay_detect(f):
    try:
        from bounded import constraints_bounded as cb, frames as F
        m = re.search(r'(?:detect_(\w+)_constraint|df_fuzzy_(gt|lt))\.post\.', f.name)
        if not m:
            return {'outcome': 'unavailable', 'note': 'not a detector obligation'}
        kind = m.group(1) or {'gt': 'min', 'lt': 'max'}[m.group(2)]
        wanted = _DETECT_CHECKS.get(kind, ()) + _DETECT_ALWAYS
        tried = []
        for family, values in _DETECT_FRAMES:
            if values is None:
                pool = F.POOLS.get(family)
                if not pool:
                    continue
                values = tuple(pool[:2]) + (None,)
            tried.append((family, [repr(v) for v in values]))
            out = cb._work((family, [tuple(values)], ('C06',), {}))
            for name, w, detail in [(x[0], x[1], x[2]) for x in out[3]]:
                if name in wanted and (kind in ('tdda_type',) or w.get('kind', kind.replace('tdda_type', 'type')) in (kind, None)
                                       or name in _DETECT_ALWAYS):
                    return {'outcome': 'confirmed',
                            'note': 'detect_df on a small real frame disagrees with the record-level meaning: %s' % detail[:300],
                            'concrete_input': {'column dtype': family, 'values': [repr(v) for v in values],
                                               'constraints': w.get('constraints'), 'failed_check': name}}
        return {'outcome': 'not-reproduced',
                'note': 'detect_df agrees with the record-level meaning on %d small real frames (the counter-model is over '
                        'the stubbed pandas operations; no concrete frame shows the difference)' % len(tried),
                'frames_tried': tried}
    except Exception:
        return {'outcome': 'unavailable', 'note': 'replay harness error: ' + traceback.format_exc()[-500:]}


REPLAYERS.append((r'(detect_\w+_constraint|df_fuzzy_(gt|lt))\.post\.', replay_detect))
