"""./check <Cxx> [--tier quick|thorough]   |   ./check replay <file>"""
import argparse
import importlib
import json
import os
import sys
import traceback

VERIF = os.path.dirname(os.path.dirname(os.path.abspath(__file__)))
sys.path.insert(0, VERIF)


def main():
    ap = argparse.ArgumentParser()
    ap.add_argument('prop')
    ap.add_argument('rest', nargs='*')
    ap.add_argument('--tier', default=os.environ.get('VERIF_TIER', 'quick'))
    a = ap.parse_args()
    seed = int(os.environ.get('VERIF_SEED', '0') or 0)
    os.environ['VERIF_TIER'] = a.tier          # contracts may size enumerated shapes by tier
    if a.prop == 'replay':
        from runner import replay
        return replay.main(a.rest[0])
    try:
        mod = importlib.import_module('props.' + a.prop)
    except ImportError:
        print('no check for %s' % a.prop)
        traceback.print_exc()
        return 3
    try:
        return mod.run(a.tier, seed)
    except Exception:
        traceback.print_exc()
        print('CHECKER-ERROR uncaught exception in %s' % a.prop)
        return 3


if __name__ == '__main__':
    sys.exit(main())
