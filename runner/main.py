"""./check <Cxx> [--tier quick|thorough]   |   ./check replay <file>"""
import argparse
import importlib
import json
import os
import sys
import traceback

VERIF = os.path.dirname(os.path.dirname(os.path.abspath(__file__)))
sys.path.insert(0, VERIF)


def main():
    ap = argparse.ArgumentParser()
    ap.add_argument('prop')
    ap.add_argument('rest', nargs='*')
    ap.add_argument('--tier', default=os.environ.get('VERIF_TIER', 'quick'))
    a = ap.parse_args()
    seed = int(os.environ.get('VERIF_SEED', '0') or 0)
    os.environ['VERIF_TIER'] = a.tier          # contracts may size enumerated shapes by tier
    if a.prop == 'replay':
        from runner import replay
        return replay.main(a.rest[0])
    try:
        mod = importlib.import_module('props.' + a.prop)
    except ImportError:
        print('no check for %s' % a.prop)
        traceback.print_exc()
        return 3
    try:
        return mod.run(a.tier, seed)
    except Exception as e:
        traceback.print_exc()
        repo = os.path.realpath(os.environ.get('VERIF_REPO', '/repo'))
        frames = traceback.extract_tb(e.__traceback__)
        inlib = [f for f in frames if os.path.realpath(f.filename).startswith(repo + os.sep)]
        if inlib and os.path.realpath(frames[-1].filename).startswith(repo + os.sep):
            # the library itself raised while the check was driving its public API in a way that works on the
            # tree the check was written against: reported as a violation with the traceback as the witness
            rdir = os.path.join(VERIF, 'replay', a.prop)
            os.makedirs(rdir, exist_ok=True)
            path = os.path.join(rdir, '000.json')
            with open(path, 'w') as fh:
                json.dump({'property': a.prop, 'obligation': '%s.driver.library-call-raised' % a.prop, 'kind': 'noraise',
                           'source': 'bounded', 'witness': {'call site in the check': '%s:%d' % (
                               [f for f in frames if not os.path.realpath(f.filename).startswith(repo + os.sep)][-1].filename,
                               [f for f in frames if not os.path.realpath(f.filename).startswith(repo + os.sep)][-1].lineno)},
                           'detail': ''.join(traceback.format_exception(type(e), e, e.__traceback__))[-3000:],
                           'native_replay': {'outcome': 'confirmed', 'note': 'concrete run of the real code'}}, fh, indent=1)
            print('VIOLATION property=%s replay=%s obligation=%s.driver.library-call-raised' % (a.prop, path, a.prop))
            return 1
        print('CHECKER-ERROR uncaught exception in %s' % a.prop)
        return 3


if __name__ == '__main__':
    sys.exit(main())
