"""
runner.core -- runs one property's check: deductive obligations (pyvc) in a
process pool, exhaustive-domain obligations, the bounded layer, known-finding
filtering, replay, evidence, verdict.

Exit codes: 0 held / 1 violation (VIOLATION line printed) / 3 checker crash.
`undecided` never maps to a violation (DESIGN 2.6).
"""
import hashlib
import importlib
import json
import multiprocessing
import os
import re
import sys
import time
import traceback

VERIF = os.path.dirname(os.path.dirname(os.path.abspath(__file__)))
REPO = os.environ.get('VERIF_REPO', '/repo')
if VERIF not in sys.path:
    sys.path.insert(0, VERIF)


def load_known_findings():
    p = os.path.join(VERIF, 'known_findings.json')
    if not os.path.exists(p):
        return {'findings': [], 'fixed': []}
    with open(p) as f:
        return json.load(f)


class Failure(object):
    """A refuted obligation or a concrete failing case of the bounded layer."""
    def __init__(self, pid, name, kind, witness, detail='', source='deductive',
                 replay=None, function=None, derived=False, solver_output=None):
        self.pid = pid
        self.name = name              # obligation name / bounded contract name
        self.kind = kind              # post | noraise | frame | inv | pre | bounded | exhaustive
        self.witness = witness        # json-able description of the failing input/model
        self.detail = detail
        self.source = source
        self.replay = replay          # dict: outcome of native replay, or None
        self.function = function
        self.derived = derived
        self.solver_output = solver_output

    def text(self):
        return json.dumps(self.witness, sort_keys=True, default=repr)


def companion_replayer(ctx, prefixes):
    """
    Replay of a deductive counter-model that is over abstract values (uninterpreted strings, stubbed library objects)
    and so cannot be turned into an input directly: the concrete failing input is the one the bounded layer of THE SAME
    RUN found for the corresponding runtime contract on the real code, if it found one that no known finding explains.
    """
    def fn(f):
        known = load_known_findings()
        for g in ctx.failures:
            if g.source != 'bounded' or not any(g.name.startswith(p) for p in prefixes):
                continue
            if match_known(g, known) is not None:
                continue
            return {'outcome': 'confirmed',
                    'note': 'concrete failing input found on the real code by the bounded layer of this run (%s): %s'
                            % (g.name, (g.detail or '')[:300]),
                    'concrete_input': g.witness, 'failed_check': g.name}
        return {'outcome': 'not-reproduced',
                'note': 'the counter-model is over abstract values; the bounded layer of this run found no concrete '
                        'failing input for %s' % ', '.join(prefixes)}
    return fn


def match_known(failure, known):
    for k in known.get('findings', []):
        if k['property'] != failure.pid:
            continue
        if not re.search(k['obligation'], failure.name):
            continue
        w = k.get('witness')
        if w:
            try:
                ok = bool(eval(w, {'re': re, 'json': json}, {'w': failure.witness, 'text': failure.text(),
                                                          'detail': failure.detail}))
            except Exception:
                ok = False
            if not ok:
                continue
        return k
    return None


def _verify_worker(args):
    modules, ident, env = args
    os.environ.update(env)
    t0 = time.time()
    try:
        for m in modules:
            importlib.import_module(m)
        from pyvc.contracts import REGISTRY
        c = REGISTRY[ident]
        rep = c.verify()
        s = rep.summary()
        obs = []
        samples = []
        for ob in rep.obligations:
            if ob.status != 'discharged':
                obs.append(ob.as_dict())
            elif len(samples) < 3:
                samples.append({'name': ob.name, 'backend': ob.backend})
        by_backend = {}
        names = {}
        for ob in rep.obligations:
            if ob.status == 'discharged':
                by_backend[ob.backend] = by_backend.get(ob.backend, 0) + 1
            names[ob.name] = names.get(ob.name, 0) + 1
        s['by_backend'] = by_backend
        s['obligation_names'] = names
        s['non_discharged'] = obs
        s['samples'] = samples
        s['derived'] = sorted(c.derived)
        s['props'] = c.props
        s['unsupported_full'] = [u[1] for u in rep.result.unsupported]
        s['feasible_returns'] = sum(1 for o in rep.result.outcomes if o is not None)
        return ident, s, None
    except Exception:
        return ident, None, traceback.format_exc()


class Context(object):
    def __init__(self, pid, tier, seed):
        self.assumed_callees = {}       # callee contract name -> 'assumed: <note>' (unchecked in this run)
        self.pid = pid
        self.tier = tier
        self.seed = seed
        self.t0 = time.time()
        self.failures = []        # Failure objects
        self.undecided = []       # strings
        self.functions = []       # per-function summaries
        self.obligations = 0
        self.discharged = 0
        self.by_backend = {}
        self.solver_seconds = 0.0
        self.samples = []
        self.trusted = []
        self.assumptions = []
        self.bounded = None       # dict from bounded layer
        self.exhaustive = []      # list of dicts
        self.crashed = []
        self.notes = []
        self.refuted_counts = {}

    # -- deductive -------------------------------------------------------
    def run_deductive(self, modules, idents, procs=None, keep=None):
        procs = procs or min(16, max(1, len(idents)))
        env = {k: v for k, v in os.environ.items() if k.startswith(('VERIF', 'PYVC'))}
        jobs = [(modules, i, env) for i in idents]
        if not jobs:
            return
        ctx = multiprocessing.get_context('fork')
        with ctx.Pool(procs) as pool:
            results = pool.map(_verify_worker, jobs, chunksize=1)
        for ident, s, err in results:
            if err:
                self.crashed.append('%s: %s' % (ident, err))
                continue
            self.functions.append({k: v for k, v in s.items()
                                   if k not in ('non_discharged', 'obligation_names', 'samples')})
            for cname, how in (s.get('callee_contracts_used') or {}).items():
                if how.startswith('assumed'):
                    self.assumed_callees.setdefault(cname, how)
            if keep is not None:
                dropped = [n for n in s['obligation_names'] if not keep(ident, n)]
                nd = sum(s['obligation_names'][n] for n in dropped)
                nbad = sum(1 for ob in s['non_discharged'] if not keep(ident, ob['name']))
                s['obligations'] -= nd
                s['discharged'] -= (nd - nbad)
                s['non_discharged'] = [ob for ob in s['non_discharged'] if keep(ident, ob['name'])]
                self.functions[-1]['obligations_not_counted_for_this_property'] = nd
            self.obligations += s['obligations']
            self.discharged += s['discharged']
            for b, n in s['by_backend'].items():
                self.by_backend[b] = self.by_backend.get(b, 0) + n
            self.solver_seconds += s['solver_seconds']
            self.samples.extend({'function': ident, **x} for x in s['samples'][:2])
            if s['obligations'] == 0 or s['feasible_returns'] == 0:
                if s['unsupported_full']:
                    # nothing could be decided because every path left the modelled subset (e.g. a renamed
                    # variable an invariant mentions): undecided, reported below path by path
                    self.undecided.append('%s: no path of this function could be decided on this tree' % ident)
                else:
                    self.crashed.append('%s: vacuous (no obligations / no feasible path)' % ident)
            for u in s['unsupported_full']:
                self.undecided.append('%s: path out of reach: %s' % (ident, u))
            seen = set()
            for ob in s['non_discharged']:
                if ob['status'] == 'refuted':
                    self.refuted_counts[ob['name']] = self.refuted_counts.get(ob['name'], 0) + 1
                derived = ob['kind'] == 'post-derived'
                if ob['status'] == 'refuted' and ob['kind'] == 'inv':
                    # an auxiliary loop invariant that is no longer inductive: undecided (DESIGN 2.6);
                    # the verdict is left to the other obligations and the bounded layer
                    self.undecided.append('%s: %s (loop invariant not inductive on this tree; model %s)'
                                          % (ident, ob['name'], json.dumps(ob['model'])[:200]))
                    continue
                if ob['status'] == 'undecided':
                    self.undecided.append('%s: %s (%s)' % (ident, ob['name'], ob['detail']))
                    continue
                self.failures.append(Failure(self.pid, ob['name'], ob['kind'].replace('-derived', ''),
                                             ob['model'], ob['detail'], 'deductive',
                                             function=ident, derived=derived,
                                             solver_output='z3: sat (model attached)'))

    # -- results of other layers ------------------------------------------
    def add_exhaustive(self, name, cases, failures, seconds, exhaustive=True, sample=None):
        """An obligation decided by complete enumeration of a finite domain."""
        self.exhaustive.append({'name': name, 'cases': cases, 'failures': len(failures),
                                'seconds': round(seconds, 3), 'complete_domain': exhaustive,
                                'sample': sample})
        self.obligations += 1
        if not failures:
            self.discharged += 1
            self.by_backend['exhaustive-domain'] = self.by_backend.get('exhaustive-domain', 0) + 1
        for w in failures:
            self.failures.append(Failure(self.pid, name, 'exhaustive', w, source='exhaustive',
                                         replay={'outcome': 'confirmed',
                                                 'note': 'evaluated on the real function'}))

    def add_bounded_failure(self, name, witness, detail=''):
        self.failures.append(Failure(self.pid, name, 'bounded', witness, detail, 'bounded',
                                     replay={'outcome': 'confirmed',
                                             'note': 'concrete run of the real code'}))


def finish(ctx, level_if_proved='proof', checker_cmd='', replayers=None):
    """Classify failures, write evidence + replay files, print verdict lines, return exit code."""
    known = load_known_findings()
    pid = ctx.pid
    rdir = os.path.join(VERIF, 'replay', pid)
    os.makedirs(rdir, exist_ok=True)
    for f in os.listdir(rdir):
        os.unlink(os.path.join(rdir, f))
    violations = []
    known_hits = []
    spec_undecided = []
    nrep = 0
    reported_names = set()
    for f in ctx.failures:
        k = match_known(f, known)
        if k is not None:
            known_hits.append((k, f))
            continue
        # every refuted instance is matched against the known findings
        # individually; of the unmatched ones, one witness per obligation
        # name is replayed and reported
        if (f.name, f.source) in reported_names:
            continue
        reported_names.add((f.name, f.source))
        if f.derived:
            spec_undecided.append(f)
            continue
        # replay
        if f.replay is None and replayers:
            for pat, fn in replayers:
                if re.search(pat, f.name):
                    try:
                        f.replay = fn(f)
                    except Exception:
                        f.replay = {'outcome': 'unavailable',
                                    'note': 'replay harness error: ' + traceback.format_exc()[-600:]}
                    break
        if f.replay is not None and f.replay.get('outcome') == 'spurious':
            ctx.undecided.append('%s: counter-model does not reproduce on the real code (%s)'
                                 % (f.name, f.replay.get('note', '')))
            continue
        nrep += 1
        path = os.path.join(rdir, '%03d.json' % nrep)
        with open(path, 'w') as fh:
            json.dump({'property': pid, 'obligation': f.name, 'kind': f.kind,
                       'source': f.source, 'function': f.function,
                       'witness': f.witness, 'detail': f.detail,
                       'solver_output': f.solver_output, 'native_replay': f.replay,
                       'replay_cmd': './check replay %s' % os.path.relpath(path, VERIF)},
                      fh, indent=1, default=repr)
        confirmed = f.replay is not None and f.replay.get('outcome') == 'confirmed'
        violations.append((f, path, confirmed))
    printed = set()
    for k, f in known_hits:
        line = 'KNOWN-FINDING: property=%s %s' % (pid, k['what'])
        if line not in printed:
            print(line)
            printed.add(line)
    for f in spec_undecided:
        print('UNDECIDED-spec obligation=%s (derived-from-code clause; witness %s)'
              % (f.name, f.text()[:200]))
    for u in ctx.undecided[:40]:
        print('UNDECIDED %s' % u[:300])
    if len(ctx.undecided) > 40:
        print('UNDECIDED ... %d more' % (len(ctx.undecided) - 40))
    for f, path, confirmed in violations:
        print('VIOLATION property=%s replay=%s obligation=%s%s'
              % (pid, path, f.name, '' if confirmed else ' no-failing-input-found'))
    for c in ctx.crashed:
        print('CHECKER-ERROR %s' % c[:2000])

    # ---- evidence ------------------------------------------------------
    # known-finding obligations are expected refutations inside a listed
    # witness class: they are neither counted as obligations nor discharged
    n_known_ded = (sum(1 for k, f in known_hits if f.source == 'deductive')
                   + len(set(f.name for k, f in known_hits if f.source == 'exhaustive')))
    obligations = ctx.obligations - n_known_ded
    discharged = ctx.discharged
    all_discharged = (obligations > 0 and not ctx.undecided and not violations
                      and not spec_undecided and not ctx.crashed)
    b = ctx.bounded or {}
    coverage = {
        'obligations': obligations,
        'discharged': discharged,
        'discharged_by_backend': ctx.by_backend,
        'known_finding_refutations': n_known_ded,
        'undecided': len(ctx.undecided),
        'undecided_list': ctx.undecided[:25],
        'spec_undecided': [f.name for f in spec_undecided],
        'solver_seconds': round(ctx.solver_seconds, 3),
        'checker_cmd': checker_cmd or ('./check %s --tier %s' % (pid, ctx.tier)),
        'trusted_base': ctx.trusted,
        'functions_under_contract': ctx.functions,
        'exhaustive_domain_obligations': ctx.exhaustive,
        'samples': (ctx.samples[:6] + [{'exhaustive': e['name'], 'sample': e['sample']}
                                       for e in ctx.exhaustive[:3]]
                    + (b.get('samples') or [])[:6]) or ['(none)'],
        'bounded_layer': {k: v for k, v in b.items() if k != 'samples'} or None,
        'evaluations': int(b.get('evaluations', 0)) + sum(e['cases'] for e in ctx.exhaustive) + obligations,
        'distinct_nontrivial': int(b.get('distinct_nontrivial', 0))
        + sum(e['cases'] for e in ctx.exhaustive) + len(ctx.functions),
        'rule': ('deductive: one case per named obligation per path; exhaustive: every element of the '
                 'stated finite domain; bounded: ' + b.get('rule', 'n/a')),
        'exhaustive': False,
        'notes': ctx.notes,
    }
    level = level_if_proved if all_discharged or level_if_proved != 'proof' else 'exploration'
    if level == 'proof' and discharged != obligations:
        level = 'exploration'
    if level == 'other':
        coverage['explanation'] = (
            'mixed: %d deductive/exhaustive obligations (%d discharged) on the functions listed, plus a '
            'bounded runtime-contract layer (%s evaluations) that carries the sentences no contract '
            'within reach decides; see DESIGN.md' % (obligations, discharged, b.get('evaluations', 0)))
    ev = {
        'property_id': pid, 'tier': ctx.tier, 'seed': ctx.seed, 'level': level,
        'coverage': coverage,
        'assumptions': ctx.assumptions + ['assumed contract on a callee (not verified here): %s -- %s' % (k, v)
                                          for k, v in sorted(ctx.assumed_callees.items())],
        'wall_s': round(time.time() - ctx.t0, 2),
        'violations': len(violations),
        'known_findings_reported': sorted(printed),
    }
    # runs against a scratch copy (VERIF_REPO) keep their evidence apart from the committed record
    evdir = 'evidence' if REPO == '/repo' else 'evidence-scratch'
    os.makedirs(os.path.join(VERIF, evdir), exist_ok=True)
    with open(os.path.join(VERIF, evdir, pid + '.json'), 'w') as fh:
        json.dump(ev, fh, indent=1, default=repr)
    print('SUMMARY property=%s tier=%s level=%s obligations=%d discharged=%d known=%d undecided=%d '
          'bounded_evals=%s violations=%d wall=%.1fs'
          % (pid, ctx.tier, level, obligations, discharged, len(known_hits), len(ctx.undecided),
             b.get('evaluations', 0), len(violations), time.time() - ctx.t0))
    if ctx.crashed:
        return 3
    return 1 if violations else 0
