"""./check replay <file>: re-decides the recorded failure on the current tree."""
import ast
import json
import os
import sys

VERIF = os.path.dirname(os.path.dirname(os.path.abspath(__file__)))


def _lit(s):
    import datetime
    try:
        return eval(s, {'datetime': datetime, 'inf': float('inf'), 'nan': float('nan'), 'None': None})
    except Exception:
        return s


def main(path):
    if not os.path.isabs(path):
        path = os.path.join(VERIF, path)
    r = json.load(open(path))
    print('property  :', r['property'])
    print('obligation:', r['obligation'], '(%s, %s)' % (r['kind'], r['source']))
    print('witness   :', json.dumps(r['witness'])[:1500])
    print('detail    :', r.get('detail'))
    print('recorded native replay:', json.dumps(r.get('native_replay'))[:600])
    if r['source'] == 'deductive' and r.get('function'):
        import importlib
        for m in ('contracts.constraints', 'contracts.reftest', 'contracts.rexpy', 'contracts.misc'):
            try:
                importlib.import_module(m)
            except ImportError:
                pass
        from pyvc.contracts import REGISTRY
        c = REGISTRY.get(r['function'])
        if c is None:
            print('contract not found:', r['function'])
            return 2
        rep = c.verify()
        bad = [ob for ob in rep.obligations if ob.name == r['obligation'] and ob.status != 'discharged']
        print('re-verified %s on the current tree: %d instance(s) of this obligation not discharged'
              % (r['function'], len(bad)))
        for ob in bad[:2]:
            print('  status=%s model=%s' % (ob.status, json.dumps(ob.model)[:800]))
        return 1 if bad else 0
    if r['source'] == 'bounded':
        w = r['witness']
        mod = r.get('replay_module')
        if isinstance(w, dict) and 'family' in w and 'values' in w:
            from bounded import constraints_bounded as cb
            props = (r['property'],)
            out = cb._work((w['family'], [tuple(_lit(v) for v in w['values'])], props, {'seed': 0}))
            fails = [f for f in out[3] if f[0] == r['obligation']]
            print('re-ran the bounded case on the current tree: %d failure(s) of %s' % (len(fails), r['obligation']))
            for f in fails[:3]:
                print('  ', json.dumps(f[1])[:400], '|', f[2][:300])
            return 1 if fails else 0
        print('(no generic re-runner for this witness; see the witness and detail above, '
              're-run ./check %s)' % r['property'])
        return 2
    print('(exhaustive-domain failure: re-run ./check %s)' % r['property'])
    return 2
