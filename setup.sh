#!/bin/bash
# Build the overlay venv (offline) used by every check.  Idempotent.
set -e
cd "$(dirname "$0")"
V=.venv312
if [ ! -x $V/bin/python ] || ! $V/bin/python -c 'import z3, cvc5, deal, icontract, crosshair, pandas, hypothesis' 2>/dev/null; then
  rm -rf $V
  /venv/bin/python -m venv $V
  PIP_NO_INDEX=1 $V/bin/pip install -q --no-index --find-links /opt/veriftools/wheels z3-solver cvc5 deal icontract crosshair-tool jsonschema >/dev/null
  echo "import site; site.addsitedir('/venv/lib/python3.12/site-packages')" > $V/lib/python3.12/site-packages/_overlay.pth
fi
$V/bin/python -c 'import z3, cvc5, deal, icontract, crosshair, pandas, hypothesis; print("venv ok", z3.get_version_string())'
