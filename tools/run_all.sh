#!/bin/bash
# Runs every registered quick (or $1 = thorough) check on the unchanged tree and validates the evidence.
cd "$(dirname "$0")/.."
tier=${1:-quick}
git -C /repo status --short | grep -v '^??' | head -3
for p in C01 C02 C03 C04 C05 C06 C07 C08 C09 C10 C11 C12 C13 C14 C15 C16 C17 C18 C19; do
  s=$(date +%s)
  ./check $p --tier $tier 2>&1 | grep -v conda | grep -E "^(VIOLATION|SUMMARY|CHECKER)" | cut -c1-170
  echo "   exit=${PIPESTATUS[0]} $(( $(date +%s) - s ))s"
done
.venv312/bin/python - <<'PY'
import json, jsonschema
m = json.load(open('MANIFEST.json'))
jsonschema.validate(m, json.load(open('/root/.vp/MANIFEST.schema.json')))
sch = json.load(open('/root/.vp/EVIDENCE.schema.json'))
for c in m['checks']:
    e = json.load(open(c['evidence_file']))
    jsonschema.validate(e, sch)
    lvl_ok = e['level'] == c['level_claimed']['category']
    cov = e['coverage']
    print(c['property_id'], e['level'], 'OK' if lvl_ok else 'LEVEL-MISMATCH(%s claimed)' % c['level_claimed']['category'],
          cov.get('obligations'), cov.get('discharged'), e.get('violations'))
PY
