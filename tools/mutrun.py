#!/usr/bin/env python3
"""
Mutation run: for every mechanical mutant (tools/mutgen.py) of the target functions of a property,
 1. copy /repo to a scratch directory and apply the one-token change,
 2. run the pinned test suite there: mutants that make a baseline test fail are dropped ('suite'),
 3. run the property's quick check against the scratch copy (VERIF_REPO): 'caught' / 'survived' / 'undecided'.
Results go to .scratch/mut/<prop>.jsonl (one line per mutant).  Survivors need a human (or sub-agent) look:
they are equivalent, irrelevant to the property, or a gap in the check.

usage: mutrun.py <prop> <relpath> <funcs|ALL> [--max N] [--jobs J] [--skip-suite]
"""
import json, os, random, shutil, subprocess, sys, tempfile, xml.etree.ElementTree as ET
from concurrent.futures import ThreadPoolExecutor

VERIF = os.path.dirname(os.path.dirname(os.path.abspath(__file__)))
BASE = set(json.load(open('/root/.vp/BASELINE.json'))['stable_pass'])
SKIP_LINE = ('print(', 'verbose', 'warn', 'DEBUG', 'logging', 'sys.stderr', 'raise ', 'assert ', '__repr__', '__str__')


def one(args):
    prop, m, skip_suite = args
    top = tempfile.mkdtemp(prefix='mut-')
    try:
        scratch = os.path.join(top, 'r')
        os.makedirs(scratch)
        shutil.copytree('/repo/tdda', os.path.join(scratch, 'tdda'))
        for f in ('pyproject.toml', 'setup.cfg', 'setup.py'):
            if os.path.exists('/repo/' + f):
                shutil.copy('/repo/' + f, scratch)
        rel = os.path.relpath(m['file'], '/repo')
        p = os.path.join(scratch, rel)
        lines = open(p).read().split('\n')
        L = lines[m['line'] - 1]
        assert L[m['col']:m['end_col']] == m['old'], (L, m)
        lines[m['line'] - 1] = L[:m['col']] + m['new'] + L[m['end_col']:]
        open(p, 'w').write('\n'.join(lines))
        r = subprocess.run(['/venv/bin/python', '-m', 'py_compile', p], capture_output=True)
        if r.returncode != 0:
            return dict(m, verdict='syntax')
        env = dict(os.environ, TMPDIR=os.path.join(top, 'tmp'), PYTHONDONTWRITEBYTECODE='1')
        os.makedirs(env['TMPDIR'])
        if not skip_suite:
            junit = os.path.join(top, 'junit.xml')
            try:
                subprocess.run(['/venv/bin/python', '-m', 'pytest', '-q', '-p', 'no:cacheprovider', '--timeout=60',
                                '--continue-on-collection-errors', '--junitxml=' + junit],
                               cwd=scratch, env=env, capture_output=True, timeout=240)
            except subprocess.TimeoutExpired:
                return dict(m, verdict='suite', note='suite timed out')
            passed = set()
            try:
                for tc in ET.parse(junit).iter('testcase'):
                    if not any(c.tag in ('failure', 'error', 'skipped') for c in tc):
                        passed.add('%s::%s' % (tc.get('classname'), tc.get('name')))
            except Exception:
                return dict(m, verdict='suite', note='no junit')
            missing = BASE - passed
            if missing:
                return dict(m, verdict='suite', broke=sorted(missing)[:3])
        env2 = dict(os.environ, VERIF_REPO=scratch, PYVC_FUNCTION_BUDGET_S='120')
        try:
            r = subprocess.run([os.path.join(VERIF, 'check'), prop], cwd=VERIF, env=env2, capture_output=True, text=True,
                               timeout=1500)
            out = r.stdout
        except subprocess.TimeoutExpired:
            return dict(m, verdict='timeout')
        viol = [l.split('obligation=')[-1][:120] for l in out.split('\n') if l.startswith('VIOLATION')]
        und = sum(1 for l in out.split('\n') if l.startswith('UNDECIDED'))
        crash = [l[:200] for l in out.split('\n') if l.startswith('CHECKER')]
        if viol:
            return dict(m, verdict='caught', by=viol[:3])
        if crash:
            return dict(m, verdict='checker-error', by=crash[:2])
        return dict(m, verdict='survived' if not und else 'undecided', undecided=und)
    except Exception as e:
        return dict(m, verdict='error', note=repr(e)[:300])
    finally:
        shutil.rmtree(top, ignore_errors=True)


def main():
    prop, rel, funcs = sys.argv[1:4]
    mx = int(sys.argv[sys.argv.index('--max') + 1]) if '--max' in sys.argv else 10 ** 9
    jobs = int(sys.argv[sys.argv.index('--jobs') + 1]) if '--jobs' in sys.argv else 4
    skip_suite = '--skip-suite' in sys.argv
    cmd = [sys.executable, os.path.join(VERIF, 'tools', 'mutgen.py'), os.path.join('/repo', rel)]
    if funcs != 'ALL':
        cmd += ['--funcs', funcs]
    ms = json.loads(subprocess.run(cmd, capture_output=True, text=True).stdout)
    src = open(os.path.join('/repo', rel)).read().split('\n')
    ms = [m for m in ms if not any(s in src[m['line'] - 1] for s in SKIP_LINE)]
    random.Random(1).shuffle(ms)
    ms = ms[:mx]
    outdir = os.path.join(VERIF, '.scratch', os.environ.get('MUTDIR', 'mut'))
    os.makedirs(outdir, exist_ok=True)
    outp = os.path.join(outdir, '%s.jsonl' % prop)
    print('%d mutants of %s for %s' % (len(ms), rel, prop), flush=True)
    with ThreadPoolExecutor(jobs) as ex, open(outp, 'a') as fh:
        for r in ex.map(one, [(prop, m, skip_suite) for m in ms]):
            r['prop'] = prop
            r['src'] = src[r['line'] - 1].strip()[:160]
            fh.write(json.dumps(r) + '\n')
            fh.flush()
            print(r['verdict'], r['function'], r['line'], r['op'], repr(r['old'])[:20], '->', repr(r['new'])[:25], r.get('by', '')[:1] if r.get('by') else '', flush=True)


if __name__ == '__main__':
    main()
