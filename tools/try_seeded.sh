#!/bin/bash
# usage: try_seeded.sh <name> <worktree> <prop> [<prop>...]
# 1. confirm in the worktree: demo fails with the change, passes without; suite counts equal
# 2. store under /verif/seeded/<name>/ ; 3. apply to /repo, run the checks, revert.
name=$1; wt=$2; shift 2
set -u
cd $wt || exit 2
demo=$(ls demo_*.py | head -1)
git diff -- '*.py' > /tmp/seeded_$name.diff
[ -s /tmp/seeded_$name.diff ] || cp patch.diff /tmp/seeded_$name.diff
echo "== with change:"; /venv/bin/python $demo > /tmp/seeded_$name.with 2>&1; echo "demo exit $?"; tail -3 /tmp/seeded_$name.with
with_counts=$(/venv/bin/python -m pytest -q -p no:cacheprovider --timeout=900 --continue-on-collection-errors 2>&1 | tail -1)
git checkout -- tdda   # (no git stash: the stash list is shared by all worktrees)
echo "== without change:"; /venv/bin/python $demo > /tmp/seeded_$name.without 2>&1; echo "demo exit $?"; tail -2 /tmp/seeded_$name.without
without_counts=$(/venv/bin/python -m pytest -q -p no:cacheprovider --timeout=900 --continue-on-collection-errors 2>&1 | tail -1)
git apply /tmp/seeded_$name.diff
echo "suite with:    $with_counts"; echo "suite without: $without_counts"
mkdir -p /verif/seeded/$name
cp /tmp/seeded_$name.diff /verif/seeded/$name/patch.diff
cp $demo /verif/seeded/$name/
[ -f notes.txt ] && cp notes.txt /verif/seeded/$name/agent_notes.txt
cd /repo && git apply --check /verif/seeded/$name/patch.diff || { echo "PATCH DOES NOT APPLY TO /repo"; exit 2; }
# run the checks against a scratch copy of /repo with the change applied (evidence of such runs goes to
# evidence-scratch/, never into the committed record)
scratch=$(mktemp -d /tmp/seeded-repo.XXXXXX)
cp -r /repo/tdda $scratch/ && (cd $scratch && patch -p1 -s < /verif/seeded/$name/patch.diff)
for p in "$@"; do
  echo "== ./check $p on a copy of /repo with the change:"
  VERIF_REPO=$scratch /verif/check $p > /tmp/seeded_$name.$p.out 2>&1
  grep -E "^(VIOLATION|SUMMARY|CHECKER)" /tmp/seeded_$name.$p.out | cut -c1-260 | head -8
  echo "   (UNDECIDED lines: $(grep -c '^UNDECIDED' /tmp/seeded_$name.$p.out))"
done
rm -rf $scratch
