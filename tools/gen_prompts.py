#!/usr/bin/env python3
"""
usage: gen_prompts.py <batch-number> <prop> [<prop>...]
Writes /tmp/props/<prop>.txt (the property text, nothing else from /verif) and /tmp/prompts/<prop>.txt (the task for an
independent sub-agent working in the scratch worktree /tmp/w<batch>-<prop>), and creates the worktrees.
"""
import glob, json, os, subprocess, sys

batch, targets = sys.argv[1], sys.argv[2:]
props = {}
for l in open('/verif/properties.jsonl'):
    d = json.loads(l)
    props[d['id']] = d
os.makedirs('/tmp/props', exist_ok=True)
os.makedirs('/tmp/prompts', exist_ok=True)
for pid in targets:
    d = props[pid]
    earlier = []
    for m in sorted(glob.glob('/verif/seeded/%s*/meta.json' % pid)):
        name = os.path.basename(os.path.dirname(m))
        earlier.append('- %s' % (name.split('-', 1)[1].replace('-', ' ') if '-' in name else name))
    open('/tmp/props/%s.txt' % pid, 'w').write(json.dumps({k: d[k] for k in ('id', 'title', 'statement', 'quantifier', 'anchors')}, indent=1))
    wt = '/tmp/w%s-%s' % (batch, pid)
    prompt = f"""You are helping to test a verification harness for the Python library tdda (test-driven data analysis).
Work ONLY in the git worktree {wt} (a scratch copy of the library's repository). Never touch /repo, never touch /verif,
never use `git stash` (the stash list is shared between worktrees), and do not commit anything.

The property below is something users of the library rely on. Its full text (JSON, with the places in the code it is
anchored in) is in /tmp/props/{pid}.txt -- read that file first:

{d['title']}: {d['statement']}

Your task: make ONE small, realistic change to the library's Python source under {wt}/tdda (the kind of slip or
well-meant "improvement" a maintainer could plausibly make in an ordinary commit: a wrong variable, an off-by-one, a
swapped branch, a dropped special case, a changed default, a "simplification") such that
  1. the library still imports and the repository's own test suite gives exactly the same passes and failures as before
     your change (run it before and after:  cd {wt} && /venv/bin/python -m pytest -q -p no:cacheprovider --timeout=900
     --continue-on-collection-errors 2>&1 | tail -3 ; compare the sets of failing test ids, not only the counts), and
  2. the property above no longer holds: there is a concrete input / option combination / history on which the changed
     library visibly violates one of the property's sentences while the unchanged library satisfies it.
Do not edit tests, data files or anything outside {wt}/tdda/**/*.py.  One logical change, as few lines as possible.

Earlier changes made for this property (yours must be of a DIFFERENT kind and in a DIFFERENT place / mechanism --
prefer a part of the anchored code none of these touches, and prefer a subtle change that needs particular inputs to
show over a blunt one that breaks every call):
{chr(10).join(earlier)}

Deliverables, all in {wt}:
  - the change itself left applied in the working tree, and `git diff -- '*.py' > patch.diff`;
  - demo_{pid}.py: a self-contained script using only the library's public API (run as
    `cd {wt} && /venv/bin/python demo_{pid}.py`) that checks the property's sentence on your witness input(s) with an
    independent computation of what is expected; it must print OK and exit 0 on the unchanged library
    (`git checkout -- tdda` to test, then `git apply patch.diff` to restore your change) and exit 1, saying which
    sentence fails, with your change applied;
  - notes.txt (at most 8 lines): what you changed, which sentence of the property it breaks, and exactly what is needed
    for the violation to show (inputs, options, environment).
If, while reading the code, you notice something that already violates the property on the UNCHANGED library, say so in
your final message (with the input that shows it) -- but do not use it as your change.
Finish with the change applied.  In your final message report: the diff, the sentence broken, what it needs to manifest,
and the before/after test-suite comparison.
"""
    open('/tmp/prompts/%s.txt' % pid, 'w').write(prompt)
    subprocess.run(['git', '-C', '/repo', 'worktree', 'add', '--detach', wt, 'HEAD', '-q'])
print('prompts and worktrees ready for', targets)
