#!/bin/bash
# Mutation campaign over the functions the properties are anchored in (sampled); results in .scratch/mut/*.jsonl
cd "$(dirname "$0")/.."
J=${J:-5}
run() { python3 tools/mutrun.py "$@" --jobs $J; }
run C15 tdda/referencetest/checkfiles.py ALL --max 14
run C05 tdda/referencetest/checkpandas.py ALL --max 17
run C06 tdda/constraints/pd/constraints.py ALL --max 18
run C02 tdda/constraints/pd/constraints.py ALL --max 14
run C08 tdda/constraints/db/drivers.py ALL --max 14
run C08 tdda/constraints/db/constraints.py ALL --max 12
run C10 tdda/referencetest/referencetest.py ALL --max 17
run C16 tdda/serial/csvw.py ALL --max 12
run C16 tdda/serial/pandasio.py ALL --max 12
run C17 tdda/constraints/flags.py ALL --max 12
run C17 tdda/constraints/pd/constraints.py discover_df,verify_df,detect_df,load_df,discover_df_from_file,verify_df_from_file,detect_df_from_file --max 12
run C03 tdda/rexpy/rexpy.py ALL --max 25
run C13 tdda/rexpy/rexpy.py ALL --max 12
run C09 tdda/constraints/base.py ALL --max 14
run C07 tdda/constraints/baseconstraints.py ALL --max 12
run C01 tdda/constraints/base.py ALL --max 12
run C19 tdda/referencetest/referencetestcase.py ALL --max 12
run C11 tdda/referencetest/gentest.py ALL --max 14
run C12 tdda/referencetest/gentest.py ALL --max 12
run C14 tdda/rexpy/rexpy.py ALL --max 12
run C18 tdda/rexpy/rexpy.py ALL --max 12
