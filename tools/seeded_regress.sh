#!/bin/bash
# For every seeded change: apply to a scratch copy of /repo, run the property's quick check, report caught / MISSED.
cd "$(dirname "$0")/.."
for d in seeded/*/; do
  name=$(basename $d)
  prop=$(python3 -c "import json;print(json.load(open('$d/meta.json'))['breaks_property'])")
  status=$(python3 -c "import json;print(json.load(open('$d/meta.json')).get('status',''))")
  if [ "$status" = "equivalent-after-fix" ]; then echo "$name ($prop): skipped (behaviour-preserving since the fix it led to)"; continue; fi
  scratch=$(mktemp -d /tmp/seeded-repo.XXXXXX)
  cp -r /repo/tdda $scratch/ && (cd $scratch && patch -p1 -s < /verif/$d/patch.diff) || { echo "$name: PATCH FAILED"; rm -rf $scratch; continue; }
  out=$(VERIF_REPO=$scratch ./check $prop 2>&1 | grep -E "^VIOLATION" | head -3 | sed 's/.*obligation=//' | tr '\n' ';')
  rm -rf $scratch
  if [ -n "$out" ]; then echo "$name ($prop): caught: $out"; else echo "$name ($prop): MISSED"; fi
done
