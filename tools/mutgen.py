#!/usr/bin/env python3
"""
Mechanical mutants of selected functions of a source file (one token each):
comparison / boolean / arithmetic operator swaps, small integer and boolean
constants, dropped `not`, negated `if`, deleted call statements.

usage: mutgen.py <file> [--funcs a,b.c,...]   -> JSON list on stdout
Each mutant: {file, line, col, end_col, op, old, new}: replace text[line][col:end_col] (old) by new.
"""
import ast, json, sys

CMP = {ast.Lt: '<=', ast.LtE: '<', ast.Gt: '>=', ast.GtE: '>', ast.Eq: '!=', ast.NotEq: '==',
       ast.In: 'not in', ast.NotIn: 'in', ast.Is: 'is not', ast.IsNot: 'is'}
CMPTXT = {ast.Lt: '<', ast.LtE: '<=', ast.Gt: '>', ast.GtE: '>=', ast.Eq: '==', ast.NotEq: '!=',
          ast.In: 'in', ast.NotIn: 'not in', ast.Is: 'is', ast.IsNot: 'is not'}


def qualnames(tree):
    out = {}

    def walk(node, prefix):
        for n in ast.iter_child_nodes(node):
            if isinstance(n, (ast.FunctionDef, ast.AsyncFunctionDef)):
                out[prefix + n.name] = n
                walk(n, prefix + n.name + '.')
            elif isinstance(n, ast.ClassDef):
                walk(n, prefix + n.name + '.')
    walk(tree, '')
    return out


def between(lines, a, b):
    """text between the end of node a and the start of node b when on one line"""
    if a.end_lineno != b.lineno:
        return None
    return a.end_lineno, a.end_col_offset, b.col_offset, lines[a.end_lineno - 1][a.end_col_offset:b.col_offset]


def mutants_of(fn, lines, path):
    out = []

    def add(line, col, end, op, new):
        old = lines[line - 1][col:end]
        if old != new:
            out.append({'file': path, 'line': line, 'col': col, 'end_col': end, 'op': op, 'old': old, 'new': new})
    doc = ast.get_docstring(fn, clean=False)
    body = fn.body[1:] if doc is not None and fn.body and isinstance(fn.body[0], ast.Expr) else fn.body
    for stmt in body:
        for n in ast.walk(stmt):
            if isinstance(n, ast.Compare) and len(n.ops) == 1:
                g = between(lines, n.left, n.comparators[0])
                if g:
                    line, c0, c1, txt = g
                    t = CMPTXT[type(n.ops[0])]
                    i = txt.find(t)
                    if i >= 0 and txt.strip() == t:
                        add(line, c0 + i, c0 + i + len(t), 'cmp', CMP[type(n.ops[0])])
            elif isinstance(n, ast.BoolOp) and len(n.values) >= 2:
                g = between(lines, n.values[0], n.values[1])
                if g:
                    line, c0, c1, txt = g
                    t = 'and' if isinstance(n.op, ast.And) else 'or'
                    if txt.strip() == t:
                        i = txt.find(t)
                        add(line, c0 + i, c0 + i + len(t), 'bool', 'or' if t == 'and' else 'and')
            elif isinstance(n, ast.BinOp) and isinstance(n.op, (ast.Add, ast.Sub)):
                g = between(lines, n.left, n.right)
                if g:
                    line, c0, c1, txt = g
                    t = '+' if isinstance(n.op, ast.Add) else '-'
                    if txt.strip() == t and not isinstance(n.left, ast.Constant) or (
                            txt.strip() == t and not isinstance(getattr(n.left, 'value', None), str)):
                        i = txt.find(t)
                        add(line, c0 + i, c0 + i + 1, 'arith', '-' if t == '+' else '+')
            elif isinstance(n, ast.Constant) and n.lineno == n.end_lineno:
                if isinstance(n.value, bool):
                    add(n.lineno, n.col_offset, n.end_col_offset, 'const', 'False' if n.value else 'True')
                elif isinstance(n.value, int) and abs(n.value) <= 100:
                    add(n.lineno, n.col_offset, n.end_col_offset, 'const', str(n.value + 1))
                    if n.value >= 1:
                        add(n.lineno, n.col_offset, n.end_col_offset, 'const', str(n.value - 1))
            elif isinstance(n, ast.UnaryOp) and isinstance(n.op, ast.Not) and n.lineno == n.operand.lineno:
                txt = lines[n.lineno - 1][n.col_offset:n.operand.col_offset]
                if txt.strip() == 'not':
                    add(n.lineno, n.col_offset, n.operand.col_offset, 'not', '')
            if isinstance(n, (ast.If, ast.While)) and n.test.lineno == n.test.end_lineno:
                t = n.test
                add(t.lineno, t.col_offset, t.end_col_offset, 'negate',
                    'not (%s)' % lines[t.lineno - 1][t.col_offset:t.end_col_offset])
            if isinstance(n, ast.Expr) and isinstance(n.value, ast.Call) and n.lineno == n.end_lineno:
                add(n.lineno, n.col_offset, n.end_col_offset, 'delete', 'pass')
            if isinstance(n, ast.AugAssign) and n.lineno == n.end_lineno:
                add(n.lineno, n.col_offset, n.end_col_offset, 'delete', 'pass')
    return out


def main():
    path = sys.argv[1]
    funcs = None
    if '--funcs' in sys.argv:
        funcs = sys.argv[sys.argv.index('--funcs') + 1].split(',')
    src = open(path).read()
    lines = src.split('\n')
    tree = ast.parse(src)
    q = qualnames(tree)
    res = []
    seen = set()
    for name, fn in q.items():
        if funcs is not None and name not in funcs:
            continue
        for m in mutants_of(fn, lines, path):
            key = (m['line'], m['col'], m['new'])
            if key in seen:
                continue
            seen.add(key)
            m['function'] = name
            res.append(m)
    json.dump(res, sys.stdout)


if __name__ == '__main__':
    main()
