#!/usr/bin/env python3
"""usage: seeded_meta.py <name> <property> <needs> <caught_by...>"""
import json, sys, os
name, prop, needs = sys.argv[1:4]
caught = sys.argv[4:]
d = '/verif/seeded/' + name
meta = {'breaks_property': prop, 'needs_to_manifest': needs,
        'source': 'independent sub-agent given only the property text and a scratch worktree of /repo',
        'confirmed': 'demo exits 1 with the change and 0 without; pinned suite: same pass/fail counts with and without '
                     '(tools/try_seeded.sh)',
        'checks_run': 'git -C /repo apply patch.diff; ./check %s --tier quick; git -C /repo checkout -- tdda' % prop,
        'caught_by': caught}
json.dump(meta, open(os.path.join(d, 'meta.json'), 'w'), indent=1)
print('wrote', d)
