#!/usr/bin/env python3
"""Regenerates MANIFEST.json from the table below (kept in one place)."""
import json, os
HERE = os.path.dirname(os.path.dirname(os.path.abspath(__file__)))
ALL = ['C%02d' % i for i in range(1, 20)]

CHECKS = {
 'C02': dict(
   category='proof',
   text='Each of the ten verifiers, the four fuzzy-comparison helpers and the cache layer of the real '
        'tdda/constraints/base(constraints).py is executed symbolically (all paths, no bound) against an '
        'iff-postcondition taken from the documented meaning of its constraint kind; every obligation must be '
        'discharged by z3 (cvc5 second opinion). pandas/SQL calculators enter through assumed contracts that the '
        'bounded layer audits on real frames.',
   note='Trusted: A-calc calculator contracts, A-card/A-pigeonhole counting axioms, FP-REAL (floats as reals), '
        'pyvc encoding of the Python subset, z3/cvc5. Aggregation in base.verify and the tabular forms are covered by '
        'the bounded layer only where stated in the evidence.',
   technique='contract-based deductive verification: ast->z3 VC generation on the real functions + bounded runtime contracts (labelled)',
   design_ref='DESIGN.md 5 C02'),
}
NA_REASON = 'check under construction in this session (see DESIGN.md 8, build order)'

def main():
    checks = []
    for pid in ALL:
        if pid not in CHECKS:
            continue
        c = CHECKS[pid]
        checks.append({
            'property_id': pid,
            'quick_cmd': './check %s --tier quick' % pid,
            'thorough_cmd': './check %s --tier thorough' % pid,
            'evidence_file': 'evidence/%s.json' % pid,
            'replay_cmd_template': './check replay {path}',
            'engine': 'pyvc',
            'level_claimed': {'category': c['category'], 'text': c['text'], 'design_ref': c['design_ref']},
            'level_note': c['note'],
            'technique': c['technique'],
        })
    m = {
        'version': 1,
        'setup_cmd': './setup.sh',
        'hooks': {'guard': 'TDDA_VERIF',
                  'enable': 'no hooks: contracts are sidecars under /verif/contracts; /repo is read (ast) and imported, never instrumented',
                  'baseline_off_cmd': 'cd /repo && /venv/bin/python -m pytest -ra -q -p no:cacheprovider --timeout=900 --continue-on-collection-errors',
                  'source_commits': [], 'add_only': True},
        'engines': [{'name': 'pyvc', 'path': 'pyvc/', 'serves_properties': sorted(CHECKS),
                     'kind_free_text': 'ast->z3 verification-condition generator: path-wise symbolic execution of functions extracted from /repo on every run, callee contracts at call sites, loop invariants, z3 + cvc5; plus exhaustive-domain and bounded runtime-contract back ends'}],
        'checks': checks,
        'notes': 'Every check rebuilds .venv312 if absent and re-reads /repo (VERIF_REPO overrides the path) on every run.',
        'not_applicable': [{'property_id': p, 'reason': NA_REASON} for p in ALL if p not in CHECKS],
    }
    json.dump(m, open(os.path.join(HERE, 'MANIFEST.json'), 'w'), indent=1)

if __name__ == '__main__':
    main()
