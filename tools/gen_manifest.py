#!/usr/bin/env python3
"""Regenerates MANIFEST.json from the table below (kept in one place)."""
import json, os
HERE = os.path.dirname(os.path.dirname(os.path.abspath(__file__)))
ALL = ['C%02d' % i for i in range(1, 20)]

CHECKS = {
 'C02': dict(
   category='proof',
   text='Each of the ten verifiers, the four fuzzy-comparison helpers and the cache layer of the real '
        'tdda/constraints/base(constraints).py is executed symbolically (all paths, no bound) against an '
        'iff-postcondition taken from the documented meaning of its constraint kind; every obligation must be '
        'discharged by z3 (cvc5 second opinion). pandas/SQL calculators enter through assumed contracts that the '
        'bounded layer audits on real frames. The two fuzzy comparators are additionally proved, without treating floats as reals, to accept every value that satisfies the bound exactly whatever the rounded fuzzed threshold is. '
        'Refuted verifier / discoverer obligations are replayed natively: the counter-model is turned into a pandas frame and run through the real code.',
   note='Trusted: A-calc calculator contracts, A-card/A-pigeonhole counting axioms, FP-REAL (floats as reals), '
        'pyvc encoding of the Python subset, z3/cvc5. The aggregation in base.verify is proved too (nested loop invariants: per-field and '
        'total counts equal the number of true / false verdicts); the tabular forms (to_frame, str) are covered by the bounded layer only.',
   technique='contract-based deductive verification: ast->z3 VC generation on the real functions + bounded runtime contracts (labelled)',
   design_ref='DESIGN.md 5 C02'),
}
CHECKS['C01'] = dict(
   category='proof',
   text='Closure is proved as lemmas over two machine-checked contracts on the real code: the strongest postcondition of '
        'discover_field_constraints (what discovery returns) implies the iff-postcondition of each verifier (the documented '
        'meaning), for every column view; discovery and all ten verifiers are shown never to raise on well-formed views; the '
        'statistic cache is shown to describe the frame it was built from. The pandas calculator, the .tdda file round trip, '
        'repair and detection end to end are covered by the bounded layer (labelled) on enumerated frames of every column family; that get_date '
        'inverts the text written for a date bound is decided by complete enumeration (all 10^6 microsecond values x 2 layouts, every calendar field value).',
   note='Trusted: A-calc (audited on real pandas per run), A-card, find_rexes covers its values (= C03, imported), FP-REAL, '
        'pyvc encoding, z3/cvc5. Bounded: frames up to 3 (quick) / 4 (thorough) rows per family pool + seeded columns to 30 rows.',
   technique='contract-based deductive verification (ast->z3 VCs on real functions, closure lemmas over contracts) + bounded runtime contracts (labelled)',
   design_ref='DESIGN.md 5 C01')
CHECKS['C07'] = dict(
   category='proof',
   text='discover_field_constraints of the real baseconstraints.py is executed symbolically on all paths against the strongest '
        'postcondition written from the property text (one clause per kind: exact extremes attained, null-count thresholds 0/1, '
        '1..20 categories, strongest sign class, no_duplicates iff >1 distinct non-real values, nothing for absent data); the '
        'calculators enter through contracts on the abstract calculator interface (A-calc). For the pandas route nine of them (get_nrecords, '
        'calc_tdda_type, calc_null_count, calc_non_null_count, calc_nunique, calc_min, calc_max, calc_min_length, calc_max_length) are themselves '
        'proved on the real PandasConstraintCalculator against the same clauses, over a stub of the pandas objects (len, count, min, max, dropna, '
        'str.len, nunique at their pandas meaning; results handed on as plain Python values); the others stay assumed and are audited on real '
        'pandas frames and SQLite tables by the bounded layer.',
   note='Trusted: A-calc (calc_unique_values: sorted distinct non-null values; calc_non_integer_values_count, calc_all_non_nulls_boolean, '
        'calc_rex_constraint, find_rexes; all of it for the database route), A-pandas for the nine proved methods, A-card, FP-REAL, pyvc encoding, z3/cvc5. '
        'SQLite aggregates are audited under C08.',
   technique='contract-based deductive verification: strongest-postcondition proof by ast->z3 VC generation + bounded audit of assumed contracts',
   design_ref='DESIGN.md 5 C07')

CHECKS['C06'] = dict(
   category='other',
   text='Mixed. Proved (ast->z3 VCs on the ten real verify_* methods): the verdict is a function of column and constraint only, '
        'so it is identical with and without detection (including the allowed_values shortcut, via the pigeonhole axiom), and '
        'the detection hook is called exactly when detecting and the verdict is a failure on an existing field, once, with the '
        "constraint's own value/precision/epsilon; each of the ten detect_*_constraint methods of the real pandas detector (and the two fuzzy column comparisons) "
        'is proved, over a stub of the pandas column operations, to write exactly one flag column, named after its constraint kind, holding the mask the '
        'property describes (every record false when the type cannot satisfy the kind; records within the bound under the documented precision; string lengths; '
        'non-null records for max_nulls; members of duplicated groups, nulls unflagged; records holding a violating value); '
        'write_detected_records (in-memory part, over a row-level stub of the frames: 1..3 three-valued flag columns, any number of rows) is proved to give each '
        'record a failure count equal to its number of false flags, to count as failing exactly the records with a false flag with the two counts partitioning '
        'the rows, to return exactly the failing records unless all are asked for, with the output fields, the flags if asked and the count as columns, and to '
        'assign to the input frame only for in-place output; save_df is proved to send the records to the named file through the writer of its format or to standard output. '
        "Bounded (runtime contracts on real pandas code, labelled): per-record flags "
        'equal the documented meaning per kind, nulls flagged only by type/max_nulls, n_failures = false flags, counts partition '
        'the rows, output frame/file holds exactly the failing records (identified by index label, also on re-indexed frames), stale/absent output files, input frame unchanged. '
        'base.verify is proved to call the detected-records writer iff something failed and to remove a stale output file otherwise.',
   note='Trusted: A-calc, A-card, A-pigeonhole, FP-REAL, A-pandas (element-wise operations as mask descriptions; detection_field assumed), pyvc encoding, z3/cvc5. '
        'The record-level sentences on real pandas values are decided only on the '
        'enumerated frames (<=3/4 rows per family pool + seeded columns) x one option variant per case.',
   technique='contract-based deductive verification of the verifier/hook protocol and of the pandas record-level detectors (stubbed pandas) + bounded runtime contracts for record-level semantics on real frames',
   design_ref='DESIGN.md 5 C06')

CHECKS['C10'] = dict(
   category='other',
   text='Mixed. Proved: _should_regenerate, set_regeneration, the three reference writers and the seven assertion methods of the real '
        'referencetest.py are executed symbolically against frame conditions taken from the property: in normal mode no write '
        'reaches the reference (only callees confined to tmp_dir may write), in regeneration mode exactly the resolved reference '
        'path(s) are written, the regeneration table is never written by an assertion, set_regeneration updates one key. '
        'argv -> table and regenerate-then-check are decided by the bounded layer (labelled) over the spelling family and generated contents.',
   note='Trusted: effect table A-fs, assumed frames of FilesComparison/PandasComparison callees (C15), path resolution as a function, '
        'pyvc encoding, z3. Bounded: argv length <= 3/4, contents listed in bounded/reftest_bounded.py.',
   technique='contract-based deductive verification with ghost write sets (frame conditions) + bounded runtime contracts',
   design_ref='DESIGN.md 5 C10')
CHECKS['C19'] = dict(
   category='other',
   text='Mixed. Proved on the real code: the tag decorator marks and returns its argument; _run_tests hands unittest the tagged '
        'loader exactly when tagged or check is set, with the listing flag; TaggedTestLoader.getTestCaseNames offers all tests of a class that carries the tag and otherwise exactly its tagged methods (unittest name discovery abstract); referencepytest.tagged (the pytest route) keeps exactly the tagged tests collected under --tagged, none under --istagged while printing each owner of a tagged test once, and leaves the collection alone otherwise (0..4 collected items, every tagging pattern). Bounded (labelled): _set_flags_from_argv against a '
        'reference parser on every judgeable sequence of <= 3 (quick) / 4 (thorough) tokens from 20 spellings; tag selection and '
        'listing on generated test modules (tagged/untagged methods and classes, inheritance) x 22 argv forms run in-process with a side-effect log.',
   note='Trusted: unittest loader/main semantics. The argv scanner is a per-character string loop outside the SMT subset: bounded only. '
        'Argument orders the documents do not fix are not judged (listed in the evidence).',
   technique='contract-based deductive verification of loader selection + bounded exhaustive enumeration of the argv family and generated modules',
   design_ref='DESIGN.md 5 C19')

CHECKS['C04'] = dict(
   category='other',
   text='Mixed. Proved on the real checkfiles.py: the verdict of check_strings for texts of up to N lines a side (one view per shape; N = 2 quick, 3 thorough) '
        'with symbolic line contents, symbolic ignore-substrings, remove-substrings, stripping flags and permutation allowance, with and without a caller-supplied '
        'preprocess function: it passes whenever the property\'s sentence demands a pass and fails whenever it demands a failure (two clauses; what the sentence '
        'leaves open - rearranged lines compared before or after stripping - is left open); normalize_function and wrong_content are executed as part of that '
        'body. Helpers under their own contracts: wrong_content returns the number of differing pairs can_ignore does not excuse (any number of lines; loop '
        'invariant over a partial count); check_for_permutation_failures reports no failure exactly when the differing actual lines are a rearrangement of the '
        'expected ones (<= 3 cases); wrong_number reports at least one difference whenever reached with a non-empty side (lists of any length); '
        'normalize_function selects exactly the requested stripping; can_ignore holds iff the reference line contains an ignore-substring or the lines are '
        'pattern-equivalent (loop invariant; check_patterns uninterpreted). The three entry points check_string_against_file, check_file and check_files are proved to '
        'read the reference (and the actual file) whole, to cut both texts into lines the same way, to hand paths and options to check_strings unchanged, to count a '
        'missing file as a failure and to add up the failures of a list of pairs (a raising pair counting one). Longer texts and the pattern rule itself are decided by the '
        'bounded layer (labelled): an independent statement of the comparison rule evaluated on reference texts <= 3 lines x near-miss and compound actuals x '
        '28 option sets, judging only cases the documents fix.',
   note='Trusted: Python re, str methods (strip family as functions of the string), splitlines. check_patterns is an uninterpreted predicate in the proofs; '
        'reconstruct and add_failures are assumed to only report. The line-count bound of the check_strings views is stated in the evidence.',
   technique='contract-based deductive verification of check_strings (per-shape views) and its helpers + bounded runtime contracts against an independent oracle',
   design_ref='DESIGN.md 5 C04')
CHECKS['C15'] = dict(
   category='other',
   text='Mixed. check_binary_file of the real checkfiles.py is proved (loop invariant: all bytes before the cursor agree) to report a failure '
        'iff the byte strings differ, the least differing offset (or the shorter length) and exact lengths, and to write nothing itself; '
        'write_file is proved to write exactly the file it is given; add_failures is proved to write only under tmp_dir, nothing when '
        'temporaries are not requested, and exactly one raw file per side lacking a path plus the post-processed pair. The message/file '
        'contents sentences (named files exist, raw actual holds the actual, post-processed pair differs on unexcused lines, passes write '
        'nothing) are decided by the bounded layer (labelled) with directory snapshots; reconstruct is proved (one view per text shape up to N x N lines, '
        'symbolic contents, abstract removal / ignored sets; its precondition is discharged at the call site in check_strings) to return two texts of the '
        'same length that differ at exactly as many positions as there are kept, differing, unexcused pairs, each of which appears in them; check_strings is proved (1x1 and 2x2 line views) to call '
        'add_failures exactly when it reports a failure, so a passing comparison reports and writes nothing.',
   note='Trusted: A-fs effect table, A-path (separator-free tails, join under), compare_with/get_encoding write nothing, z3. diff_marker / format_marker are assumed to be functions of their arguments; '
        'texts longer than the views are bounded only.',
   technique='contract-based deductive verification (loop invariant, ghost write-set frames) + bounded runtime contracts',
   design_ref='DESIGN.md 5 C15')

_REX_NOTE = ('Trusted: Python re semantics. The extraction pipeline (1,500 lines of string processing) is not under deductive '
             'contracts; the end-to-end sentence is decided only on the enumerated/seeded inputs stated in the evidence.')
CHECKS['C03'] = dict(
   category='other',
   text='Mixed. Proved on the real rexpy.py: fragment2re renders a quantifier covering the run-length range; Extractor.clean keeps exactly the examples no option discards and counts every stripped one (the count that switches on the \\s* padding). '
        'Decided by complete enumeration of finite domains on the real functions (exhaustive-domain obligations): for all '
        '1,112,064 Unicode scalar values coarse_classify_char and fine_class return a class whose expression matches the character, '
        'escape(c) matches exactly c, the portable/grep Digit class contains what the internal class does; escaped_bracket denotes '
        'exactly its set for every set of 2..4 (quick) / 2..5 (thorough, the complete default call-site domain) punctuation characters. '
        'Bounded (labelled): extract / pdextract under the runtime contract "every kept example is matched by a returned expression" over '
        'word multisets, random strings over a 28-character class/metacharacter alphabet, long inputs, option sets, 6 Size settings forcing '
        'the sampled path, seeds.',
   note=_REX_NOTE, technique='exhaustive-domain contract checking of the character-class functions + bounded runtime contracts on extract()',
   design_ref='DESIGN.md 5 C03')
CHECKS['C13'] = dict(
   category='other',
   text='Mixed. Proved on the real rexpy.py: find_bad_patterns marks a pattern for pruning iff it has no example of its own (stable order), '
        'ResultsSummary.remove deletes exactly the indexed entry; fragment2re renders a quantifier covering the run-length range. '
        'Exhaustive-domain: escape(c) matches exactly c for every Unicode scalar value; escaped_bracket compiles and denotes its set '
        'for every punctuation set of size 2..4/5. Bounded (labelled): every returned expression compiles, is ^...$ anchored, matches an '
        'example, no duplicates, at most one per distinct example, none for empty input, tagged and untagged expressions match the same '
        'examples (same count without sampling), incl. max_patterns / min_strings_per_pattern settings and inputs with > 99 fragments.',
   note=_REX_NOTE, technique='exhaustive-domain contract checking + bounded runtime contracts on extract()',
   design_ref='DESIGN.md 5 C13')
CHECKS['C14'] = dict(
   category='exploration',
   text='Proved on the real rexpy.py: PRNGState.__init__ saves the global state and then seeds iff a seed is given (0 included), with that seed; '
        'restore puts the saved state back iff one was saved; Extractor.extract is proved (typestate, every callee abstracted as returning anything or raising, loop cut at an invariant) to save the generator state exactly once, '
        'restore it exactly once however it ends - normal return, early return, exception - and to draw random samples only in between. Extractor.sample_examples / Extractor.sample are proved, for example stores of any length and every draw of random.sample (assumed contract: n pairwise different positions), to return n strings each paired with its own stored frequency, no stored example twice, from the full example store. The rest is bounded only (labelled): a two-run (hyper)property over the whole pipeline that no per-function contract here carries. Runtime '
        'contracts: same expressions for every permutation (<= 4 examples: all 24), list vs frequency dict, repeated example, repeated '
        'call; with a seed: reproducible, independent of the global PRNG, random.getstate() unchanged - over word multisets x options x '
        'Size settings that force sampling x seeds.',
   note=_REX_NOTE + ' The corresponding bracket inside Extractor.__init__ (first sample) is checked at run time only (random.getstate() before/after).',
   technique='contract-based deductive verification of the PRNG save/seed/restore bracket and of sampling (ast->z3 VCs on PRNGState, Extractor.extract, sample, sample_examples) + bounded runtime contracts (relational checks over permutations, input forms and PRNG state)',
   design_ref='DESIGN.md 5 C14')
CHECKS['C18'] = dict(
   category='other',
   text='Mixed. Proved on the real rexpy.py: rex_coverage returns, for each (anchored) expression, exactly the number of stored examples - '
        'weighted by their frequencies, or counted once each under dedup - that re.match of the expression compiled with UNICODE|DOTALL accepts '
        '(example lists of any length; expression lists of length 0..3; re.match uninterpreted); Examples.update sets the distinct count to the number of '
        'stored strings and the example count to the sum of the stored frequencies; Extractor.coverage / incremental_coverage / full_incremental_coverage '
        'hand exactly the result expressions, the stored examples and the dedup flag to the module functions, and n_examples returns the stored count; '
        'Extractor.clean stores exactly the kept examples (not null, count not 0, not empty when empties are removed) after optional stripping, each with the total of its counts, for lists, frequency dictionaries and Examples objects of <= 3 symbolic entries; '
        'coverage_matrices holds each example frequency exactly where the expression matches; matrices2incremental_coverage (the greedy loop) credits every matched example to exactly one expression, in non-increasing order, with counts summing to the matched total - '
        'for every match matrix of <= 3 expressions x 3 examples (quick: 3 x 2 / 2 x 3) with symbolic frequencies; rex_incremental_coverage returns the with- or without-repeats count as requested. '
        'Bounded (labelled; complete for its finite family): every match matrix of <= 3 expressions x 3 examples x frequencies {1,3} x dedup through rex_coverage and the incremental functions. '
        'Bounded (labelled): coverage() equals an independent count of matching examples (with and without repeats), n_examples equals '
        'the number supplied, incremental coverage is non-increasing, sums to the total and credits each example to exactly one expression '
        '(replayed greedily) - over the C03 drivers with repeats.',
   note=_REX_NOTE + ' Matrix shapes and input sizes of the clean / greedy-loop proofs are enumerated (stated above); contents are symbolic.',
   technique='contract-based deductive verification of the coverage counters (shared partial-sum functions) + exhaustive match matrices + bounded runtime contracts against an independent count',
   design_ref='DESIGN.md 5 C18')

CHECKS['C09'] = dict(
   category='other',
   text='Mixed. Proved on the real base.py: to_preferred_order puts known kinds in the standard order followed by the rest sorted and '
        'returns a permutation of the keys; Constraint / MinConstraint / MaxConstraint.to_dict_value render dates as text (also inside the '
        '{value, precision} form) and leave every other value untouched, for every value type x precision x raw; get_date leaves '
        'non-strings (null bounds) alone; initialize_from_dict builds one constraint per known kind with the re-parsed value (plain and {value, precision} forms) and ignores unknown kinds; '
        'FieldConstraints.to_dict_value writes one entry per kind in the standard order, each rendered by the constraint itself with the same raw flag, and DatasetConstraints.to_dict writes the fields in stored order, creation metadata first. '
        'Exhaustive-domain: get_date inverts the text written for a date (all 10^6 microsecond values x 2 layouts, every calendar field value). Bounded (labelled): write -> load -> write gives identical constraint text and is idempotent, '
        'the text is valid UTF-8 JSON without trailing whitespace, unknown kinds and # keys change nothing, and path / dict / '
        're-serialised forms give the same verdicts on 5 frames - over all single-kind sets and seeded random sets.',
   note='Trusted: json round trip. to_json / strip_lines / load are bounded only (incl. strings with U+0085/U+2028 and API-built sets).',
   technique='contract-based deductive verification of the value renderers and key ordering + bounded round-trip contracts',
   design_ref='DESIGN.md 5 C09')

CHECKS['C16'] = dict(
   category='other',
   text='Mixed. Exhaustive-domain (real functions, complete finite domains): csvw_date_format_to_md_date_format gives the strptime '
        'directive for every separator-delimited sequence of <= 2 (quick) / 3 (thorough) of the 12 documented tokens over the six '
        'separators; CSVW_TYPE_TO_MTYPE and MTYPE_TO_PANDAS_DTYPE are total over the 46 documented datatypes and compose to the dtype '
        'family or a date parser. Proved on the real csvw code: to_pandas_read_csv_args maps the metadata fields to the read_csv keywords (names, dtypes, date columns and formats, delimiter, encoding, header, titles, boolean spellings); '
        'CSVWMetadata.get_fields_metadata gives each described column its declared type, its format translated if date-like and kept otherwise (ISO 8601 without one) and its titles, '
        'for every spelling of type, format and titles; process_dialect reads delimiter, encoding and the number of header rows for every spelling of the header\'s presence. Bounded (labelled): instants written with 10 composed patterns are read back exactly by the translated '
        'format; seeded CSV files (integer/number/string/boolean/datetime with nulls) x delimiters x encodings x header present/absent x '
        'boolean spellings load through csv2pandas with the same names, declared types and values.',
   note='Trusted: str.replace semantics (extension of the token result to longer separator-delimited formats), pandas.read_csv, strptime. '
        'Formats with adjacent tokens are outside the property.',
   technique='contract-based deductive verification of the metadata readers and the read_csv arguments + exhaustive-domain checking of the translation and type tables + bounded round-trip contracts',
   design_ref='DESIGN.md 5 C16')

CHECKS['C17'] = dict(
   category='other',
   text='Mixed. Proved on the real flags.py (every combination of flags, symbolically): the keyword dictionaries built by '
        'discover_flags / verify_flags / detect_flags equal the documented meaning of each flag, nothing else is set, and unknown '
        'arguments or contradictory pairs end in SystemExit - exactly then. Bounded (labelled): tdda discover / verify / detect run '
        'in-process on 6 generated tables x CSV and parquet x ~20 flag sets give the same constraints (apart from creation metadata), '
        'pass/failure counts and detection files as the library on load_df(file); discovered constraints verify against their file; '
        'missing inputs / constraints files, unknown and contradictory flags exit non-zero and leave no output; 3 subprocess runs.',
   note='Trusted: argparse, pandas readers/writers. The PandasDiscoverer/Verifier/Detector front-ends and discover_df_from_file are proved to hand the translated flags to the library call unchanged; load_df is proved to give each reader the path it is meant for (parquet reader iff the extension is .parquet in any case; load_metadata only ever a metadata path; CSV arguments from that metadata), for inputs that name a data file; the command-line dispatch on the extension is bounded only.',
   technique='contract-based deductive verification of the flag translators + bounded runtime comparison of CLI and library',
   design_ref='DESIGN.md 5 C17')

CHECKS['C05'] = dict(
   category='other',
   text='Mixed. Proved: resolve_option_flag (None/True -> all columns, False -> none, list as given, function applied to the frame); the verdict skeleton of the real '
        'check_dataframe: failures == 0 iff no selected column is missing or extra, every selected type matches, the selected common columns are in the same relative order, '
        'the row counts after the condition agree and the cell comparison of the selected data columns of the filtered frames reports zero differences - for every form of the four '
        'option flags (None / True / False / list in any order / function), symbolic row counts, types_match per column and differing-cell count, over a finite family of column layouts '
        '(reference a,b,c against 9 actual layouts: permuted, missing, extra). '
        'Exhaustive-domain: types_match satisfies the laws of the property (strict iff names equal, reflexive, symmetric, strict <= '
        'medium <= permissive) for every ordered pair of the dtype names the installed pandas/numpy produce x 4 levels. Bounded '
        '(labelled): check_dataframe / assertDataFramesEqual / file entry points on frame pairs over 11 column types: a copy passes, '
        'a changed checked cell, null-vs-value, a change beyond the precision, renamed/retyped/moved/missing/extra columns and changed '
        'row counts fail - as assertion failures with a message, never internal errors; option flags, sortby, condition.',
   note='Trusted: pandas frame operations; types_match, same_structure_ddiff (cells), replace_cats and the message builders enter the skeleton proof as assumed contracts audited by the bounded layer. Column layouts outside the enumerated family are bounded only (3-row frames).',
   technique='contract-based deductive verification of option resolution and the check_dataframe verdict skeleton + exhaustive-domain type laws + bounded runtime contracts',
   design_ref='DESIGN.md 5 C05')

CHECKS['C08'] = dict(
   category='proof',
   text='The generic discovery / verification layer is the same real code as C01/C02/C07 and is proved here against the same '
        'contracts: discovery returns exact statistics, each verifier reports satisfied iff the documented meaning holds - so a row '
        'beyond a discovered bound makes that constraint fail (only-if direction) - and never raises on well-formed views; the '
        'database instance of types_compatible is proved to be exact-type equality. The SQL calculator (string-built SQL over SQLite) '
        'enters through the assumed A-calc contracts: the calculator methods themselves are proved to hand on the answer of the database handler\'s '
        'query of the same name for this table and column (14 delegation contracts), and the queries (SQL text and its meaning in the engine) are '
        'decided by the bounded layer (labelled): generated tables of every column '
        'type incl. quotes, backslashes, unicode, empty strings, all-null and empty tables, rex off/on, discovered, verified and '
        're-verified after every single-row perturbation.',
   note='Trusted: A-calc for the SQL calculator (audited on SQLite per run), A-card, A-pigeonhole, FP-REAL, pyvc encoding, z3/cvc5. '
        'SQL text construction itself is not under a deductive contract.',
   technique='contract-based deductive verification of the shared discovery/verification layer + bounded runtime contracts on SQLite',
   design_ref='DESIGN.md 5 C08')

CHECKS['C11'] = dict(
   category='other',
   text='Mixed. Proved on the real gentest.py: is_date_like never raises - each of its five datetime constructions is reached only '
        'with field values that form a date, or its ValueError is handled, for every value the date regular expressions can capture '
        '(integer encoding of the constructor precondition incl. leap years). Bounded (labelled): gentest() on a family of deterministic '
        'shell commands completes, writes a script that compiles and a reference directory, leaves every pre-existing file untouched, and '
        'the script passes when run straight afterwards in a subprocess.',
   note='The subject is a program that writes a program: no contract on a function of /repo expresses "the emitted script passes"; '
        'that sentence is bounded (31 commands quick / ~70 thorough).',
   technique='contract-based deductive verification of is_date_like (noraise) + bounded end-to-end runtime contracts',
   design_ref='DESIGN.md 5 C11')
CHECKS['C12'] = dict(
   category='exploration',
   text='Proved on the real gentest.py: TestGenerator.test_name never returns a name that is already taken (the set of taken names is arbitrary) and records '
        'what it returns, so no generated test method silently replaces another; write_script writes - to the script only - one check for stdout and one for stderr when requested, each with its own exclusions, and exactly one check per output file '
        '(0..2 files, symbolic names) under the name test_name hands out, against the possibly re-mapped reference, as text with that file\'s exclusions and encoding or as binary (the text of each test is abstract). Otherwise bounded (labelled): '
        'for each command of the C11 family, after generation every single change of behaviour (stdout '
        'altered at the end / start / one character / truncated, stderr appended, exit status changed, output file content changed, '
        'output file deleted) is applied and the generated script re-run in a subprocess: it must fail, the failure must be reported by '
        'the test for that stream / status, the other tests must keep passing, and the unchanged command must keep passing.',
   note='The property is about the behaviour of the emitted script; the exactness of the comparisons it calls is covered by C04/C15.',
   technique='contract-based deductive verification of test-name uniqueness + bounded runtime contracts (generate, perturb, re-run)',
   design_ref='DESIGN.md 5 C12')

NA_REASON = 'check under construction in this session (see DESIGN.md 8, build order)'

def main():
    checks = []
    for pid in ALL:
        if pid not in CHECKS:
            continue
        c = CHECKS[pid]
        checks.append({
            'property_id': pid,
            'quick_cmd': './check %s --tier quick' % pid,
            'thorough_cmd': './check %s --tier thorough' % pid,
            'evidence_file': 'evidence/%s.json' % pid,
            'replay_cmd_template': './check replay {path}',
            'engine': 'pyvc',
            'level_claimed': {'category': c['category'], 'text': c['text'], 'design_ref': c['design_ref']},
            'level_note': c['note'],
            'technique': c['technique'],
        })
    m = {
        'version': 1,
        'setup_cmd': './setup.sh',
        'hooks': {'guard': 'TDDA_VERIF',
                  'enable': 'no hooks: contracts are sidecars under /verif/contracts; /repo is read (ast) and imported, never instrumented',
                  'baseline_off_cmd': 'cd /repo && /venv/bin/python -m pytest -ra -q -p no:cacheprovider --timeout=900 --continue-on-collection-errors',
                  'source_commits': [], 'add_only': True},
        'engines': [{'name': 'pyvc', 'path': 'pyvc/', 'serves_properties': sorted(CHECKS),
                     'kind_free_text': 'ast->z3 verification-condition generator: path-wise symbolic execution of functions extracted from /repo on every run, callee contracts at call sites, loop invariants, z3 + cvc5; plus exhaustive-domain and bounded runtime-contract back ends'}],
        'checks': checks,
        'notes': 'Every check rebuilds .venv312 if absent and re-reads /repo (VERIF_REPO overrides the path) on every run.',
        'not_applicable': [{'property_id': p, 'reason': NA_REASON} for p in ALL if p not in CHECKS],
    }
    json.dump(m, open(os.path.join(HERE, 'MANIFEST.json'), 'w'), indent=1)

if __name__ == '__main__':
    main()
