#!/usr/bin/env python3
"""Summary of the mutation campaign (.scratch/mut/*.jsonl): counts per property and the survivors."""
import json, glob, os, sys, collections
VERIF = os.path.dirname(os.path.dirname(os.path.abspath(__file__)))
show = sys.argv[1] if len(sys.argv) > 1 else None
tot = collections.Counter()
for f in sorted(glob.glob(os.path.join(VERIF, '.scratch', os.environ.get('MUTDIR', 'mut'), 'C*.jsonl'))):
    prop = os.path.basename(f)[:-6]
    rows = list({(r['file'], r['line'], r['col'], r['new']): r for r in (json.loads(l) for l in open(f))}.values())
    c = collections.Counter(r['verdict'] for r in rows)
    tot.update(c)
    reached = c['caught'] + c['survived'] + c['undecided']
    print('%s: %d mutants; killed by the suite %d; reaching the check %d: caught %d, survived %d, undecided %d; other %d'
          % (prop, len(rows), c['suite'], reached, c['caught'], c['survived'], c['undecided'],
             len(rows) - c['suite'] - reached))
    if show in (prop, 'all'):
        for r in rows:
            if r['verdict'] in ('survived', 'undecided', 'checker-error', 'error', 'timeout'):
                print('   %-9s %s:%d %s  %r -> %r   | %s' % (r['verdict'], r['function'], r['line'], r['op'], r['old'][:30],
                                                           r['new'][:30], r['src'][:110]))
print('TOTAL', dict(tot))
