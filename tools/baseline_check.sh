#!/bin/bash
# Runs the pinned suite and compares the passing set with BASELINE.json's stable_pass list.
cd /repo && /venv/bin/python -m pytest -q -p no:cacheprovider --timeout=900 --continue-on-collection-errors --junitxml=/tmp/verif-junit.xml >/dev/null 2>&1
/venv/bin/python - <<'PY'
import json, xml.etree.ElementTree as ET
base=set(json.load(open('/root/.vp/BASELINE.json'))['stable_pass'])
t=ET.parse('/tmp/verif-junit.xml')
passed=set()
for tc in t.iter('testcase'):
    if not any(c.tag in ('failure','error','skipped') for c in tc):
        passed.add('%s::%s' % (tc.get('classname'), tc.get('name')))
missing=sorted(base-passed)
print('baseline stable:', len(base), 'passing now:', len(passed), 'baseline tests not passing:', missing[:10])
PY
rm -f /tmp/verif-junit.xml
