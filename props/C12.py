"""C12 -- gentest; see DESIGN.md 5 C12."""
from runner.core import Context, finish

MODULES = ['contracts.gentest']
PID = 'C12'


def run(tier, seed):
    import contracts.gentest
    from pyvc.contracts import REGISTRY
    ctx = Context(PID, tier, seed)
    if PID == 'C11':
        ctx.run_deductive(MODULES, [i for i, c in REGISTRY.items() if not c.assumed and PID in c.props])
        ctx.notes.append('deductive part: is_date_like never raises - every datetime.datetime(Y, M, D) call site is guarded, '
                         'given only what the regular-expression groups guarantee (\\d{1,4}, \\d{1,2}, month names); the '
                         'constructor precondition (1 <= Y <= 9999, 1 <= M <= 12, 1 <= D <= days(Y, M) incl. leap years) is '
                         'encoded in integers')
    if PID == 'C12':
        ctx.run_deductive(MODULES, [i for i, c in REGISTRY.items() if not c.assumed and PID in c.props])
        ctx.notes.append('deductive part: TestGenerator.test_name never hands out a name that is already taken (built-in checks '
                         'included) and records the name it returns - so no generated test method replaces another; the set of taken '
                         'names is an arbitrary set')
    ctx.trusted.extend(['A-datetime: constructor field ranges; A-re: what the date regular expressions capture',
                        'subprocess / shell / unittest behaviour', 'z3; pyvc encoding'])
    ctx.assumptions.extend(['the emitted script is a program run in a subprocess: no contract on a function of /repo can express '
                            '"the emitted script passes / fails"; that part is bounded only',
                            'a change that only removes a final newline is not a difference under the line-based comparison (C04)'])
    from bounded import gentest_bounded as gb
    from bounded.core import attach
    attach(ctx, gb.run((PID,) if PID == 'C11' else ('C11', 'C12'), tier, seed))
    # C12 reuses the C11 generation run; only C12.* contracts count for C12
    if PID == 'C12':
        ctx.failures = [f for f in ctx.failures if f.name.startswith('C12.')]
    return finish(ctx, 'other' if PID == 'C11' else 'exploration')
