"""C15 -- see DESIGN.md 5 C15."""
from runner.core import Context, finish

MODULES = ['contracts.checkfiles']
PID = 'C15'
LEVEL = 'other'


def targets():
    import contracts.checkfiles
    from pyvc.contracts import REGISTRY
    return [i for i, c in REGISTRY.items() if not c.assumed and PID in c.props]


def run(tier, seed):
    ctx = Context(PID, tier, seed)
    ctx.run_deductive(MODULES, targets())
    ctx.trusted.extend([
        'A-fs: effect table (open(w/wb/a) -> ghost write set); A-path: os.path.split/basename tails are separator-free, '
        'join(d, b) with separator-free b lies under d',
        'assumed: compare_with / get_encoding / info write nothing (compare_with only formats a message)',
        'A-re: check_patterns (recursive regex matching) is an uninterpreted predicate in the proofs; the bounded layer '
        'compares it with an independent dynamic-programming statement',
        'z3 / cvc5; pyvc encoding of the Python subset'])
    ctx.assumptions.extend(['TERMINATION not verified',
                            'bytes are lists of naturals; text is an uninterpreted string sort'])
    from bounded import text_bounded as tb
    from bounded.core import attach
    attach(ctx, tb.run((PID,), tier, seed))
    from runner.core import companion_replayer
    return finish(ctx, LEVEL, replayers=[(r'(reconstruct|check_strings|add_failures|write_file|check_binary_file|wrong_number|wrong_content|can_ignore)', companion_replayer(ctx, ('C15.',)))])
