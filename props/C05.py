"""C05 -- DataFrame comparison passes exactly when the checked structure and values agree."""
import time
from runner.core import Context, finish

MODULES = ['contracts.pandascmp']
PID = 'C05'


def run(tier, seed):
    import contracts.pandascmp
    from pyvc.contracts import REGISTRY
    ctx = Context(PID, tier, seed)
    ctx.run_deductive(MODULES, [i for i, c in REGISTRY.items() if not c.assumed and PID in c.props])
    from bounded import pandas_bounded as pb
    t = time.time()
    n, bad = pb.type_laws()
    ctx.add_exhaustive('checkpandas.types_match.laws', n, bad[:100], time.time() - t, True,
                       sample={'domain': 'every ordered pair of the %d dtype names the installed pandas/numpy produce x 4 levels'
                                         % len(pb.dtype_names()),
                               'claim': 'strict (and None) iff names equal; reflexive; symmetric; strict <= medium <= permissive'})
    ctx.trusted.extend(['A-pandas: list(df), dtype.name, len, round, equals, eq, isnull, sort_values, boolean indexing at their '
                        'pandas meaning', 'z3; pyvc encoding'])
    ctx.assumptions.extend(['the decision skeleton of check_dataframe is decided by the bounded layer only'])
    from bounded.core import attach
    attach(ctx, pb.run((PID,), tier, seed))
    return finish(ctx, 'other')
