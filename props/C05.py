"""C05 -- DataFrame comparison passes exactly when the checked structure and values agree."""
import time
from runner.core import Context, finish

MODULES = ['contracts.pandascmp']
PID = 'C05'


def run(tier, seed):
    import contracts.pandascmp
    from pyvc.contracts import REGISTRY
    ctx = Context(PID, tier, seed)
    ctx.run_deductive(MODULES, [i for i, c in REGISTRY.items() if not c.assumed and PID in c.props])
    from bounded import pandas_bounded as pb
    t = time.time()
    n, bad = pb.type_laws()
    ctx.add_exhaustive('checkpandas.types_match.laws', n, bad[:100], time.time() - t, True,
                       sample={'domain': 'every ordered pair of the %d dtype names the installed pandas/numpy produce x 4 levels'
                                         % len(pb.dtype_names()),
                               'claim': 'strict (and None) iff names equal; reflexive; symmetric; strict <= medium <= permissive; medium = same family (int / float / datetime / bool / string) or object against string / bool / datetime, permissive = medium or any two of int / float / bool (families by pandas dtype predicates; unsigned and str not judged)'})
    ctx.trusted.extend(['A-pandas: list(df), dtype.name, len, round, equals, eq, isnull, sort_values, boolean indexing at their '
                        'pandas meaning', 'z3; pyvc encoding'])
    ctx.assumptions.extend([
        'check_dataframe verdict skeleton: proved for every option-flag combination of four views (order / columns / level / data) '
        'over a finite family of column layouts (reference a,b,c; actual one of 9 layouts incl. permuted, missing, extra columns); '
        'row counts, types_match per column and the differing-cell count are unconstrained symbols, so the proof is for all contents '
        'but only for the enumerated layouts and flag values -- other layouts are covered by the bounded layer only',
        'types_match, same_structure_ddiff, replace_cats and the message builders enter by assumed contracts (uninterpreted results); '
        'their own behaviour is audited by the bounded layer (dtype-pair laws exhaustively, cell oracle by cases)'])
    from bounded.core import attach
    attach(ctx, pb.run((PID,), tier, seed))
    from runner.core import companion_replayer
    return finish(ctx, 'other', replayers=[(r'.', companion_replayer(ctx, ('C05.',)))])
