"""C01 -- discovered constraints are satisfied by the data they came from."""
from runner.core import Context, finish

MODULES = ['contracts.constraints', 'contracts.pdcalc']
PID = 'C01'


def targets():
    import contracts.constraints as cc
    import contracts.pdcalc
    from pyvc.contracts import REGISTRY
    return [i for i, c in REGISTRY.items() if not c.assumed and 'C01' in c.props]


def run(tier, seed):
    ctx = Context(PID, tier, seed)
    # discover_field_constraints: its C07 postcondition is C07's business; C01
    # needs that it never raises (and the closure lemmas, which use that
    # postcondition as a hypothesis)
    ctx.run_deductive(MODULES, targets(),
                      keep=lambda ident, name: not ('discover_field_constraints.post.' in name))
    from props import common_constraints as cm
    cm.fill_trust(ctx)
    cm.bounded_constraints(ctx, props=('C01',))
    # categoricals whose categories are not strings (recorded finding: tdda types every categorical as a string column)
    from bounded import constraints_bounded as cb
    from bounded.core import attach
    attach(ctx, cb.run(('C01',), tier, seed, families=['category-int']))
    # the file / dict route re-reads date bounds through get_date: it must invert the text written for them
    import time
    from bounded import serial_bounded as sb
    t = time.time()
    n, bad = sb.date_text_roundtrip()
    ctx.add_exhaustive('base.get_date.inverts-the-written-date-text', n, bad[:50], time.time() - t, True,
                       sample={'domain': 'every microsecond value 0..999999 x {str(d), d.isoformat()}; every (month, day) of a leap '
                                         'year, every hour, minute, second; years 1..9999 at 9 values; date-only texts',
                               'claim': 'get_date(text written for a date bound) == that datetime'})
    return finish(ctx, 'proof', replayers=cm.REPLAYERS)
