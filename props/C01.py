"""C01 -- discovered constraints are satisfied by the data they came from."""
from runner.core import Context, finish

MODULES = ['contracts.constraints']
PID = 'C01'


def targets():
    import contracts.constraints as cc
    from pyvc.contracts import REGISTRY
    return [i for i, c in REGISTRY.items() if not c.assumed and 'C01' in c.props]


def run(tier, seed):
    ctx = Context(PID, tier, seed)
    # discover_field_constraints: its C07 postcondition is C07's business; C01
    # needs that it never raises (and the closure lemmas, which use that
    # postcondition as a hypothesis)
    ctx.run_deductive(MODULES, targets(),
                      keep=lambda ident, name: not ('discover_field_constraints.post.' in name))
    from props import common_constraints as cm
    cm.fill_trust(ctx)
    cm.bounded_constraints(ctx, props=('C01',))
    return finish(ctx, 'proof', replayers=cm.REPLAYERS)
