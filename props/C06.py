"""C06 -- detection flags exactly the violating records and agrees with verification."""
from runner.core import Context, finish

MODULES = ['contracts.constraints', 'contracts.pddetect', 'contracts.pdio']
PID = 'C06'


def targets():
    import contracts.constraints as cc
    import contracts.pddetect
    import contracts.pdio
    from pyvc.contracts import REGISTRY
    return [i for i, c in REGISTRY.items() if not c.assumed and 'C06' in c.props]


def run(tier, seed):
    ctx = Context(PID, tier, seed)
    # the verifiers' contracts: verdict does not depend on `detect`; the
    # detection hook is called iff detecting and failed, once, with the
    # constraint's own value / precision / epsilon (ghost call trace)
    ctx.run_deductive(MODULES, targets())
    from props import common_constraints as cm
    cm.fill_trust(ctx)
    ctx.trusted.append('A-pandas (detection): a column stub whose element-wise operations (comparison with a value, '
                       '.str.len(), .isin(), ~, |, pd.notnull, DataFrame.duplicated) return mask descriptions; '
                       'detection_field, pandas_types_compatible and pandas_coarse_type are assumed at that level')
    ctx.notes.append('deductive part: verify_* postconditions do not mention `detect` (verdicts identical with and '
                     'without detection) and the hook-iff / hook-args clauses; each detect_*_constraint method of the '
                     'pandas detector writes exactly one flag column, under the name of its constraint kind, holding the '
                     'record-level mask the property describes (every record for a type failure, null records for '
                     'max_nulls, duplicated-group members for no_duplicates, nulls otherwise unflagged); write_detected_records '
                     '(in-memory part, row-level frame stub): per-record failure counts, record counts, which records and '
                     'columns the detection frame holds, input frame assigned to only in place; the output file part '
                     '(index columns, type conversion, interleaving) and everything on real pandas values are decided by the '
                     'bounded layer only')
    cm.bounded_constraints(ctx, props=('C06',))
    return finish(ctx, 'other', replayers=cm.REPLAYERS)
