"""C06 -- detection flags exactly the violating records and agrees with verification."""
from runner.core import Context, finish

MODULES = ['contracts.constraints']
PID = 'C06'


def targets():
    import contracts.constraints as cc
    from pyvc.contracts import REGISTRY
    return [i for i, c in REGISTRY.items() if not c.assumed and 'C06' in c.props]


def run(tier, seed):
    ctx = Context(PID, tier, seed)
    # the verifiers' contracts: verdict does not depend on `detect`; the
    # detection hook is called iff detecting and failed, once, with the
    # constraint's own value / precision / epsilon (ghost call trace)
    ctx.run_deductive(MODULES, targets())
    from props import common_constraints as cm
    cm.fill_trust(ctx)
    ctx.notes.append('deductive part: verify_* postconditions do not mention `detect` (verdicts identical with and '
                     'without detection) and the hook-iff / hook-args clauses; record-level flag semantics, counts, '
                     'output frame/file and input-frame frame conditions are decided by the bounded layer only')
    cm.bounded_constraints(ctx, props=('C06',))
    return finish(ctx, 'other', replayers=cm.REPLAYERS)
