"""C13 -- rexpy; see DESIGN.md 5 C13."""
from props import common_rexpy as cr


def run(tier, seed):
    return cr.run('C13', tier, seed, **ARGS)

ARGS = dict(level='other', unicode_which=('escape',), brackets=True)
