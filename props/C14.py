"""C14 -- rexpy; see DESIGN.md 5 C14."""
from props import common_rexpy as cr


def run(tier, seed):
    return cr.run('C14', tier, seed, **ARGS)

ARGS = dict(level='exploration')
