"""C18 -- rexpy; see DESIGN.md 5 C18."""
from props import common_rexpy as cr


def run(tier, seed):
    return cr.run('C18', tier, seed, **ARGS)

ARGS = dict(level='other')
