"""C16 -- CSV files described by CSVW metadata load with the declared types and values."""
import time
from runner.core import Context, finish

PID = 'C16'


def run(tier, seed):
    ctx = Context(PID, tier, seed)
    import contracts.csvw
    from pyvc.contracts import REGISTRY
    ctx.run_deductive(['contracts.csvw'], [i for i, c in REGISTRY.items() if not c.assumed and PID in c.props])
    from bounded import csvw_bounded as cb
    t = time.time()
    n, bad = cb.exhaustive_formats(2 if tier == 'quick' else 3)
    ctx.add_exhaustive('csvw.date-format.tokens-with-separators', n, bad[:200], time.time() - t, True,
                       sample={'domain': 'every sequence of <= %d of the 12 documented tokens joined by separators - / . : space T'
                                         % (2 if tier == 'quick' else 3),
                               'claim': 'csvw_date_format_to_md_date_format gives the strptime directive of each token, '
                                        "separators unchanged (or 'ISO8601' when the result is the ISO layout)", 'n': n})
    t = time.time()
    n2, bad2 = cb.table_obligations()
    ctx.add_exhaustive('csvw.type-tables.total-and-composable', n2, bad2, time.time() - t, True,
                       sample={'domain': 'the %d documented CSVW datatypes' % n2,
                               'claim': 'CSVW_TYPE_TO_MTYPE then MTYPE_TO_PANDAS_DTYPE give the dtype family (or a date parser)'})
    ctx.trusted.extend(['A-str: str.replace is leftmost, non-overlapping (the token result extends to longer separator-delimited '
                        'formats because no separator occurs in a pattern or a replacement; audited up to the stated length)',
                        'pandas.read_csv, datetime.strptime'])
    ctx.assumptions.extend(['formats with adjacent tokens (no separator) are outside the property and not judged'])
    from bounded.core import attach
    attach(ctx, cb.run((PID,), tier, seed))
    from runner.core import companion_replayer
    return finish(ctx, 'other', replayers=[(r'.', companion_replayer(ctx, ('C16.',)))])
