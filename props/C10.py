"""C10 -- references are rewritten only on request; a regenerated reference passes."""
from runner.core import Context, finish

MODULES = ['contracts.reftest']
PID = 'C10'

TRUSTED = [
    'A-fs: the primitive effect table (open(..., w/wb/a) adds the path to the ghost write set; a call to a '
    'function without contract is out of reach, so a frame cannot be discharged by ignorance)',
    'assumed callee frames: FilesComparison.check_* and PandasComparison.check_*/assertDataFramesEqual write only '
    'under tmp_dir (C15 proves/audits this); PandasComparison._write_reference_dataframe* write exactly the path given',
    'path resolution is a function of (path, kind): resolve_ref',
    'precondition (DESIGN C10): the reference file is not one of the temporary names under tmp_dir',
    'z3 / cvc5; pyvc encoding of the Python subset',
]


def targets():
    import contracts.reftest
    from pyvc.contracts import REGISTRY
    return [i for i, c in REGISTRY.items() if not c.assumed and 'C10' in c.props]


def run(tier, seed):
    ctx = Context(PID, tier, seed)
    ctx.run_deductive(MODULES, targets())
    ctx.trusted.extend(TRUSTED)
    ctx.assumptions.extend(['TERMINATION not verified',
                            'the regeneration table is only reachable through ReferenceTest.regenerate '
                            '(class attribute); histories of set_regeneration calls are covered by the '
                            'one-key-update postcondition'])
    from bounded import reftest_bounded as rb
    from bounded.core import attach
    attach(ctx, rb.run(('C10',), tier, seed))
    from runner.core import companion_replayer
    return finish(ctx, 'other', replayers=[(r'.', companion_replayer(ctx, ('C10.',)))])
