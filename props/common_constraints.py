"""Shared pieces for C01/C02/C06/C07/C08: trusted base, replay, bounded drivers."""

TRUSTED = [
    'A-calc.*: assumed contracts on tdda/constraints/extension.py::BaseConstraintCalculator '
    '(column_exists, is_null, to_datetime, types_compatible, calc_tdda_type, calc_min/max, '
    'calc_min/max_length, calc_null_count, calc_non_null_count, calc_nunique, calc_unique_values, '
    'calc_non_integer_values_count, calc_all_non_nulls_boolean, calc_rex_constraint); audited on the '
    'real pandas calculator by the bounded layer',
    'A-pandas (statistics): for the pandas route, calc_min / calc_max / calc_min_length / calc_max_length / calc_null_count / '
    'calc_non_null_count / calc_nunique / calc_tdda_type / get_nrecords of PandasConstraintCalculator are VERIFIED against '
    'the A-calc clauses over a stub of the pandas objects (len, count, min, max, dropna, str.len, nunique at their pandas '
    'meaning); the remaining calculator methods stay assumed',
    'A-card: ghost counts of the column view (nn + n0 = N; nn > 0 iff a non-null row exists; '
    'nunique = nn iff non-null rows pairwise distinct; nunique >= 1 iff nn >= 1)',
    'A-pigeonhole: all non-null values in a list L implies nunique <= len(L)',
    'A-re: rex_matches(r, s) stands for re.match(re.compile(r, UNICODE|DOTALL), s)',
    'z3 4.x/5.1 (SMT solver), cvc5 1.0.3 as second opinion',
    'pyvc encoding of the Python subset (DESIGN 2.2), cross-checked against CPython by replay',
]
ASSUMPTIONS = [
    'FP-REAL: floats are mathematical reals in the proofs; NaN/NaT/None are one null value; +-inf not modelled '
    '(the bounded layer runs real floats incl. inf and 17-digit values)',
    'A-homog: a column holds values of one tdda type (object columns mixing str and bool are not modelled)',
    'well-formed constraint set: values have the types the constructors/loader produce; min/max bounds are '
    'null, numeric or datetime; date-valued bounds only on date fields; epsilon >= 0',
    'TERMINATION not verified',
    'aliasing: list.append on a symbolic list rebinds the variable (no two names for one symbolic list in '
    'the functions under contract)',
]


_PD_CALC = ('get_nrecords', 'calc_tdda_type', 'calc_null_count', 'calc_non_null_count', 'calc_nunique', 'calc_min',
            'calc_max', 'calc_min_length', 'calc_max_length')


def fill_trust(ctx):
    ctx.trusted.extend(TRUSTED)
    ctx.assumptions.extend(ASSUMPTIONS)
    # the abstract interface stays an assumption of the shared layer; say where an implementation is itself verified
    for name, how in list(ctx.assumed_callees.items()):
        short = name.split('.')[-1]
        if name.startswith('BaseConstraintCalculator.') and short in _PD_CALC:
            ctx.assumed_callees[name] = how + (' (interface contract; the pandas implementation of this method is verified '
                                               'against the same clauses in contracts.pdcalc, the database one is verified to '
                                               'hand on the handler query of the same name in contracts.dbcalc)')
        elif name.startswith('BaseConstraintDetector.detect_'):
            ctx.assumed_callees[name] = how + (' (interface hook; the pandas detector method of this name is verified in '
                                               'contracts.pddetect)')


def bounded_constraints(ctx, props):
    from bounded import constraints_bounded as cb
    from bounded.core import attach
    b = cb.run(props, ctx.tier, ctx.seed)
    attach(ctx, b)


from runner.native_constraints import REPLAYERS    # native replay of deductive counter-models
