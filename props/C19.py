"""C19 -- tagged runs execute exactly the tagged tests; listing runs none."""
from runner.core import Context, finish

MODULES = ['contracts.reftest']
PID = 'C19'


def targets():
    import contracts.reftest
    from pyvc.contracts import REGISTRY
    return [i for i, c in REGISTRY.items() if not c.assumed and 'C19' in c.props]


def run(tier, seed):
    ctx = Context(PID, tier, seed)
    ctx.run_deductive(MODULES, targets())
    ctx.trusted.extend(['A-unittest: TestLoader / unittest.main behaviour (discovery, name loading, argument parsing)',
                        'z3; pyvc encoding of the Python subset'])
    ctx.assumptions.extend(['TERMINATION not verified',
                            'argv sequences whose meaning the documents do not fix (tdda single-dash flags after a '
                            'non-single-dash argument; options after a --write option; repeated spellings) are not judged'])
    ctx.notes.append('deductive part: the tag decorator and the loader selection of _run_tests; the argv scanner is '
                     'a per-character string loop outside the SMT subset and is decided by exhaustive enumeration of '
                     'the spelling family up to the stated length (bounded), tag selection by generated modules (bounded)')
    from bounded import reftest_bounded as rb
    from bounded.core import attach
    attach(ctx, rb.run(('C19',), tier, seed))
    return finish(ctx, 'other')
