"""C09 -- .tdda files round-trip: same text, same verdicts, unknown keys ignored."""
from runner.core import Context, finish

MODULES = ['contracts.serial']
PID = 'C09'


def targets():
    import contracts.serial
    from pyvc.contracts import REGISTRY
    return [i for i, c in REGISTRY.items() if not c.assumed and 'C09' in c.props]


def run(tier, seed):
    ctx = Context(PID, tier, seed)
    ctx.run_deductive(MODULES, targets())
    ctx.trusted.extend(['A-json: json.loads(json.dumps(x)) == x on JSON values; ensure_ascii=False emits valid UTF-8',
                        'z3; pyvc encoding of the Python subset'])
    ctx.assumptions.extend(['TERMINATION not verified',
                            'creation metadata (e.g. the tddafile path recorded on load) is not part of the constraint set'])
    ctx.notes.append('deductive part: to_preferred_order (all key sets of <= 3 of 7 representative keys, enumerated, symbolic '
                     'execution of the real body), Constraint/Min/MaxConstraint.to_dict_value for every value type x precision, '
                     'get_date on non-strings; initialize_from_dict / to_json / load end to end are bounded')
    from bounded import serial_bounded as sb
    from bounded.core import attach
    import time
    t = time.time()
    n, bad = sb.date_text_roundtrip()
    ctx.add_exhaustive('base.get_date.inverts-the-written-date-text', n, bad[:50], time.time() - t, True,
                       sample={'domain': 'every microsecond value 0..999999 x {str(d), d.isoformat()}; every (month, day) of a leap '
                                         'year, every hour, minute, second; years 1..9999 at 9 values; date-only texts',
                               'claim': 'get_date(text written for a date bound) == that datetime'})
    attach(ctx, sb.run((PID,), tier, seed))
    from runner.core import companion_replayer
    return finish(ctx, 'other', replayers=[(r'.', companion_replayer(ctx, ('C09.',)))])
