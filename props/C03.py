"""C03 -- rexpy; see DESIGN.md 5 C03."""
from props import common_rexpy as cr


def run(tier, seed):
    return cr.run('C03', tier, seed, **ARGS)

ARGS = dict(level='other', unicode_which=('coarse', 'fine', 'escape', 'portable.Digit'), brackets=True)
