"""Shared pieces for C03 / C13 / C14 / C18."""
from runner.core import Context, finish

TRUSTED = [
    'A-re: Python re semantics (concatenation, quantifiers, groups, anchors, UNICODE|DOTALL) are the meaning of every '
    'expression; "matched in full" is re.match of the ^...$ anchored expression, as tdda applies it',
    'exhaustive-domain obligations are evaluated on the real functions over complete finite domains (all 1,112,064 '
    'Unicode scalar values; all sets of 2..k ASCII punctuation characters)',
]
ASSUMPTIONS = ['TERMINATION not verified',
               'the end-to-end pipeline (1,500 lines of string processing ending in re) is decided by bounded runtime '
               'contracts only; bounds are stated in coverage.bounded_layer.bound']


def unicode_obligations(ctx, which):
    from bounded import rexpy_bounded as rb
    tot, secs = rb.exhaustive_unicode()
    names = {
        'coarse': 'coarse_classify_char(c) returns a code whose class expression matches c',
        'fine': 'fine_class(c) returns a code whose class expression matches c',
        'escape': 'escape(c) is an expression that matches exactly c',
        'portable.Digit': 'portable/grep Digit class contains every character fine_class sends to Digit',
    }
    for k in which:
        ctx.add_exhaustive('rexpy.unicode.%s' % k, tot['n'],
                           [{'codepoint': cp, 'char': chr(cp), 'claim': names[k]} for cp in tot[k][:2000]],
                           secs / len(which), True,
                           sample={'domain': 'all Unicode scalar values', 'claim': names[k], 'n': tot['n']})


def bracket_obligation(ctx, max_size):
    from bounded import rexpy_bounded as rb
    n, bad, secs = rb.exhaustive_brackets(max_size)
    ctx.add_exhaustive('rexpy.escaped_bracket.denotes-its-set', n,
                       [{'chars': c, 'bracket': r} for c, r in bad[:200]], secs, True,
                       sample={'domain': 'all sets of 2..%d ASCII punctuation characters' % max_size,
                               'claim': 'escaped_bracket(chars) compiles and matches exactly set(chars) over Latin-1',
                               'n': n})


def run(pid, tier, seed, level, unicode_which=(), brackets=False, deductive=None):
    ctx = Context(pid, tier, seed)
    import contracts.rexpy
    from pyvc.contracts import REGISTRY
    idents = [i for i, c in REGISTRY.items() if not c.assumed and pid in c.props]
    if idents:
        ctx.run_deductive(['contracts.rexpy'], idents)
        ctx.trusted.append('z3; pyvc encoding of the Python subset (structured text for string building)')
    if unicode_which:
        unicode_obligations(ctx, unicode_which)
    if brackets:
        bracket_obligation(ctx, 4 if tier == 'quick' else 5)
    ctx.trusted.extend(TRUSTED)
    ctx.assumptions.extend(ASSUMPTIONS)
    from bounded import rexpy_bounded as rb
    from bounded.core import attach
    attach(ctx, rb.run((pid,), tier, seed))
    return finish(ctx, level)
