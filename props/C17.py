"""C17 -- the tdda command line gives the same constraints and verdicts as the library."""
from runner.core import Context, finish

MODULES = ['contracts.cli', 'contracts.pdio']
PID = 'C17'


def targets():
    import contracts.cli
    import contracts.pdio
    from pyvc.contracts import REGISTRY
    return [i for i, c in REGISTRY.items() if not c.assumed and 'C17' in c.props]


def run(tier, seed):
    ctx = Context(PID, tier, seed)
    ctx.run_deductive(MODULES, targets())
    ctx.trusted.extend(['A-argparse: parse_known_args returns (namespace, unrecognised arguments); store_true flags are booleans, '
                        '--epsilon a float, -t one of its choices',
                        'pandas CSV/parquet readers and writers', 'z3; pyvc encoding of the Python subset'])
    ctx.assumptions.extend(['TERMINATION not verified',
                            'cross-process equality is sampled only (3 subprocess runs); the rest runs main_with_argv in-process'])
    ctx.notes.append('deductive part: discover_flags / verify_flags / detect_flags against the documented meaning of every flag '
                     '(all flag combinations symbolically, incl. the SystemExit cases); file front-ends and dispatch are bounded')
    from bounded import cli_bounded as cb
    from bounded.core import attach
    attach(ctx, cb.run((PID,), tier, seed))
    return finish(ctx, 'other')
