"""C07 -- discovery reports exact statistics of the data."""
from runner.core import Context, finish

MODULES = ['contracts.constraints']
PID = 'C07'


def targets():
    import contracts.constraints as cc
    from pyvc.contracts import REGISTRY
    return [i for i, c in REGISTRY.items() if not c.assumed and 'C07' in c.props]


def run(tier, seed):
    ctx = Context(PID, tier, seed)
    ctx.run_deductive(MODULES, targets())
    from props import common_constraints as cm
    cm.fill_trust(ctx)
    cm.bounded_constraints(ctx, props=('C07',))
    return finish(ctx, 'proof', replayers=cm.REPLAYERS)
