"""C07 -- discovery reports exact statistics of the data."""
from runner.core import Context, finish

MODULES = ['contracts.constraints', 'contracts.pdcalc']
PID = 'C07'


def targets():
    import contracts.constraints as cc
    import contracts.pdcalc
    from pyvc.contracts import REGISTRY
    return [i for i, c in REGISTRY.items() if not c.assumed and 'C07' in c.props]


def run(tier, seed):
    ctx = Context(PID, tier, seed)
    ctx.run_deductive(MODULES, targets())
    from props import common_constraints as cm
    cm.fill_trust(ctx)
    cm.bounded_constraints(ctx, props=('C07',))
    # the SQLite route reports the same exact statistics (the calculator audit of C08's driver; only the C07.* contracts
    # count here)
    from bounded import db_bounded
    from bounded.core import attach
    db = db_bounded.run(('C07',), tier, seed)
    db.failures = [f for f in db.failures if f[0].startswith('C07.')]
    db.contracts = {k: v for k, v in db.contracts.items() if k.startswith('C07.')}
    attach(ctx, db)
    return finish(ctx, 'proof', replayers=cm.REPLAYERS)
