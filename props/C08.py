"""C08 -- database discovery is sound and database verification notices violating rows."""
from runner.core import Context, finish

MODULES = ['contracts.constraints', 'contracts.dbcalc']
PID = 'C08'


def targets():
    import contracts.constraints as cc
    import contracts.dbcalc
    from pyvc.contracts import REGISTRY
    return [i for i, c in REGISTRY.items() if not c.assumed and 'C08' in c.props]


def run(tier, seed):
    ctx = Context(PID, tier, seed)
    # the generic layer is the same code as C01/C02/C07: discovery's strongest
    # postcondition and the verifiers' iff-postconditions (whose only-if direction
    # is the sensitivity claim), plus the database instance of types_compatible
    ctx.run_deductive(MODULES, targets(),
                      keep=lambda ident, name: not ('discover_field_constraints.post.no_duplicates' in name))
    from props import common_constraints as cm
    cm.fill_trust(ctx)
    ctx.trusted.append('A-sqlite: SQL aggregate semantics (MIN/MAX/COUNT/LENGTH/DISTINCT, REGEXP callback); the SQL '
                       'calculator is audited against the column view on generated tables by the bounded layer')
    ctx.notes.append('discover_field_constraints.post.no_duplicates is C07\'s obligation (known finding there) and is not '
                     'counted here; SQL text construction (drivers.py) is exercised only by the bounded layer')
    from bounded import db_bounded as db
    from bounded.core import attach
    attach(ctx, db.run((PID,), tier, seed))
    return finish(ctx, 'proof')
