"""C02 -- verification verdicts equal the documented meaning of each constraint."""
from runner.core import Context, finish

MODULES = ['contracts.constraints', 'contracts.pdcalc']
PID = 'C02'


def targets():
    import contracts.constraints as cc
    import contracts.pdcalc
    from pyvc.contracts import REGISTRY
    return [i for i, c in REGISTRY.items() if not c.assumed and 'C02' in c.props]


def run(tier, seed):
    ctx = Context(PID, tier, seed)
    ctx.run_deductive(MODULES, targets())
    from props import common_constraints as cm
    cm.fill_trust(ctx)
    if True:
        cm.bounded_constraints(ctx, props=('C02',))
    return finish(ctx, 'proof', replayers=cm.REPLAYERS)
