"""
Sidecar contract for tdda/referencetest/gentest.py::is_date_like (C11):
every datetime.datetime(Y, M, D) call site respects the constructor's
precondition given only what the regular-expression groups guarantee.
"""
import z3

from pyvc.contracts import contract, Contract, LoopSpec, REGISTRY
from pyvc.sym import (T, TD, SObj, SBool, SInt, SStr, SDate, Sym, Unsupported)
from pyvc.ops import zbool, truth, PyExc
from pyvc.interp import Builtin, specfn
from pyvc import extract
from specs.sym_prims import PRIMS

GT = 'tdda/referencetest/gentest.py::'


def _digits(it, lo, hi, name):
    """A regex group \\d{lo,hi}: int() of it is a natural below 10**hi."""
    z = z3.Int(it.path.fresh_name(name))
    it.path.assume(z3.And(z >= 0, z < 10 ** hi))
    return SObj('digits', {'__int__': SInt(z), '__open__': False})


def _setup(it, senv):
    RX = {}
    for n in ('D2', 'NUM_DATE_RE', 'EURO_STR_DATE_RE', 'US_STR_DATE_RE'):
        RX[n] = SObj('regex', {'name': n, '__open__': False})
        it.spec_env[n] = RX[n]

    def re_match(it2, rx, line, *a):
        if not isinstance(rx, SObj):
            raise Unsupported('re.match on an unknown pattern')
        n = rx.attrs['name']
        if not it2.path.branch(z3.Bool(it2.path.fresh_name('matches.' + n))):
            return None
        m = SObj('Match', {'__open__': False}, label='m')
        if n == 'NUM_DATE_RE':
            groups = {1: it2.fresh_str('g1'), 2: _digits(it2, 1, 4, 'n1'), 3: _digits(it2, 1, 2, 'n2'),
                      4: _digits(it2, 1, 4, 'n3')}
        elif n == 'EURO_STR_DATE_RE':
            groups = {1: it2.fresh_str('g1'), 2: _digits(it2, 1, 2, 'D'), 3: SObj('monthname', {'__open__': False, '__sliceable__': True}),
                      4: _digits(it2, 2, 4, 'Y')}
        elif n == 'US_STR_DATE_RE':
            groups = {1: it2.fresh_str('g1'), 2: SObj('monthname', {'__open__': False, '__sliceable__': True}), 3: _digits(it2, 1, 2, 'D'),
                      4: _digits(it2, 2, 4, 'Y')}
        else:
            groups = {}
        m.methods['group'] = Builtin(lambda it3, self, i: groups[i])
        return m
    it.spec_env['re'] = SObj('re-module', {'match': Builtin(re_match), '__open__': False})

    # int(<digits>) and the month table
    from pyvc.builtins import BUILTINS
    orig_int = BUILTINS['int']

    def b_int(it2, v=0, base=None):
        if isinstance(v, SObj) and '__int__' in v.attrs:
            return v.attrs['__int__']
        return orig_int.fn(it2, v, base) if base is not None else orig_int.fn(it2, v)
    bi = Builtin(b_int)
    bi.pytype = int
    it.spec_env['int'] = bi

    def month_of(it2, self, key):
        z = z3.Int(it2.path.fresh_name('month'))
        it2.path.assume(z3.And(z >= 1, z <= 12))
        return SInt(z)
    mm = SObj('MONTH_MAP', {'__open__': False})
    mm.methods['__getitem__'] = Builtin(month_of)
    it.spec_env['MONTH_MAP'] = mm
    # slicing a month name yields an opaque key
    # (handled by SObj item protocol below)

    def ctor(it2, kind, args, kw):
        """datetime.datetime(Y, M, D): raises ValueError unless the fields form a date."""
        from pyvc.sym import num_z
        if len(args) != 3:
            raise Unsupported('datetime constructor with %d args' % len(args))
        y, m, d = [num_z(a)[0] for a in args]
        leap = z3.And(y % 4 == 0, z3.Or(y % 100 != 0, y % 400 == 0))
        dim = z3.If(z3.Or(m == 4, m == 6, m == 9, m == 11), 30, z3.If(m == 2, z3.If(leap, 29, 28), 31))
        valid = z3.And(y >= 1, y <= 9999, m >= 1, m <= 12, d >= 1, d <= dim)
        if not it2.path.branch(valid):
            raise PyExc('ValueError', 'field values are not a date')
        return it2.fresh(T.datetime, 'dt')
    it.spec_env['__datetime_ctor__'] = Builtin(ctor).fn


class _MonthName(object):
    pass


contract(GT + 'is_date_like', props=['C11'],
         params=dict(line=T.str, inc_alpha=T.bool,
                     min_time=T.opt(T.datetime), max_time=T.opt(T.datetime)),
         on_entry=_setup, spec_env=dict(PRIMS), result=T.opaque,
         requires=[('time-window-given-as-a-pair', '(min_time is None) == (max_time is None)')],
         inline=[GT + 'poss_date'],
         ensures=[('returns-a-match-or-None', 'result is None or result.__class__.__name__ == "Match"')])


# ---------------------------------------------------------------------------
# TestGenerator.test_name (C12): every generated test method has a name of its
# own.  A name handed out twice means the later method silently replaces the
# earlier one in the generated class, i.e. one output is never checked.
# The set of names already taken is an arbitrary (uninterpreted) set.
# ---------------------------------------------------------------------------
from pyvc.sym import StrS
from pyvc.ops import strz

_TAKEN = z3.Function('name_already_taken', StrS, z3.BoolSort())


def _namegen_view(it):
    rc = extract.load_module('tdda/referencetest/gentest.py').classes['TestGenerator']
    added = []
    it.ghost['names_added'] = added

    def contains(x):
        xz = strz(it, x)
        return SBool(z3.Or(_TAKEN(xz), *[xz == strz(it, a) for a in added]))
    names = SObj('set', {'__contains__': contains, '__open__': False}, label='test_names')
    names.methods['add'] = Builtin(lambda it2, self, x: added.append(x), 'set.add')
    o = SObj('TestGenerator', {'test_names': names, 'test_qualifier': it.fresh(T.nat, 'test_qualifier')}, label='self')
    o.repo_class = rc
    return o


@specfn
def was_taken(it, name):
    return SBool(_TAKEN(strz(it, name)))


@specfn
def recorded(it, name):
    added = it.ghost.get('names_added', [])
    if not added:
        return False
    return SBool(z3.Or(*[strz(it, name) == strz(it, a) for a in added]))


contract(GT + 'TestGenerator.test_name', props=['C12', 'C11'],
         params=dict(path=T.enum('out/report.txt', 'x', 'a/b/x2', 'dir/STDOUT')),
         self_view=_namegen_view, spec_env=dict(PRIMS, was_taken=was_taken, recorded=recorded),
         loops={1: LoopSpec([('qualifier-is-a-count', 'self.test_qualifier >= 0')],
                            havoc={'testname': T.str, 'self.test_qualifier': T.nat})},
         ensures=[('name-not-handed-out-before', 'not was_taken(result)'),
                  ('name-recorded-as-taken', 'recorded(result)')])
