"""
Sidecar contract for tdda/referencetest/gentest.py::is_date_like (C11):
every datetime.datetime(Y, M, D) call site respects the constructor's
precondition given only what the regular-expression groups guarantee.
"""
import z3

from pyvc.contracts import contract, Contract, LoopSpec, REGISTRY
from pyvc.sym import (T, TD, SObj, SBool, SInt, SStr, SDate, Sym, Unsupported)
from pyvc.ops import zbool, truth, PyExc
from pyvc.interp import Builtin, specfn
from pyvc import extract
from specs.sym_prims import PRIMS

GT = 'tdda/referencetest/gentest.py::'


def _digits(it, lo, hi, name):
    """A regex group \\d{lo,hi}: int() of it is a natural below 10**hi."""
    z = z3.Int(it.path.fresh_name(name))
    it.path.assume(z3.And(z >= 0, z < 10 ** hi))
    return SObj('digits', {'__int__': SInt(z), '__open__': False})


def _setup(it, senv):
    RX = {}
    for n in ('D2', 'NUM_DATE_RE', 'EURO_STR_DATE_RE', 'US_STR_DATE_RE'):
        RX[n] = SObj('regex', {'name': n, '__open__': False})
        it.spec_env[n] = RX[n]

    def re_match(it2, rx, line, *a):
        if not isinstance(rx, SObj):
            raise Unsupported('re.match on an unknown pattern')
        n = rx.attrs['name']
        if not it2.path.branch(z3.Bool(it2.path.fresh_name('matches.' + n))):
            return None
        m = SObj('Match', {'__open__': False}, label='m')
        if n == 'NUM_DATE_RE':
            groups = {1: it2.fresh_str('g1'), 2: _digits(it2, 1, 4, 'n1'), 3: _digits(it2, 1, 2, 'n2'),
                      4: _digits(it2, 1, 4, 'n3')}
        elif n == 'EURO_STR_DATE_RE':
            groups = {1: it2.fresh_str('g1'), 2: _digits(it2, 1, 2, 'D'), 3: SObj('monthname', {'__open__': False, '__sliceable__': True}),
                      4: _digits(it2, 2, 4, 'Y')}
        elif n == 'US_STR_DATE_RE':
            groups = {1: it2.fresh_str('g1'), 2: SObj('monthname', {'__open__': False, '__sliceable__': True}), 3: _digits(it2, 1, 2, 'D'),
                      4: _digits(it2, 2, 4, 'Y')}
        else:
            groups = {}
        m.methods['group'] = Builtin(lambda it3, self, i: groups[i])
        return m
    it.spec_env['re'] = SObj('re-module', {'match': Builtin(re_match), '__open__': False})

    # int(<digits>) and the month table
    from pyvc.builtins import BUILTINS
    orig_int = BUILTINS['int']

    def b_int(it2, v=0, base=None):
        if isinstance(v, SObj) and '__int__' in v.attrs:
            return v.attrs['__int__']
        return orig_int.fn(it2, v, base) if base is not None else orig_int.fn(it2, v)
    bi = Builtin(b_int)
    bi.pytype = int
    it.spec_env['int'] = bi

    def month_of(it2, self, key):
        z = z3.Int(it2.path.fresh_name('month'))
        it2.path.assume(z3.And(z >= 1, z <= 12))
        return SInt(z)
    mm = SObj('MONTH_MAP', {'__open__': False})
    mm.methods['__getitem__'] = Builtin(month_of)
    it.spec_env['MONTH_MAP'] = mm
    # slicing a month name yields an opaque key
    # (handled by SObj item protocol below)

    def ctor(it2, kind, args, kw):
        """datetime.datetime(Y, M, D): raises ValueError unless the fields form a date."""
        from pyvc.sym import num_z
        if len(args) != 3:
            raise Unsupported('datetime constructor with %d args' % len(args))
        y, m, d = [num_z(a)[0] for a in args]
        leap = z3.And(y % 4 == 0, z3.Or(y % 100 != 0, y % 400 == 0))
        dim = z3.If(z3.Or(m == 4, m == 6, m == 9, m == 11), 30, z3.If(m == 2, z3.If(leap, 29, 28), 31))
        valid = z3.And(y >= 1, y <= 9999, m >= 1, m <= 12, d >= 1, d <= dim)
        if not it2.path.branch(valid):
            raise PyExc('ValueError', 'field values are not a date')
        return it2.fresh(T.datetime, 'dt')
    it.spec_env['__datetime_ctor__'] = Builtin(ctor).fn


class _MonthName(object):
    pass


contract(GT + 'is_date_like', props=['C11'],
         params=dict(line=T.str, inc_alpha=T.bool,
                     min_time=T.opt(T.datetime), max_time=T.opt(T.datetime)),
         on_entry=_setup, spec_env=dict(PRIMS), result=T.opaque,
         requires=[('time-window-given-as-a-pair', '(min_time is None) == (max_time is None)')],
         inline=[GT + 'poss_date'],
         ensures=[('returns-a-match-or-None', 'result is None or result.__class__.__name__ == "Match"')])


# ---------------------------------------------------------------------------
# TestGenerator.test_name (C12): every generated test method has a name of its
# own.  A name handed out twice means the later method silently replaces the
# earlier one in the generated class, i.e. one output is never checked.
# The set of names already taken is an arbitrary (uninterpreted) set.
# ---------------------------------------------------------------------------
from pyvc.sym import StrS
from pyvc.ops import strz

_TAKEN = z3.Function('name_already_taken', StrS, z3.BoolSort())


def _namegen_view(it):
    rc = extract.load_module('tdda/referencetest/gentest.py').classes['TestGenerator']
    added = []
    it.ghost['names_added'] = added

    def contains(x):
        xz = strz(it, x)
        return SBool(z3.Or(_TAKEN(xz), *[xz == strz(it, a) for a in added]))
    names = SObj('set', {'__contains__': contains, '__open__': False}, label='test_names')
    names.methods['add'] = Builtin(lambda it2, self, x: added.append(x), 'set.add')
    o = SObj('TestGenerator', {'test_names': names, 'test_qualifier': it.fresh(T.nat, 'test_qualifier')}, label='self')
    o.repo_class = rc
    return o


@specfn
def was_taken(it, name):
    return SBool(_TAKEN(strz(it, name)))


@specfn
def recorded(it, name):
    added = it.ghost.get('names_added', [])
    if not added:
        return False
    return SBool(z3.Or(*[strz(it, name) == strz(it, a) for a in added]))


contract(GT + 'TestGenerator.test_name', props=['C12', 'C11'],
         params=dict(path=T.enum('out/report.txt', 'x', 'a/b/x2', 'dir/STDOUT')),
         self_view=_namegen_view, spec_env=dict(PRIMS, was_taken=was_taken, recorded=recorded),
         loops={1: LoopSpec([('qualifier-is-a-count', 'self.test_qualifier >= 0')],
                            havoc={'testname': T.str, 'self.test_qualifier': T.nat})},
         ensures=[('name-not-handed-out-before', 'not was_taken(result)'),
                  ('name-recorded-as-taken', 'recorded(result)')])


# ---------------------------------------------------------------------------
# TestGenerator.write_script (C11 / C12): which checks the generated script
# contains.  The text of each test (test_def) and of the header is abstract;
# what is decided is the sequence of test definitions written to the script:
# stdout and stderr checks when requested, each with ITS OWN exclusions, and
# exactly one check per reference file - under the name test_name() hands out,
# comparing the file itself with its (possibly re-mapped) reference, as text
# with that file's exclusions and encoding or as binary - and nothing written
# anywhere but the script.
# ---------------------------------------------------------------------------
from collections import OrderedDict as _OD2


def _ws_view(it):
    rc = extract.load_module('tdda/referencetest/gentest.py').classes['TestGenerator']
    nfiles = it.path.choose([True] * 3)
    files = [it.fresh_str('outfile%d' % i) for i in range(nfiles)]
    for a in range(nfiles):
        for b in range(a + 1, nfiles):
            it.path.assume(files[a].z != files[b].z)
    g = {'files': files, 'defs': [], 'writes': [], 'names': {}, 'short': {}, 'ftype': {}, 'mapped': {}}
    it.ghost['ws'] = g

    def tag(kind, *parts):
        return SObj('text', {'kind': kind, 'parts': list(parts), '__open__': False})
    excl = _OD2()
    for key in ('STDOUT', 'STDERR'):
        if it.path.choose([True, True]) == 1:
            excl[key] = (tag('patterns', key), tag('removals', key), tag('substrings', key))
    shorts = [it.fresh_str('short%d' % i) for i in range(nfiles)]
    exclusions = SObj('dict', {'__open__': False}, label='exclusions')

    def excl_get(it2, self, k, default=None):
        if isinstance(k, str):
            return excl.get(k, default)
        for i, s in enumerate(shorts):
            if s is k:
                return g['short'][i]['exc']
        return default
    exclusions.methods['get'] = Builtin(excl_get, 'dict.get')
    filetypes = SObj('dict', {'__open__': False}, label='filetypes')

    def ft_get(it2, self, k, default=None):
        for i, s in enumerate(shorts):
            if s is k:
                return g['short'][i]['ftype']
        return default
    filetypes.methods['get'] = Builtin(ft_get, 'dict.get')
    ref_map = SObj('dict', {'__open__': False}, label='ref_map')

    def rm_get(it2, self, k, default=None):
        for i, f in enumerate(files):
            if f is k:
                return g['mapped'][i] if g['mapped'][i] is not None else default
        return default
    ref_map.methods['get'] = Builtin(rm_get, 'dict.get')
    for i in range(nfiles):
        has_exc = it.path.choose([True, True]) == 1
        is_text = it.fresh(T.bool, 'is_text%d' % i)
        g['short'][i] = {'exc': (tag('patterns', i), tag('removals', i), tag('substrings', i)) if has_exc else None,
                         'ftype': SObj('FileType', {'text': is_text, 'encoding': it.fresh_str('enc%d' % i),
                                                    '__open__': False})}
        g['mapped'][i] = it.fresh_str('mapped_ref%d' % i) if it.path.choose([True, True]) == 1 else None
    o = SObj('TestGenerator', {
        'results': {1: SObj('Result', {'exit_code': it.fresh(T.int, 'exit_code'), '__open__': False})},
        'reference_files': {1: files}, 'tmpdir_used': it.fresh(T.bool, 'tmpdir_used'),
        'tmp_dir_shell_var': 'TMPDIR', 'script': it.fresh_str('script'), 'raw_script': 'test_x.py',
        'command': it.fresh_str('command'), 'cwd': it.fresh_str('cwd'),
        'check_stdout': it.fresh(T.bool, 'check_stdout'), 'check_stderr': it.fresh(T.bool, 'check_stderr'),
        'exclusions': exclusions, 'filetypes': filetypes, 'ref_map': ref_map}, label='self')
    o.repo_class = rc

    def meth(name, fn):
        o.methods[name] = Builtin(fn, 'TestGenerator.' + name)
    meth('generated_file_paths', lambda it2, self, in_cls=False: [])
    meth('cli_command', lambda it2, self, zec=None: it2.fresh_str('cli'))
    meth('ref_subdir', lambda it2, self: 'refsub')
    meth('generated_files_var', lambda it2, self: it2.fresh_str('gfv'))
    meth('remove_previous_outputs', lambda it2, self: it2.fresh_str('rpo'))
    meth('stdout_path', lambda it2, self, run=1: 'REF/STDOUT')
    meth('stderr_path', lambda it2, self, run=1: 'REF/STDERR')
    meth('abs_or_rel', lambda it2, self, p: p)

    def ref_path(it2, self, path, run=1):
        return tag('default_ref', path)
    meth('ref_path', ref_path)

    def test_name(it2, self, path):
        for i, f in enumerate(files):
            if f is path:
                n = it2.fresh_str('testname%d' % i)
                g['names'].setdefault(i, []).append(n)
                return n
        raise Unsupported('test_name of an unknown path')
    meth('test_name', test_name)
    g['shorts'] = shorts
    g['excl'] = excl
    g['tag'] = tag
    return o


def _ws_entry(it, senv):
    g = it.ghost['ws']
    files, shorts, tag = g['files'], g['shorts'], g['tag']

    def as_join_repr(it2, path, cwd, name=None, as_pwd=None, inc_tmpdir=False, **kw):
        return tag('joined', path, inc_tmpdir)
    it.spec_env['as_join_repr'] = Builtin(as_join_repr, 'as_join_repr')
    it.spec_env['istmpfile'] = Builtin(lambda it2, p: it2.fresh(T.bool, 'istmp'), 'istmpfile')
    it.spec_env['FileType'] = Builtin(lambda it2, p: SObj('FileType', {'text': it2.fresh(T.bool, 'ft_text'),
                                                                      'encoding': None, '__open__': False}), 'FileType')
    it.spec_env['HEADER'] = '%(SCRIPT)s'
    it.spec_env['TAIL'] = 'TAIL'
    it.spec_env['TMPDIR'] = '/tmp/x'
    it.spec_env['print'] = Builtin(lambda it2, *a, **k: None, 'print')

    def test_def(it2, name, actual, kind, ref_file_path, patterns=None, removals=None, substrings=None, encoding=None):
        d = dict(name=name, actual=actual, kind=kind, ref=ref_file_path, patterns=patterns, removals=removals,
                 substrings=substrings, encoding=encoding)
        g['defs'].append(d)
        return SObj('text', {'kind': 'test_def', 'parts': [len(g['defs']) - 1], '__open__': False})
    it.spec_env['test_def'] = Builtin(test_def, 'test_def')

    def split(it2, p):
        # os.path.split(ref_path)[1]: the short name the exclusions / file types are keyed by
        for i, f in enumerate(files):
            m = g['mapped'][i]
            if (m is not None and p is m) or (isinstance(p, SObj) and p.attrs.get('kind') == 'default_ref'
                                              and p.attrs['parts'][0] is f):
                return (it2.fresh_str('head'), shorts[i])
        raise Unsupported('split of an unknown reference path')
    ospath = SObj('os.path', {'basename': Builtin(lambda it2, p: it2.fresh_str('base'), 'basename'),
                              'split': Builtin(split, 'split'), '__open__': False})
    it.spec_env['os'] = SObj('os', {'path': ospath, '__open__': False})

    def ghost_open(it2, path, mode='r', *a, **k):
        it2.path.writes.append(('open:' + mode, path))
        f = SObj('file', {'path': path, '__open__': False})
        f.methods['write'] = Builtin(lambda it3, self, text: g['writes'].append((path, text)), 'file.write')
        f.methods['__enter__'] = Builtin(lambda it3, self: self, '__enter__')
        f.methods['__exit__'] = Builtin(lambda it3, self, *a2: None, '__exit__')
        return f
    it.spec_env['open'] = Builtin(ghost_open, 'open')


@specfn
def script_holds_every_check(it, self):
    g = it.ghost['ws']
    files, defs, writes, excl = g['files'], g['defs'], g['writes'], g['excl']
    script = self.attrs['script']
    if any(p is not script for p, _ in writes):
        return False
    texts = [t for _, t in writes]
    if not texts or texts[-1] != 'TAIL':
        return False
    written_defs = [t.attrs['parts'][0] for t in texts if isinstance(t, SObj) and t.attrs.get('kind') == 'test_def']
    if written_defs != list(range(len(defs))):
        return False            # every definition built is written, once, in order
    cs, ce = self.attrs['check_stdout'], self.attrs['check_stderr']

    def decided(flag):
        # which checks were requested is decided by the path condition
        if isinstance(flag, SBool):
            sv = z3.Solver()
            for c in it.path.pc:
                sv.add(c)
            sv.add(z3.Not(flag.z))
            return sv.check() == z3.unsat
        return bool(flag)

    def stream_ok(d, name, attr, key, refp):
        e = excl.get(key) or (None, None, None)
        return (d['name'] == name and d['actual'] == attr and d['kind'] == 'String'
                and isinstance(d['ref'], SObj) and d['ref'].attrs['parts'][0] == refp
                and d['patterns'] is e[0] and d['removals'] is e[1] and d['substrings'] is e[2])

    def file_ok(d, k):
        f = files[k]
        names = g['names'].get(k, [])
        if len(names) != 1 or d['name'] is not names[0]:
            return False
        if not (isinstance(d['actual'], SObj) and d['actual'].attrs['parts'][0] is f and d['actual'].attrs['parts'][1] is True):
            return False
        m = g['mapped'][k]
        ref = d['ref']
        if not (isinstance(ref, SObj) and ref.attrs.get('kind') == 'joined'):
            return False
        inner = ref.attrs['parts'][0]
        if m is not None:
            if inner is not m:
                return False
        elif not (isinstance(inner, SObj) and inner.attrs.get('kind') == 'default_ref' and inner.attrs['parts'][0] is f):
            return False
        ft = g['short'][k]['ftype']
        if decided(ft.attrs['text']):
            e = g['short'][k]['exc'] or (None, None, None)
            return (d['kind'] == 'TextFile' and d['patterns'] is e[0] and d['removals'] is e[1]
                    and d['substrings'] is e[2] and d['encoding'] is ft.attrs['encoding'])
        return d['kind'] == 'BinaryFile'
    # the checks the script must hold, in any order, each exactly once
    expected = []
    if decided(cs):
        expected.append(lambda d: stream_ok(d, 'stdout', 'self.output', 'STDOUT', 'REF/STDOUT'))
    if decided(ce):
        expected.append(lambda d: stream_ok(d, 'stderr', 'self.error', 'STDERR', 'REF/STDERR'))
    for k in range(len(files)):
        expected.append(lambda d, k=k: file_ok(d, k))
    if len(expected) != len(defs):
        return False
    import itertools as _it
    for perm in _it.permutations(range(len(defs))):
        if all(expected[i](defs[perm[i]]) for i in range(len(defs))):
            return True
    return False


contract(GT + 'TestGenerator.write_script', props=['C12', 'C11'], params={}, self_view=_ws_view, on_entry=_ws_entry,
         spec_env=dict(PRIMS, script_holds_every_check=script_holds_every_check),
         ensures=[('one-check-per-stream-and-per-output-file-each-with-its-own-exclusions-written-to-the-script-only',
                   'script_holds_every_check(self)')], max_paths=100000)

REGISTRY[GT + 'TestGenerator.write_script'].abstraction = "0..2 output files with symbolic names; test_def / HEADER / as_join_repr / os.path.split / FileType and the generator's helper methods are stubs that record their arguments; the text of the script is not modelled, only the sequence of test definitions written"

REGISTRY[GT + 'TestGenerator.test_name'].abstraction = 'four concrete paths; the set of names already taken is an uninterpreted predicate; str(int) is an arbitrary string'
