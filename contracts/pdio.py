"""
Sidecar contract for tdda/constraints/pd/constraints.py::load_df (C17): which reader is given which path.

Ghost call trace over stubs of the readers (pd.read_parquet, default_csv_loader, load_metadata,
find_metadata_type_from_path, find_associated_metadata_file, to_pandas_read_csv_args):
  * the data comes from the parquet reader exactly when the extension is .parquet in any letter case, from the CSV
    reader otherwise, and it is read from the path the caller gave (or, when that path is itself a recognised
    metadata file that names its data file, from the path the metadata names);
  * load_metadata is only ever handed a metadata path: the caller's mdpath, the associated metadata file that was
    found next to the data file, or the caller's path when that is itself recognised as a metadata file -- never the
    data file;
  * the CSV reader's keyword arguments are the ones derived from the metadata that was loaded, and none when no
    metadata is in play.
"""
import z3

from pyvc.contracts import contract, Contract, REGISTRY
from pyvc.sym import T, SObj, SBool, SStr, StrS, Unsupported
from pyvc.ops import values_equal, zbool, strz
from pyvc.interp import Builtin, specfn
from specs.sym_prims import PRIMS

PD = 'tdda/constraints/pd/constraints.py::'


def _log(it):
    return it.ghost.setdefault('io', [])


def _entry(it, senv):
    pd = SObj('module', {'__open__': False}, label='pd')

    def read_parquet(it2, self, path, **kw):
        r = SObj('DataFrame', {'__open__': False, 'from': ('parquet', path)})
        _log(it2).append(('read_parquet', path, r))
        return r
    pd.methods['read_parquet'] = Builtin(read_parquet, 'pd.read_parquet')
    it.spec_env['pd'] = pd
    import io
    from pyvc.interp import PyType
    it.spec_env['StringIO'] = PyType(io.StringIO)


def _isinstance_false(it, env):
    return False


def _register():
    def loader(it, env):
        r = SObj('DataFrame', {'__open__': False, 'from': ('csv', env['path'])})
        _log(it).append(('csv_loader', env['path'], dict(env.get('_extra_kwargs') or {}), r))
        return r
    c = Contract('tdda/referencetest/checkpandas.py::default_csv_loader', params=dict(path=None), effects=loader, result=T.none, assumed=True,
                 name='default_csv_loader', trusted_note='default_csv_loader(path, **kw) reads the CSV file at path with these '
                                                         'keyword arguments (C16 covers what the arguments do)')
    c.varargs_ok = True
    REGISTRY[c.ident] = c

    def load_md(it, env):
        md = SObj('Metadata', {'__open__': False, 'source': env['path'],
                               'path': it.fresh(T.opt(T.str), 'metadata.path')}, label='metadata')
        _log(it).append(('load_metadata', env['path'], md))
        return md
    c = Contract('tdda/serial/reader.py::load_metadata', params=dict(path=None), effects=load_md, result=T.none,
                 assumed=True, name='load_metadata', trusted_note='load_metadata(path) parses the metadata file at path')
    c.varargs_ok = True
    REGISTRY[c.ident] = c

    def md_type(it, env):
        # precondition of this contract: `path` names a data file (C17 speaks of CSV and parquet inputs); a metadata
        # file given as the input is outside it (on the real tree the metadata object never names its data file and the
        # metadata file itself is then read as CSV -- noted in DESIGN A3, not a subject of C17)
        it.ghost['path_is_metadata'] = None
        return (None, None)
    c = Contract('tdda/serial/utils.py::find_metadata_type_from_path', params=dict(path=None), effects=md_type,
                 result=T.none, assumed=True, name='find_metadata_type_from_path',
                 trusted_note='find_metadata_type_from_path(path) recognises metadata file names')
    REGISTRY[c.ident] = c

    def assoc(it, env):
        r = it.fresh(T.opt(T.str), 'associated_metadata_file')
        it.ghost['associated'] = r
        _log(it).append(('find_associated', env['path'], r))
        return r
    c = Contract('tdda/serial/utils.py::find_associated_metadata_file', params=dict(path=None), effects=assoc,
                 result=T.none, assumed=True, name='find_associated_metadata_file',
                 trusted_note='find_associated_metadata_file(path) looks for a metadata file next to the data file')
    REGISTRY[c.ident] = c

    def args_of(it, env):
        return {'__from_metadata__': env['md']}
    c = Contract('tdda/serial/pandasio.py::to_pandas_read_csv_args#callee', params=dict(md=None), effects=args_of,
                 result=T.none, name='to_pandas_read_csv_args', trusted_note='verified separately (contracts.csvw)')
    return c


_ARGS_CALLEE = _register()


class _LoadDf(Contract):
    def verify(self, registry=None, quick=False):
        reg = dict(REGISTRY if registry is None else registry)
        reg['tdda/serial/pandasio.py::to_pandas_read_csv_args'] = _ARGS_CALLEE
        return Contract.verify(self, reg, quick)


def _eq(it, a, b):
    if a is b:
        return z3.BoolVal(True)
    if a is None or b is None:
        return z3.BoolVal(False)
    r = values_equal(it, a, b)
    return r.z if isinstance(r, SBool) else z3.BoolVal(bool(r))


@specfn
def readers_used_as_documented(it, path, mdpath, ignore_apparent_metadata, result):
    log = _log(it)
    reads = [e for e in log if e[0] in ('read_parquet', 'csv_loader')]
    mds = [e for e in log if e[0] == 'load_metadata']
    if len(reads) != 1 or result is not reads[0][-1]:
        return False
    rd = reads[0]
    ext = z3.Function('str.lower', StrS, StrS)(strz(it, it.ghost['ext']))
    is_parquet = ext == strz(it, '.parquet')
    conj = [(z3.BoolVal(rd[0] == 'read_parquet')) == is_parquet]
    if rd[0] == 'read_parquet':
        conj.append(_eq(it, rd[1], path))
        conj.append(z3.BoolVal(not mds))
        return SBool(z3.And(*conj))
    # CSV route: which metadata (at most one file), and where the data is read from
    if len(mds) > 1:
        return False
    kw = rd[2]
    if not mds:
        conj.append(z3.BoolVal(not kw))
        conj.append(_eq(it, rd[1], path))
        return SBool(z3.And(*conj))
    md_path, md = mds[0][1], mds[0][2]
    conj.append(z3.BoolVal(set(kw) == {'__from_metadata__'} and kw.get('__from_metadata__') is md))
    if mdpath is not None:
        conj.append(_eq(it, md_path, mdpath))
        conj.append(_eq(it, rd[1], path))
    else:
        assoc = it.ghost.get('associated')
        from_assoc = z3.And(z3.BoolVal(assoc is not None), _eq(it, md_path, assoc), _eq(it, rd[1], path)) \
            if assoc is not None else z3.BoolVal(False)
        is_md = it.ghost.get('path_is_metadata')
        path_is_md = z3.BoolVal(is_md is not None)
        from_self = z3.And(path_is_md, _eq(it, md_path, path), _eq(it, rd[1], md.attrs['path']))
        conj.append(z3.Or(from_assoc, from_self))
    return SBool(z3.And(*conj))


def _splitext(it, p):
    root, ext = it.fresh_str('root'), it.fresh_str('ext')
    it.ghost['ext'] = ext
    return (root, ext)


def _ld_entry(it, senv):
    _entry(it, senv)
    ospath = SObj('module', {'__open__': False}, label='os.path')
    ospath.methods['splitext'] = Builtin(lambda it2, self, p: _splitext(it2, p), 'os.path.splitext')
    ospath.methods['exists'] = Builtin(lambda it2, self, p: it2.fresh(T.bool, 'exists'), 'os.path.exists')
    ospath.methods['expanduser'] = Builtin(lambda it2, self, p: it2.fresh_str('expanded'), 'os.path.expanduser')
    it.spec_env['os'] = SObj('module', {'__open__': False, 'path': ospath}, label='os')


_ld = _LoadDf(PD + 'load_df', props=['C17'],
              params=dict(path=T.str, mdpath=T.opt(T.str), ignore_apparent_metadata=T.bool, infer_metadata=T.bool),
              on_entry=_ld_entry, spec_env=dict(PRIMS, readers_used_as_documented=readers_used_as_documented),
              result=T.none,
              ensures=[('each-reader-is-given-the-path-it-is-meant-for',
                        'readers_used_as_documented(path, mdpath, ignore_apparent_metadata, result)')])
REGISTRY[_ld.ident] = _ld
_ld.abstraction = ('the readers are stubs that record what they are given; os.path.splitext and the metadata look-ups are '
                   'uninterpreted; a stream argument (StringIO) is outside this contract')


# ---------------------------------------------------------------------------
# save_df (C17 / C06): where the records go.  '-' or no path: standard output only (nothing is written to a file);
# a .parquet path: the parquet writer, that path; csv / psv / tsv / txt: the CSV writer, that path, the caller's index
# flag; any other format: an exception before anything is written.
# ---------------------------------------------------------------------------

def _sd_entry(it, senv):
    df = SObj('DataFrame', {'__open__': False}, label='df')

    def to_parquet(it2, self, path=None, index=None, **kw):
        _log(it2).append(('to_parquet', path, index))
    df.methods['to_parquet'] = Builtin(to_parquet, 'DataFrame.to_parquet')
    senv['df'] = df
    it.spec_env['print'] = Builtin(lambda it2, *a, **k: _log(it2).append(('print', a)), 'print')


def _register_save():
    def writer(it, env):
        _log(it).append(('csv_writer', env['path'], env.get('_extra_kwargs', {}).get('index', env.get('index'))))
        return it.fresh_str('csv_text') if env['path'] is None else None
    c = Contract('tdda/referencetest/checkpandas.py::default_csv_writer', params=dict(df=None, path=None), effects=writer,
                 result=T.none, assumed=True, name='default_csv_writer',
                 trusted_note='default_csv_writer(df, path, **kw) writes the frame as CSV to path, or returns the text when '
                              'path is None')
    c.varargs_ok = True
    REGISTRY[c.ident] = c

    def fmt(it, env):
        k = it.path.choose([True] * 6)
        f = ('parquet', 'csv', 'psv', 'tsv', 'txt', 'xlsx')[k]
        it.ghost['fmt'] = f
        return f
    c = Contract(PD + 'file_format', params=dict(path=None), effects=fmt, result=T.none, assumed=True, name='file_format',
                 trusted_note='file_format(path) is the extension of the path without its dot (csv when there is none)')
    REGISTRY[c.ident] = c


_register_save()


@specfn
def records_go_where_asked(it, path, index):
    log = _log(it)
    files = [e for e in log if e[0] in ('to_parquet', 'csv_writer') and e[1] is not None]
    prints = [e for e in log if e[0] == 'print']
    if path is None or path == '-':
        return not files and len(prints) == 1
    f = it.ghost.get('fmt')
    if len(files) != 1 or prints:
        return False
    kind, p, idx = files[0]
    if p is not path:
        return False
    if f == 'parquet':
        return kind == 'to_parquet' and idx is False
    return kind == 'csv_writer' and (idx is index or values_equal(it, idx, index))


@specfn
def nothing_written(it):
    return not [e for e in _log(it) if e[0] in ('to_parquet', 'csv_writer') and e[1] is not None]


@specfn
def unknown_format(it):
    return it.ghost.get('fmt') not in ('parquet', 'csv', 'psv', 'tsv', 'txt')


def _named_file(it, name):
    p = it.fresh_str(name)
    it.path.assume(strz(it, p) != strz(it, '-'))       # the dash is the other alternative of this parameter
    return p


_sd = contract(PD + 'save_df', props=['C17', 'C06'],
               params=dict(df=None, path=T.union(T.const(None), T.const('-'), T.custom(_named_file)), index=T.bool),
               on_entry=_sd_entry,
               spec_env=dict(PRIMS, records_go_where_asked=records_go_where_asked, nothing_written=nothing_written,
                             unknown_format=unknown_format),
               result=T.none,
               allow_raise={'Exception': 'unknown_format()'},
               always=[('nothing-is-written-for-an-unknown-format-or-standard-output',
                        "not (path is None or path == '-' or unknown_format()) or nothing_written()")],
               ensures=[('the-records-go-to-the-named-file-through-the-writer-of-its-format-or-to-standard-output',
                         'records_go_where_asked(path, index)')])
_sd.abstraction = 'the writers are stubs that record what they are given; file_format is assumed (its result ranges over the known formats and one unknown)'
