"""
Sidecar contracts for tdda/constraints/flags.py (C17: flag -> keyword translation).
"""
import z3

from pyvc.contracts import contract, Contract, REGISTRY
from pyvc.sym import (T, TD, SObj, SBool, SInt, SStr, SList, Sym, Unsupported)
from pyvc.ops import zbool, values_equal, truth, PyExc
from pyvc.interp import Builtin, specfn
from specs.sym_prims import PRIMS

FL = 'tdda/constraints/flags.py::'
ENV = dict(PRIMS)


def parser_td(flag_fields):
    """argparse parser stub: parse_known_args returns (flags, more) - both symbolic."""
    def mk(it, name):
        flags = SObj('Namespace', {'__open__': False}, label='flags')
        for k, td in flag_fields.items():
            flags.attrs[k] = it.fresh(td, 'flags.' + k)
        more = it.fresh(T.union(T.const([]), T.const(['--bogus'])), 'more')
        p = SObj('ArgumentParser', {'epilog': 'usage', '__open__': False}, label='parser')
        p.methods['parse_known_args'] = Builtin(lambda it2, self, args: (flags, more))
        it.ghost['flags'] = flags
        it.ghost['more'] = more
        return p
    return T.custom(mk)


@specfn
def flags(it):
    return it.ghost['flags']


@specfn
def unexpected(it):
    return len(it.ghost['more']) > 0


ENV.update({'flags': flags, 'unexpected': unexpected})

_B = T.bool
_TC = T.union(T.none, T.enum('strict', 'sloppy'))
_EPS = T.union(T.none, T.real)


def _exit1(cond):
    return {'SystemExit': cond}


contract(FL + 'discover_flags', props=['C17'],
         params=dict(parser=parser_td(dict(rex=_B, norex=_B, ascii=_B)), args=T.opaque,
                     params=T.custom(lambda it, n: {})),
         spec_env=ENV, result=T.opaque,
         allow_raise=_exit1('unexpected()'),
         ensures=[('unknown-arguments-exit', 'not unexpected()'),
                  ('inc_rex-is-the-rex-flag', "params == {'inc_rex': flags().rex}"),
                  ('returns-flags', 'result is flags()')])

contract(FL + 'verify_flags', props=['C17'],
         params=dict(parser=parser_td(dict(all=_B, fields=_B, ascii=_B, type_checking=_TC, epsilon=_EPS)),
                     args=T.opaque, params=T.custom(lambda it, n: {})),
         spec_env=ENV, result=T.opaque,
         allow_raise=_exit1('unexpected()'),
         ensures=[('unknown-arguments-exit', 'not unexpected()'),
                  ('report', "params['report'] == ('fields' if (flags().fields and not flags().all) else 'all')"),
                  ('ascii', "params['ascii'] == flags().ascii"),
                  ('type_checking', "(params.get('type_checking') == flags().type_checking)"),
                  ('epsilon', "('epsilon' in params) == (flags().epsilon is not None) and "
                              "(flags().epsilon is None or params['epsilon'] == flags().epsilon)"),
                  ('no-other-keywords', "all(k in ('report', 'ascii', 'type_checking', 'epsilon') for k in params)")])

_OF = T.union(T.none, T.const([]), T.const(['a', 'b']))
contract(FL + 'detect_flags', props=['C17'],
         params=dict(parser=parser_td(dict(all=_B, fields=_B, ascii=_B, type_checking=_TC, epsilon=_EPS,
                                           write_all=_B, per_constraint=_B, no_per_constraint=_B,
                                           no_output_fields=_B, output_fields=_OF, interleave=_B,
                                           index=_B, boolean_ints=_B)),
                     args=T.opaque, params=T.custom(lambda it, n: {})),
         spec_env=ENV, result=T.opaque, max_paths=40000,
         allow_raise=_exit1('unexpected() or (flags().per_constraint and flags().no_per_constraint) '
                            'or (bool(flags().output_fields) and flags().no_output_fields)'),
         ensures=[('bad-invocations-exit',
                   'not (unexpected() or (flags().per_constraint and flags().no_per_constraint) '
                   'or (bool(flags().output_fields) and flags().no_output_fields))'),
                  ('report-records', "params['report'] == 'records'"),
                  ('ascii', "params['ascii'] == flags().ascii"),
                  ('type_checking', "params.get('type_checking') == flags().type_checking"),
                  ('epsilon', "('epsilon' in params) == (flags().epsilon is not None) and "
                              "(flags().epsilon is None or params['epsilon'] == flags().epsilon)"),
                  ('write_all', "bool(params.get('write_all', False)) == flags().write_all"),
                  ('per_constraint-unless-disabled',
                   "bool(params.get('per_constraint', False)) == (not flags().no_per_constraint)"),
                  ('index', "bool(params.get('index', False)) == flags().index"),
                  ('boolean_ints', "bool(params.get('boolean_ints', False)) == flags().boolean_ints"),
                  ('interleave', "bool(params.get('interleave', False)) == flags().interleave"),
                  ('output_fields',
                   "(params.get('output_fields') == flags().output_fields) if flags().output_fields is not None "
                   "else (('output_fields' not in params) if flags().no_output_fields "
                   "else params.get('output_fields') == [])"),
                  ('in_place-never-from-the-command-line', "params['in_place'] is False")])
