"""
Sidecar contracts for tdda/constraints/flags.py (C17: flag -> keyword translation).
"""
import z3

from pyvc.contracts import contract, Contract, REGISTRY
from pyvc.sym import (T, TD, SObj, SBool, SInt, SStr, SList, Sym, Unsupported)
from pyvc.ops import zbool, values_equal, truth, PyExc
from pyvc.interp import Builtin, specfn
from specs.sym_prims import PRIMS

FL = 'tdda/constraints/flags.py::'
ENV = dict(PRIMS)


def parser_td(flag_fields):
    """argparse parser stub: parse_known_args returns (flags, more) - both symbolic."""
    def mk(it, name):
        flags = SObj('Namespace', {'__open__': False}, label='flags')
        for k, td in flag_fields.items():
            flags.attrs[k] = it.fresh(td, 'flags.' + k)
        more = it.fresh(T.union(T.const([]), T.const(['--bogus'])), 'more')
        p = SObj('ArgumentParser', {'epilog': 'usage', '__open__': False}, label='parser')
        p.methods['parse_known_args'] = Builtin(lambda it2, self, args: (flags, more))
        it.ghost['flags'] = flags
        it.ghost['more'] = more
        return p
    return T.custom(mk)


@specfn
def flags(it):
    return it.ghost['flags']


@specfn
def unexpected(it):
    return len(it.ghost['more']) > 0


ENV.update({'flags': flags, 'unexpected': unexpected})

_B = T.bool
_TC = T.union(T.none, T.enum('strict', 'sloppy'))
_EPS = T.union(T.none, T.real)


def _exit1(cond):
    return {'SystemExit': cond}


contract(FL + 'discover_flags', props=['C17'],
         params=dict(parser=parser_td(dict(rex=_B, norex=_B, ascii=_B)), args=T.opaque,
                     params=T.custom(lambda it, n: {})),
         spec_env=ENV, result=T.opaque,
         allow_raise=_exit1('unexpected()'),
         ensures=[('unknown-arguments-exit', 'not unexpected()'),
                  ('inc_rex-is-the-rex-flag', "params == {'inc_rex': flags().rex}"),
                  ('returns-flags', 'result is flags()')])

contract(FL + 'verify_flags', props=['C17'],
         params=dict(parser=parser_td(dict(all=_B, fields=_B, ascii=_B, type_checking=_TC, epsilon=_EPS)),
                     args=T.opaque, params=T.custom(lambda it, n: {})),
         spec_env=ENV, result=T.opaque,
         allow_raise=_exit1('unexpected()'),
         ensures=[('unknown-arguments-exit', 'not unexpected()'),
                  ('report', "params['report'] == ('fields' if (flags().fields and not flags().all) else 'all')"),
                  ('ascii', "params['ascii'] == flags().ascii"),
                  ('type_checking', "(params.get('type_checking') == flags().type_checking)"),
                  ('epsilon', "('epsilon' in params) == (flags().epsilon is not None) and "
                              "(flags().epsilon is None or params['epsilon'] == flags().epsilon)"),
                  ('no-other-keywords', "all(k in ('report', 'ascii', 'type_checking', 'epsilon') for k in params)")])

_OF = T.union(T.none, T.const([]), T.const(['a', 'b']))
contract(FL + 'detect_flags', props=['C17'],
         params=dict(parser=parser_td(dict(all=_B, fields=_B, ascii=_B, type_checking=_TC, epsilon=_EPS,
                                           write_all=_B, per_constraint=_B, no_per_constraint=_B,
                                           no_output_fields=_B, output_fields=_OF, interleave=_B,
                                           index=_B, boolean_ints=_B)),
                     args=T.opaque, params=T.custom(lambda it, n: {})),
         spec_env=ENV, result=T.opaque, max_paths=40000,
         allow_raise=_exit1('unexpected() or (flags().per_constraint and flags().no_per_constraint) '
                            'or (flags().output_fields is not None and flags().no_output_fields)'),
         ensures=[('bad-invocations-exit',
                   'not (unexpected() or (flags().per_constraint and flags().no_per_constraint) '
                   'or (flags().output_fields is not None and flags().no_output_fields))'),
                  ('report-records', "params['report'] == 'records'"),
                  ('ascii', "params['ascii'] == flags().ascii"),
                  ('type_checking', "params.get('type_checking') == flags().type_checking"),
                  ('epsilon', "('epsilon' in params) == (flags().epsilon is not None) and "
                              "(flags().epsilon is None or params['epsilon'] == flags().epsilon)"),
                  ('write_all', "bool(params.get('write_all', False)) == flags().write_all"),
                  ('per_constraint-unless-disabled',
                   "bool(params.get('per_constraint', False)) == (not flags().no_per_constraint)"),
                  ('index', "bool(params.get('index', False)) == flags().index"),
                  ('boolean_ints', "bool(params.get('boolean_ints', False)) == flags().boolean_ints"),
                  ('interleave', "bool(params.get('interleave', False)) == flags().interleave"),
                  ('output_fields',
                   "(params.get('output_fields') == flags().output_fields) if flags().output_fields is not None "
                   "else (('output_fields' not in params) if flags().no_output_fields "
                   "else params.get('output_fields') == [])"),
                  ('in_place-never-from-the-command-line', "params['in_place'] is False")])


# ---------------------------------------------------------------------------
# front-ends: a missing input exits 1 before anything is written; otherwise the
# file front-end is called once with exactly the parsed parameters (C17)
# ---------------------------------------------------------------------------
from pyvc.contracts import Contract
from pyvc.sym import SStr
from pyvc import extract

PD = 'tdda/constraints/pd/'


def _front_view(cls, relpath):
    def view(it):
        rc = extract.load_module(relpath).classes[cls]
        o = SObj(cls, {'argv': ['tdda-cmd', 'x'], 'verbose': it.fresh(T.bool, 'verbose')}, label='self')
        o.repo_class = rc
        return o
    return view


def _front_setup(params_fn, from_file_fn, extra_keys=()):
    def setup(it, senv):
        path = it.fresh(T.union(T.none, T.const('-'), T.str), 'df_path')
        params = {'df_path': path, 'constraints_path': it.fresh(T.opt(T.str), 'constraints_path')}
        for k in extra_keys:
            params[k] = it.fresh(T.opt(T.str), k)
        it.ghost['params'] = params
        it.ghost['calls'] = []
        isfile = z3.Bool(it.path.fresh_name('input_is_a_file'))
        it.ghost['isfile'] = isfile
        it.spec_env[params_fn] = Builtin(lambda it2, args: dict(params))

        def from_file(it2, *a, **kw):
            it2.ghost['calls'].append((a, dict(kw), len(it2.path.writes)))
            return SObj('Result', {'__open__': False})
        it.spec_env[from_file_fn] = Builtin(from_file)
        it.spec_env['handle_tilde'] = Builtin(lambda it2, p: p)
        ospath = SObj('os.path', {'__open__': False})
        ospath.methods['isfile'] = Builtin(lambda it2, self, p: SBool(isfile))
        it.spec_env['os'] = SObj('os', {'path': ospath, '__open__': False})
    return setup


@specfn
def real_missing_input(it):
    p = it.ghost['params']['df_path']
    if p is None or (isinstance(p, str) and p == '-'):
        return False
    dash = values_equal(it, p, '-')
    return SBool(z3.And(z3.Not(zbool(dash)), z3.Not(it.ghost['isfile'])))


@specfn
def front_end_called_once_with_params(it, verbose):
    calls = it.ghost['calls']
    if len(calls) != 1:
        return False
    a, kw, nwrites = calls[0]
    want = dict(it.ghost['params'])
    if a or nwrites != 0:
        return False
    if set(kw) != set(want) | {'verbose'}:
        return False
    return all(kw[k] is want[k] for k in want) and kw['verbose'] is verbose


@specfn
def nothing_called_or_written(it):
    return not it.ghost['calls'] and not it.path.writes


_FENV = dict(ENV, real_missing_input=real_missing_input,
             front_end_called_once_with_params=front_end_called_once_with_params,
             nothing_called_or_written=nothing_called_or_written)

for _cls, _mod, _meth, _pf, _ff, _extra in (
        ('PandasDiscoverer', 'discover.py', 'discover', 'pd_discover_params', 'discover_df_from_file', ()),
        ('PandasVerifier', 'verify.py', 'verify', 'pd_verify_params', 'verify_df_from_file', ()),
        ('PandasDetector', 'detect.py', 'detect', 'pd_detect_params', 'detect_df_from_file', ('outpath',))):
    contract(PD + _mod + '::' + _cls + '.' + _meth, props=['C17'], params={},
             self_view=_front_view(_cls, PD + _mod), on_entry=_front_setup(_pf, _ff, _extra),
             spec_env=_FENV, result=T.opaque,
             allow_raise={'SystemExit': 'real_missing_input() and nothing_called_or_written()'},
             ensures=[('missing-input-exits', 'not real_missing_input()'),
                      ('file-front-end-called-once-with-the-parsed-parameters',
                       'front_end_called_once_with_params(self.verbose)')])


# discover_df_from_file: the constraints file is written only after discovery succeeded
def _ddf_setup(it, senv):
    log = it.ghost.setdefault('log', [])
    it.spec_env['load_df'] = Builtin(lambda it2, p: (log.append('load_df'), SObj('DataFrame', {'__open__': False}))[1])
    cons = SObj('DatasetConstraints', {'__open__': False})
    cons.methods['to_json'] = Builtin(lambda it2, self, tddafile=None: (log.append('to_json'), it2.fresh_str('json'))[1])
    found = z3.Bool(it.path.fresh_name('constraints_found'))

    def discover(it2, df, **kw):
        log.append('discover_df')
        it2.ghost['discover_kwargs'] = dict(kw)
        return cons if it2.branch(found) else None
    it.spec_env['discover_df'] = Builtin(discover)
    stdin = SObj('stdin', {'__open__': False})
    stdin.methods['read'] = Builtin(lambda it2, self: it2.fresh_str('stdin-text'))
    it.spec_env['sys'] = SObj('sys', {'stdin': stdin, '__open__': False})
    it.spec_env['StringIO'] = Builtin(lambda it2, s: SObj('StringIO', {'__open__': False}))

    def ghost_open(it2, path, mode='r', *a, **k):
        log.append(('open', path, mode))
        if any(c in mode for c in 'wax+'):
            it2.path.writes.append(('open:' + mode, path))
        f = SObj('file', {'__open__': False})
        f.methods['write'] = Builtin(lambda it3, self, data: log.append(('write', data)))
        return f
    it.spec_env['open'] = Builtin(ghost_open)


@specfn
def written_only_after_discovery(it, constraints_path):
    log = it.ghost['log']
    opens = [e for e in log if isinstance(e, tuple) and e[0] == 'open']
    if constraints_path is None or constraints_path == '-':
        return not opens
    if 'discover_df' not in log:
        return not opens
    if not opens:
        return True         # discovery found nothing: nothing written
    i = log.index(opens[0])
    return (len(opens) == 1 and opens[0][1] is constraints_path and 'w' in opens[0][2]
            and 'discover_df' in log[:i] and 'to_json' in log[:i])


@specfn
def library_called_with(it, **expected):
    kw = it.ghost.get('discover_kwargs')
    return kw is not None and all(kw.get(k) is v for k, v in expected.items())


contract(PD + 'discover.py::discover_df_from_file', props=['C17'],
         params=dict(df_path=T.union(T.const('-'), T.str),
                     constraints_path=T.union(T.none, T.const('-'), T.str), verbose=T.bool),
         kwparams=dict(inc_rex=T.bool), on_entry=_ddf_setup,
         spec_env=dict(ENV, written_only_after_discovery=written_only_after_discovery,
                       library_called_with=library_called_with), result=T.opaque,
         ensures=[('constraints-file-written-only-after-discovery',
                   'written_only_after_discovery(constraints_path)'),
                  ('library-called-with-the-given-keywords',
                   "library_called_with(inc_rex=kwargs_given['inc_rex'])")])
