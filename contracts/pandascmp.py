"""Sidecar contract for checkpandas.resolve_option_flag (C05)."""
from pyvc.contracts import contract
from pyvc.sym import T, SObj
from pyvc.interp import Builtin, specfn
from specs.sym_prims import PRIMS

CP = 'tdda/referencetest/checkpandas.py::'


def _df(it, name):
    # a frame is seen only through list(df)
    cols = ['c1', 'c2']
    return SObj('DataFrame', {'__iter__': cols, '__open__': False}, label=name)


@specfn
def columns_of(it, df):
    return list(df.attrs['__iter__'])


def _fn(it, name):
    ret = ['c2']
    f = Builtin(lambda it2, df: ret, 'flagfn')
    it.ghost['fn_result'] = ret
    return f


@specfn
def fn_result(it):
    return it.ghost.get('fn_result')


contract(CP + 'resolve_option_flag', props=['C05'],
         params=dict(flag=T.union(T.none, T.const(True), T.const(False), T.const(['c1']), T.const([]),
                                  T.custom(_fn)),
                     df=T.custom(_df)),
         spec_env=dict(PRIMS, columns_of=columns_of, fn_result=fn_result), result=T.opaque,
         ensures=[('none-or-true-means-all-columns',
                   'not (flag is None or flag is True) or result == columns_of(df)'),
                  ('false-means-no-columns', 'not (flag is False) or result == []'),
                  ('list-is-used-as-given', 'not isinstance(flag, list) or result is flag'),
                  ('function-is-applied-to-the-frame', 'not callable(flag) or result is fn_result()')])
