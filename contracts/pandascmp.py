"""Sidecar contract for checkpandas.resolve_option_flag (C05)."""
from pyvc.contracts import contract
from pyvc.sym import T, SObj
from pyvc.interp import Builtin, specfn
from specs.sym_prims import PRIMS

CP = 'tdda/referencetest/checkpandas.py::'


def _df(it, name):
    # a frame is seen only through list(df)
    cols = ['c1', 'c2']
    return SObj('DataFrame', {'__iter__': cols, '__open__': False}, label=name)


@specfn
def columns_of(it, df):
    return list(df.attrs['__iter__'])


def _fn(it, name):
    ret = ['c2']
    f = Builtin(lambda it2, df: ret, 'flagfn')
    it.ghost['fn_result'] = ret
    return f


@specfn
def fn_result(it):
    return it.ghost.get('fn_result')


contract(CP + 'resolve_option_flag', props=['C05'],
         params=dict(flag=T.union(T.none, T.const(True), T.const(False), T.const(['c1']), T.const([]),
                                  T.custom(_fn)),
                     df=T.custom(_df)),
         spec_env=dict(PRIMS, columns_of=columns_of, fn_result=fn_result), result=T.opaque,
         ensures=[('none-or-true-means-all-columns',
                   'not (flag is None or flag is True) or result == columns_of(df)'),
                  ('false-means-no-columns', 'not (flag is False) or result == []'),
                  ('list-is-used-as-given', 'not isinstance(flag, list) or result is flag'),
                  ('function-is-applied-to-the-frame', 'not callable(flag) or result is fn_result()')])


# ---------------------------------------------------------------------------
# check_dataframe: the verdict skeleton (C05)
#
# A frame is seen through its column list (concrete, from a finite family of
# layouts), a symbolic row count, per-column dtype objects, and the sub-frames
# / filtered frames derived from it.  What the pandas primitives compute from
# the cells is abstracted to three uninterpreted quantities: types_match per
# column (laws checked exhaustively by the bounded layer), the row counts
# after the condition, and the number of differing cells returned by
# same_structure_ddiff.  The verdict is then a function of those quantities
# and of the four option flags, and that function is what the property
# states.
# ---------------------------------------------------------------------------
import z3
from pyvc.contracts import Contract, REGISTRY
from pyvc.sym import SBool, SInt
from pyvc.ops import PyExc, zbool

BCMP = 'tdda/referencetest/basecomparison.py::'

REF_COLS = ['a', 'b', 'c']
DF_LAYOUTS = [['a', 'b', 'c'], ['a', 'c', 'b'], ['b', 'a', 'c'], ['c', 'b', 'a'], ['a', 'b'], ['c', 'a'],
              ['a', 'b', 'c', 'd'], ['d', 'a', 'c', 'b'], ['a', 'd', 'b']]


def mkframe(it, name, cols, base=None):
    cols = list(cols)
    n = it.fresh(T.nat, 'rows(%s)' % name)
    f = SObj('DataFrame', {'__iter__': cols, '__contains__': (lambda x: x in cols), '__len__': n,
                           '__open__': False, 'frame_name': name, 'base': base or name}, label=name)

    def getitem(it2, self, k):
        if isinstance(k, str):
            if k not in cols:
                raise PyExc('KeyError', k)
            return SObj('Series', {'dtype': SObj('dtype', {'col': k, 'frame': name, '__open__': False}),
                                   '__open__': False})
        if isinstance(k, list):
            for c in k:
                if c not in cols:
                    raise PyExc('KeyError', c)
            sub = mkframe(it2, '%s[%s]' % (name, ','.join(k)), k, base=self.attrs['base'])
            sub.attrs['__len__'] = self.attrs['__len__']
            sub.attrs['sorted_by'] = self.attrs.get('sorted_by')
            return sub
        if isinstance(k, SObj) and k.cls == 'mask':
            if k.attrs['frame'] != name:
                raise PyExc('IndexingError', 'mask of another frame')
            flt = mkframe(it2, name + '|cond', cols, base=self.attrs['base'] + '|cond')
            flt.attrs['sorted_by'] = self.attrs.get('sorted_by')
            return flt
        raise Unsupported('frame subscript %r' % (k,))
    f.methods['__getitem__'] = Builtin(getitem, 'DataFrame.__getitem__')
    def sort_values(it2, self, by, inplace=False, **kw):
        # in place: this frame is now sorted; otherwise a sorted copy is returned and this frame stays as it was
        if inplace is True:
            self.attrs['sorted_by'] = list(by)
            return None
        cp = mkframe(it2, self.attrs['frame_name'], cols, base=self.attrs['base'])
        cp.attrs['__len__'] = self.attrs['__len__']
        cp.attrs['sorted_by'] = list(by)
        return cp
    f.attrs['sorted_by'] = None
    f.methods['sort_values'] = Builtin(sort_values, 'sort_values')
    f.methods['reindex'] = Builtin(lambda it2, self: self, 'reindex')
    it.ghost.setdefault('frames', {})[name] = f
    return f


def _flag(values, fn_results=()):
    alts = [T.const(v) for v in values]
    for r in fn_results:
        alts.append(T.custom(lambda it, name, r=r: _flagfn(it, name, r)))
    return T.union(*alts)


def _flagfn(it, name, ret):
    f = Builtin(lambda it2, df: list(ret), 'flagfn:' + name)
    it.ghost.setdefault('flagfn', {})[name] = list(ret)
    return f


def _cd_entry(it, senv):
    layouts = it.target.layouts
    k = it.path.choose([True] * len(layouts))
    senv['df'] = mkframe(it, 'df', layouts[k])
    senv['ref_df'] = mkframe(it, 'ref', REF_COLS)
    cond = senv.get('condition')
    it.path.inputs['df'], it.path.inputs['ref_df'] = senv['df'], senv['ref_df']
    it.ghost['tm'] = {}
    it.spec_env['Diffs'] = Builtin(lambda it2: SObj('Diffs', {'__open__': True}))
    it.spec_env['FailureDiffs'] = Builtin(lambda it2, failures=None, diffs=None:
                                          SObj('FailureDiffs', {'failures': failures, 'diffs': diffs,
                                                                '__open__': False}))


def _types_match_effect(it, env):
    a, b = env['actual_col_type'], env['ref_col_type']
    if not (isinstance(a, SObj) and isinstance(b, SObj) and a.attrs.get('frame') == 'df'
            and b.attrs.get('frame') == 'ref' and a.attrs['col'] == b.attrs['col']):
        it.ghost['tm_misuse'] = True
        return it.fresh(T.bool, 'types_match(?)')
    c = a.attrs['col']
    tm = it.ghost['tm']
    if c not in tm:
        tm[c] = SBool(z3.Bool('types_match(%s)' % c))
    it.ghost.setdefault('tm_level', []).append(env.get('level'))
    return tm[c]


def _ddiff_effect(it, env):
    it.ghost.setdefault('ddiff', []).append((env['df'], env['ref_df']))
    return it.ghost.setdefault('nd', it.fresh(T.nat, 'differing_cells'))


def _register_callees():
    CPC = CP + 'PandasComparison.'
    tm = Contract(CP + 'types_match', params=dict(actual_col_type=None, ref_col_type=None, level=None),
                  effects=_types_match_effect, result=T.none, assumed=True, name='types_match',
                  trusted_note='types_match is an uninterpreted predicate of the two dtypes here; its laws are '
                               'checked exhaustively over every dtype name pair by the bounded layer')
    tm.defaults = {'level': None}
    REGISTRY[tm.ident] = tm
    dd = Contract(CPC + 'same_structure_ddiff', params=dict(df=None, ref_df=None, diffs=None),
                  effects=_ddiff_effect, result=T.none, assumed=True, name='same_structure_ddiff',
                  trusted_note='same_structure_ddiff returns the number of differing cells of the two frames it is '
                               'given (audited against an independent cell oracle by the bounded layer)')
    REGISTRY[dd.ident] = dd
    rc = Contract(CP + 'replace_cats', params=dict(df=None), effects=lambda it, env: env['df'], result=T.none,
                  assumed=True, name='replace_cats',
                  trusted_note='replace_cats keeps columns, their order and the rows (categoricals become strings)')
    REGISTRY[rc.ident] = rc
    for m, ps in (('different_column_structure', ['diffs']), ('missing_columns_detected', ['diffs', 'missing_cols', 'ref_df']),
                  ('extra_columns_found', ['diffs', 'extra_cols', 'df']),
                  ('field_types_differ', ['diffs', 'c', 'actual_dtype', 'ref_dtype']),
                  ('different_column_orders', ['diffs', 'df', 'ref_df']),
                  ('different_numbers_of_rows', ['diffs', 'na', 'nr']), ('info', ['msgs', 's'])):
        ident = BCMP + 'BaseComparison.' + m
        if ident not in REGISTRY:
            c = Contract(ident, params={p: None for p in ps}, effects=lambda it, env: None, result=T.none,
                         assumed=True, name=m, trusted_note='message builders: they only append to the Diffs object')
            c.varargs_ok = True
            REGISTRY[ident] = c
    wt = Contract(CPC + 'write_temporaries', params=dict(actual=None, expected=None, msgs=None),
                  effects=lambda it, env: it.ghost.__setitem__('temporaries', True), result=T.none, assumed=True,
                  name='write_temporaries', trusted_note='write_temporaries writes under tmp_dir only (C15 checks)')
    REGISTRY[wt.ident] = wt


_register_callees()


def _cmp_view(it):
    from pyvc import extract
    mod = extract.load_module('tdda/referencetest/checkpandas.py')
    o = SObj('PandasComparison', {'verbose': False, 'print_fn': Builtin(lambda it2, *a, **k: None, 'print_fn')},
             label='self')
    o.repo_class = mod.classes['PandasComparison']
    return o


def _resolve(it, flag, name, cols):
    """The documented meaning of an option flag (spec side)."""
    if flag is None or flag is True:
        return list(cols)
    if flag is False:
        return []
    if isinstance(flag, list):
        return list(flag)
    return list(it.ghost['flagfn'][name])


def _sel(it, env):
    dfc = list(it.ghost['frames']['df'].attrs['__iter__'])
    refc = list(REF_COLS)
    types = _resolve(it, env['check_types'], 'check_types', refc)
    extra = _resolve(it, env['check_extra_cols'], 'check_extra_cols', dfc)
    data = _resolve(it, env['check_data'], 'check_data', refc)
    co = env['check_order']
    order = None if co is False else _resolve(it, co, 'check_order', refc)
    return dfc, refc, types, extra, data, order


@specfn
def frames_agree(it, check_types, check_extra_cols, check_order, check_data, condition):
    """The property's right-hand side, over the abstract quantities."""
    env = dict(check_types=check_types, check_extra_cols=check_extra_cols, check_order=check_order,
               check_data=check_data)
    dfc, refc, types, extra, data, order = _sel(it, env)
    missing = [c for c in types if c not in dfc]
    if missing:
        return False
    if [c for c in data if c not in dfc]:
        return False                  # a column whose values are to be compared is not there: a described failure
    if [c for c in extra if c not in refc]:
        return False
    if order is not None:
        o1 = [c for c in dfc if c in order and c in refc]
        o2 = [c for c in refc if c in order and c in dfc]
        if o1 != o2:
            return False
    conj = []
    for c in types:
        if c not in it.ghost['tm']:
            it.ghost['tm'][c] = SBool(z3.Bool('types_match(%s)' % c))
        conj.append(it.ghost['tm'][c].z)
    fr = it.ghost['frames']
    suffix = '|cond' if condition is not None else ''
    if 'df' + suffix not in fr or 'ref' + suffix not in fr:
        return False if False else SBool(z3.BoolVal(False))     # the condition was not applied to both frames
    conj.append(fr['df' + suffix].attrs['__len__'].z == fr['ref' + suffix].attrs['__len__'].z)
    if data:
        nd = it.ghost.setdefault('nd', it.fresh(T.nat, 'differing_cells'))
        conj.append(nd.z == 0)
    return SBool(z3.And(*conj))


@specfn
def data_compared_as_selected(it, check_data, check_types, condition, result, sortby=None):
    """When the cell comparison runs, it is given the selected data columns of the (filtered) frames."""
    calls = it.ghost.get('ddiff', [])
    env = dict(check_types=check_types, check_extra_cols=None, check_order=None, check_data=check_data)
    dfc, refc, types, extra, data, order = _sel(it, env)
    missing = [c for c in types if c not in dfc]
    want = [c for c in data if c not in missing]
    if not calls:
        return True
    if len(calls) != 1:
        return False
    a, b = calls[0]
    suffix = '|cond' if condition is not None else ''
    # both frames in the same row order: sorted on the same keys when sortby is given (and usable), untouched otherwise
    keys = None
    if sortby:
        keys = list(sortby) if isinstance(sortby, list) else None
        if keys is not None and any(c in keys for c in missing):
            keys = None
    same_order = a.attrs.get('sorted_by') == b.attrs.get('sorted_by') == keys
    return (list(a.attrs['__iter__']) == want and list(b.attrs['__iter__']) == want and same_order
            and a.attrs['base'] == 'df' + suffix and b.attrs['base'] == 'ref' + suffix)


@specfn
def data_cols_present(it, check_data, check_types):
    env = dict(check_types=check_types, check_extra_cols=None, check_order=None, check_data=check_data)
    dfc, refc, types, extra, data, order = _sel(it, env)
    missing = [c for c in types if c not in dfc]
    return all(c in dfc for c in data if c not in missing)


@specfn
def type_level_ok(it, type_matching):
    want = type_matching or 'strict'
    return all(l == want for l in it.ghost.get('tm_level', [])) and not it.ghost.get('tm_misuse')


def _condfn(it, name):
    return Builtin(lambda it2, df: SObj('mask', {'frame': df.attrs['frame_name'], '__open__': False}), 'condition')


_CD_ENS = [('passes-exactly-when-the-checked-structure-and-values-agree',
            '(result.failures == 0) == frames_agree(check_types, check_extra_cols, check_order, check_data, condition)'),
           ('types-compared-at-the-requested-level', 'type_level_ok(type_matching)'),
           ('failures-is-0-or-1', 'result.failures == 0 or result.failures == 1'),
           ('cell-comparison-gets-the-selected-columns-of-the-filtered-frames',
            'data_compared_as_selected(check_data, check_types, condition, result, sortby)')]


def _cd_contract(key, layouts=None, **flags):
    params = OrderedDict()
    params['df'] = None
    params['ref_df'] = None
    params['actual_path'] = T.const(None)
    params['expected_path'] = T.const(None)
    params['check_data'] = flags.get('check_data', T.const(None))
    params['check_types'] = flags.get('check_types', T.const(None))
    params['check_order'] = flags.get('check_order', T.const(None))
    params['check_extra_cols'] = flags.get('check_extra_cols', T.const(None))
    params['sortby'] = flags.get('sortby', T.const(None))
    params['condition'] = flags.get('condition', T.const(None))
    params['precision'] = T.const(None)
    params['msgs'] = T.const(None)
    params['type_matching'] = flags.get('type_matching', T.const(None))
    params['create_temporaries'] = flags.get('create_temporaries', T.const(False))
    c = Contract(CP + 'PandasComparison.check_dataframe', props=['C05'], params=params, self_view=_cmp_view,
                 on_entry=_cd_entry, inline=[CP + 'resolve_option_flag', 'tdda/utils.py::nvl'],
                 spec_env=dict(PRIMS, frames_agree=frames_agree, data_compared_as_selected=data_compared_as_selected,
                               data_cols_present=data_cols_present, type_level_ok=type_level_ok),
                 # (no exception is allowed: "never as an internal error" -- a data column that the actual frame lacks
                 # must be a described failure, also when the type check does not cover it)
                 ensures=_CD_ENS, name='check_dataframe[%s]' % key, max_paths=200000)
    c.layouts = layouts or DF_LAYOUTS
    REGISTRY[c.ident + '#' + key] = c
    return c


from collections import OrderedDict
_ORDER_FLAGS = _flag([None, False, True, ['a', 'c'], ['c', 'a'], ['c', 'b', 'a'], ['b']], [['c', 'a'], ['a', 'b', 'c']])
_TYPE_FLAGS = _flag([None, False, ['a', 'b'], ['c', 'a']], [['b']])
_EXTRA_FLAGS = _flag([None, False, ['d'], ['a']], [['d', 'a']])
_DATA_FLAGS = _flag([None, False, ['a'], ['c', 'a']], [['b']])
_COND = T.union(T.const(None), T.custom(_condfn))

_cd_contract('order', check_order=_ORDER_FLAGS, check_types=_flag([None, False]), check_extra_cols=_flag([None, False]))
_cd_contract('columns', check_types=_TYPE_FLAGS, check_extra_cols=_EXTRA_FLAGS, check_order=_flag([None, False]))
_cd_contract('level', layouts=[['a', 'b', 'c'], ['a', 'b']], type_matching=_flag([None, 'strict', 'medium', 'permissive']),
             check_types=_flag([None, ['a']]))
_cd_contract('data', layouts=[['a', 'b', 'c'], ['c', 'b', 'a'], ['a', 'b'], ['a', 'b', 'c', 'd']],
             check_data=_DATA_FLAGS, check_types=_flag([None, ['a', 'b']]), condition=_COND,
             sortby=_flag([None, ['a']]), check_order=_flag([False]), create_temporaries=T.bool)

REGISTRY[CP + 'PandasComparison.check_dataframe#order'].abstraction = 'frames are seen through a concrete column layout (reference a,b,c against an enumerated family of actual layouts), symbolic row counts and derived sub-frames; types_match, same_structure_ddiff, replace_cats and the message builders are assumed contracts with uninterpreted results'

REGISTRY[CP + 'PandasComparison.check_dataframe#columns'].abstraction = 'frames are seen through a concrete column layout (reference a,b,c against an enumerated family of actual layouts), symbolic row counts and derived sub-frames; types_match, same_structure_ddiff, replace_cats and the message builders are assumed contracts with uninterpreted results'

REGISTRY[CP + 'PandasComparison.check_dataframe#level'].abstraction = 'frames are seen through a concrete column layout (reference a,b,c against an enumerated family of actual layouts), symbolic row counts and derived sub-frames; types_match, same_structure_ddiff, replace_cats and the message builders are assumed contracts with uninterpreted results'

REGISTRY[CP + 'PandasComparison.check_dataframe#data'].abstraction = 'frames are seen through a concrete column layout (reference a,b,c against an enumerated family of actual layouts), symbolic row counts and derived sub-frames; types_match, same_structure_ddiff, replace_cats and the message builders are assumed contracts with uninterpreted results'


# ---------------------------------------------------------------------------
# check_serialized_dataframe / check_serialized_dataframes (C05, the on-disk entry points): the two files are loaded
# with the same loader and loader arguments (reference from expected_path, actual from actual_path), the comparison
# options are handed to check_dataframe unchanged, and the list form adds up the failures of every pair, counting a
# pair whose comparison raises as one failure and going on to the next pair.
# ---------------------------------------------------------------------------

def _ser_view(it):
    from pyvc import extract
    mod = extract.load_module('tdda/referencetest/checkpandas.py')
    o = SObj('PandasComparison', {'verbose': False, 'print_fn': Builtin(lambda it2, *a, **k: None, 'print_fn')},
             label='self')
    o.repo_class = mod.classes['PandasComparison']

    def load(it2, self, path, actual_df=None, loader=None, **kw):
        f = SObj('DataFrame', {'__open__': False, 'loaded_from': path, 'loader': loader, 'loader_kw': dict(kw)},
                 label='frame')
        it2.ghost.setdefault('loads', []).append(f)
        return f
    o.methods['load_serialized_dataframe'] = Builtin(load, 'load_serialized_dataframe')

    def check(it2, self, df, ref_df, **kw):
        r = SObj('FailureDiffs', {'__open__': False, 'failures': it2.fresh(T.nat, 'failures'), 'diffs': kw.get('msgs')})
        it2.ghost.setdefault('checks', []).append((df, ref_df, dict(kw), r))
        return r
    o.methods['check_dataframe'] = Builtin(check, 'check_dataframe')
    return o


@specfn
def compared_as_asked(it, result, actual_path, expected_path, loader, options):
    loads, checks = it.ghost.get('loads', []), it.ghost.get('checks', [])
    if len(loads) != 2 or len(checks) != 1:
        return False
    df, ref, kw, r = checks[0]
    if result is not r:
        return False
    if not (df.attrs['loaded_from'] is actual_path and ref.attrs['loaded_from'] is expected_path):
        return False
    if not all(f.attrs['loader'] is loader for f in loads):
        return False
    if kw.get('actual_path') is not actual_path or kw.get('expected_path') is not expected_path:
        return False
    return all(kw.get(k) is v for k, v in options.items())


_OPT = ('check_data', 'check_types', 'check_order', 'condition', 'sortby', 'precision', 'msgs')
contract(CP + 'PandasComparison.check_serialized_dataframe', props=['C05'],
         params=OrderedDict([('actual_path', T.str), ('expected_path', T.str), ('loader', T.opaque)]
                            + [(k, T.opaque) for k in _OPT]),
         self_view=_ser_view, spec_env=dict(PRIMS, compared_as_asked=compared_as_asked), result=T.none,
         ensures=[('the-two-files-are-loaded-alike-and-compared-with-the-options-given',
                   'compared_as_asked(result, actual_path, expected_path, loader, dict(check_data=check_data, '
                   'check_types=check_types, check_order=check_order, condition=condition, sortby=sortby, '
                   'precision=precision, msgs=msgs))')])


def _sers_view(it):
    o = _ser_view(it)

    def one(it2, self, actual_path, expected_path, **kw):
        k = len(it2.ghost.setdefault('pairs', []))
        raises = it2.path.choose([True, True]) == 1
        n = it2.fresh(T.nat, 'failures_of_pair_%d' % k)
        it2.ghost['pairs'].append((actual_path, expected_path, dict(kw), None if raises else n))
        if raises:
            raise PyExc('ValueError', 'comparison of pair %d raised' % k)
        return (n, kw.get('msgs'))
    o.methods['check_serialized_dataframe'] = Builtin(one, 'check_serialized_dataframe')
    o.methods['info'] = Builtin(lambda it2, self, *a, **k: None, 'info')
    return o


@specfn
def failures_add_up(it, result, actual_paths, expected_paths):
    pairs = it.ghost.get('pairs', [])
    if len(pairs) != len(actual_paths):
        return False
    for (a, e, kw, n), wa, we in zip(pairs, actual_paths, expected_paths):
        if a is not wa or e is not we:
            return False
    total = z3.Sum([(n.z if n is not None else z3.IntVal(1)) for a, e, kw, n in pairs]) if pairs else z3.IntVal(0)
    got = result[0]
    gz = got.z if isinstance(got, SInt) else z3.IntVal(int(got))
    return SBool(gz == total)


_TWO_PATHS = T.custom(lambda it, n: [it.fresh_str(n + '0'), it.fresh_str(n + '1')])
def _sers_entry(it, senv):
    it.spec_env['Diffs'] = Builtin(lambda it2: SObj('Diffs', {'__open__': True}))


contract(CP + 'PandasComparison.check_serialized_dataframes', props=['C05'], on_entry=_sers_entry,
         params=OrderedDict([('actual_paths', _TWO_PATHS), ('expected_paths', _TWO_PATHS)]
                            + [(k, T.opaque) for k in ('check_data', 'check_types', 'check_order', 'condition', 'sortby')]
                            + [('msgs', T.const(None))]),
         self_view=_sers_view, spec_env=dict(PRIMS, failures_add_up=failures_add_up), result=T.none,
         ensures=[('every-pair-is-compared-and-the-failures-add-up-a-raising-pair-counting-one',
                   'failures_add_up(result, actual_paths, expected_paths)')])
