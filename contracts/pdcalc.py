"""
Sidecar contracts for tdda/constraints/pd/constraints.py::PandasConstraintCalculator
(C07, and through it C01 / C02 / C06): the statistics the discoverer and the
verifiers ask for.

The abstract calculator interface (extension.BaseConstraintCalculator) carries
*assumed* contracts A-calc.* in contracts.constraints: calc_min returns the
least non-null value, calc_null_count the number of null rows, and so on, all
over a ghost column view.  Here the pandas implementations of those methods are
verified against THE SAME clauses, over a stub of the pandas objects whose
operations carry the pandas meaning (A-pandas):

    len(df) = number of rows          Series.count() = non-null rows
    Series.min() / .max() = least / greatest non-null value (NaN when there is none), as a numpy / pandas scalar
    Series.dropna() = the same values without the nulls
    Series.str.len() = the lengths of the string values (null where the value is null)
    Series.nunique() = number of distinct non-null values

so that, for the pandas route, A-calc is no longer an assumption about tdda
code but a consequence of A-pandas.  Still assumed (not brought under
contract): calc_unique_values, calc_non_integer_values_count,
calc_all_non_nulls_boolean, calc_rex_constraint, find_rexes -- audited by the
bounded layer on real frames.
"""
import z3

from pyvc.contracts import contract, Contract, REGISTRY
from pyvc.sym import T, SObj, SBool, SInt, SReal, SStr, SDate, Sym, Unsupported
from pyvc.ops import zbool, values_equal
from pyvc.interp import Builtin, specfn
from pyvc import extract
from specs.sym_prims import constraints_spec_env, make_col

PD = 'tdda/constraints/pd/constraints.py::'
CALC = PD + 'PandasConstraintCalculator.'
ENV = constraints_spec_env()


def _quant_facts(it, col, value, kind, of_lengths=False):
    """Assume about `value` what pandas promises for min (kind '<=') / max ('>=') over the non-null rows."""
    z = col.z
    p = it.path
    i = z3.Int(z['name'] + '!pq')
    inr = z3.And(i >= 0, i < z['N'], z3.Not(z['null'](i)))
    from pyvc.sym import slen
    cell = (lambda q: slen(z['val'](q))) if of_lengths else (lambda q: z['val'](q))
    vz = value.z
    if col.attrs['ttype'] == 'string' and not of_lengths:
        from pyvc.sym import str_lt
        le = lambda a, b: z3.Or(str_lt(a, b), a == b)
    elif col.attrs['ttype'] == 'bool' and not of_lengths:
        le = lambda a, b: z3.Implies(a, b)
    else:
        le = lambda a, b: a <= b
    bound = (lambda q: le(vz, cell(q))) if kind == 'min' else (lambda q: le(cell(q), vz))
    p.assume(z3.ForAll([i], z3.Implies(inr, bound(i))))
    w = z3.Int(p.fresh_name(z['name'] + '!attained'))
    p.assume(z3.Implies(z['nn'] > 0, z3.And(w >= 0, w < z['N'], z3.Not(z['null'](w)), cell(w) == vz)))


def scalar(it, col, value, of_lengths=False):
    """
    What Series.min()/max() hands back: NaN for an empty selection, otherwise a numpy scalar (has .item()), a pandas
    Timestamp (has .to_pydatetime()) or, for an object column of strings, the Python string itself.
    """
    ttype = 'int' if of_lengths else col.attrs['ttype']
    empty = col.z['nn'] == 0
    if it.branch(empty):
        s = SObj('numpy.float64', {'__open__': False, 'native': None, 'kind': 'nan'}, label='nan')
        s.methods['item'] = Builtin(lambda it2, self: None, 'item')          # NaN: the null value (FP-REAL)
        return s
    if ttype == 'string':
        return value                                                      # a Python str: no item(), no to_pydatetime()
    if ttype == 'date':
        s = SObj('Timestamp', {'__open__': False, 'native': value, 'kind': 'date'}, label='Timestamp')
        s.methods['to_pydatetime'] = Builtin(lambda it2, self, warn=True: value, 'to_pydatetime')
        s.methods['item'] = Builtin(lambda it2, self: _unsupported('Timestamp.item() (an integer of nanoseconds)'), 'item')
        return s
    s = SObj('numpy.scalar', {'__open__': False, 'native': value, 'kind': ttype}, label='numpy scalar')
    s.methods['item'] = Builtin(lambda it2, self: value, 'item')
    return s


def _unsupported(msg):
    raise Unsupported(msg)


def series(it, col, dropped=False, lengths=False):
    s = SObj('Series', {'__open__': False, 'col': col, 'dropped': dropped, 'lengths': lengths}, label='Series')
    z = col.z
    wrap = (lambda e: SInt(e)) if lengths else z['wrap']
    sort_val = (lambda: it.fresh(T.int, 'extreme_length')) if lengths else (lambda: _fresh_like(it, col))

    def extreme(kind):
        def m(it2, self):
            # an object-dtype column (strings, date or bool objects) that still holds its nulls cannot be ordered:
            # pandas compares the objects with the NaN standing for the null (TypeError, or a meaningless result)
            od = col.attrs['object_dtype']
            if not lengths and not dropped and (od if isinstance(od, bool) else it2.branch(od.z)) \
                    and it2.branch(z['n0'] > 0) and it2.branch(z['nn'] > 0):
                from pyvc.ops import PyExc
                raise PyExc('TypeError', "'<=' not supported between a value and the float standing for a null")
            v = sort_val()
            _quant_facts(it2, col, v, kind, of_lengths=lengths)
            return scalar(it2, col, v, of_lengths=lengths)
        return m
    s.methods['min'] = Builtin(extreme('min'), 'Series.min')
    s.methods['max'] = Builtin(extreme('max'), 'Series.max')
    s.methods['dropna'] = Builtin(lambda it2, self: series(it2, col, True, lengths), 'Series.dropna')
    s.methods['count'] = Builtin(lambda it2, self: SInt(z['nn']), 'Series.count')
    s.methods['nunique'] = Builtin(lambda it2, self: SInt(z['nu']), 'Series.nunique')
    s.attrs['__len__'] = SInt(z['nn']) if dropped else SInt(z['N'])
    if not lengths:
        strm = SObj('StringMethods', {'__open__': False})
        strm.methods['len'] = Builtin(lambda it2, self: series(it2, col, dropped, True), 'str.len')
        s.attrs['str'] = strm
    return s


def _fresh_like(it, col):
    t = col.attrs['ttype']
    if t == 'other':
        raise Unsupported('extreme value of an "other" column')
    td = {'bool': T.bool, 'int': T.int, 'real': T.real, 'string': T.str, 'date': T.datetime}[t]
    return it.fresh(td, 'extreme')


def _calc_view(it, ttypes=None):
    rc = extract.load_module('tdda/constraints/pd/constraints.py').classes['PandasConstraintCalculator']
    col = make_col(it, 'col', exists=True, **({'ttypes': ttypes} if ttypes else {}))
    colname = it.fresh_str('colname')
    # the dtype is `object` for strings, never for int / real columns, and possibly for dates and booleans
    # (datetime.date objects, booleans with None)
    t = col.attrs['ttype']
    col.attrs['object_dtype'] = True if t == 'string' else (False if t in ('int', 'real') else it.fresh(T.bool, 'object_dtype'))
    df = SObj('DataFrame', {'__open__': False, '__len__': SInt(col.z['N'])}, label='df')

    def getitem(it2, self, k):
        if it2.branch(zbool(values_equal(it2, k, colname))):
            return series(it2, col)
        raise Unsupported('a column other than the one under consideration')
    df.methods['__getitem__'] = Builtin(getitem, 'DataFrame.__getitem__')
    o = SObj('PandasConstraintCalculator', {'df': df, 'col': col, 'colname': colname}, label='self')
    o.repo_class = rc
    return o


# assumed helpers of the pandas module (A-pandas level)
def _is_string_col_effect(it, env):
    s = env['col']
    return s.attrs['col'].attrs['object_dtype']        # pandas is_string_dtype: true of every object-dtype column


def _tdda_type_effect(it, env):
    x = env['x']
    if isinstance(x, SObj) and x.cls == 'Series':
        return x.attrs['col'].attrs['ttype']
    if isinstance(x, SObj) and 'kind' in x.attrs:
        return {'nan': 'null'}.get(x.attrs['kind'], x.attrs['kind'])
    if isinstance(x, (str, SStr)):
        return 'string'
    raise Unsupported('pandas_tdda_type of %r' % (x,))


def _register():
    c = Contract('tdda/pd/utils.py::is_string_col', params=dict(col=None), effects=_is_string_col_effect, result=T.none,
                 assumed=True, name='is_string_col',
                 trusted_note='is_string_col(series) is pandas is_string_dtype: true of object-dtype columns (strings, but also date and bool objects)')
    REGISTRY[c.ident] = c
    c = Contract(PD + 'pandas_tdda_type', params=dict(x=None), effects=_tdda_type_effect, result=T.none, assumed=True,
                 name='pandas_tdda_type',
                 trusted_note='pandas_tdda_type(x) is the tdda type of a column or of a scalar taken from it (dtype table '
                              'audited by the bounded layer)')
    REGISTRY[c.ident] = c


_register()

@specfn
def is_plain_value(it, v):
    """None or a Python / symbolic value -- not a numpy or pandas scalar object."""
    return not isinstance(v, SObj)


@specfn
def native_of(it, v):
    """The Python value of a numpy scalar (the length statistics are handed on as numpy scalars)."""
    if isinstance(v, SObj) and 'native' in v.attrs:
        return v.attrs['native']
    return v


ENV['is_plain_value'] = is_plain_value
ENV['native_of'] = native_of

THIS = ('this-column', 'colname == self.colname')


_ORDERED = ('bool', 'int', 'real', 'string', 'date')      # an ordering question is not asked of an 'other' column


def _calc(name, params, ensures, ttypes=None, **kw):
    view = (lambda it: _calc_view(it, ttypes)) if ttypes else _calc_view
    c = contract(CALC + name, props=['C07', 'C01', 'C02'], params=params, self_view=view, spec_env=ENV,
                 requires=[THIS] if 'colname' in params else [], ensures=ensures, **kw)
    c.abstraction = ('pandas objects are stubs with the pandas meaning of len / count / min / max / dropna / str.len / '
                     'nunique over a ghost column (A-pandas); the clauses are those of the assumed calculator '
                     'contract of the same name (A-calc)')
    return c


_calc('get_nrecords', {}, [('number-of-rows', 'result == self.col.N')], result=T.int)
_calc('calc_null_count', dict(colname=T.str), [('number-of-null-rows', 'result == self.col.n0')], result=T.int)
_calc('calc_non_null_count', dict(colname=T.str), [('number-of-rows-with-a-value', 'result == self.col.nn')],
      result=T.int, inline=[CALC + 'calc_null_count'])
_calc('calc_nunique', dict(colname=T.str), [('number-of-distinct-values', 'result == self.col.nunique')], result=T.int)
_calc('calc_tdda_type', dict(colname=T.str), [('type-of-the-column', 'result == self.col.ttype')], result=T.none)

for _name, _bound, _label in (('calc_min', '>=', 'lower-bound'), ('calc_max', '<=', 'upper-bound')):
    _calc(_name, dict(colname=T.str),
          [('null-iff-empty', '(result is None) == (self.col.nn == 0)'),
           (_label, 'result is None or forall_nn(self.col, lambda x: x %s result)' % _bound),
           ('attained', 'result is None or exists_nn(self.col, lambda x: x == result)'),
           ('a-plain-python-value', 'is_plain_value(result)')], result=T.none, ttypes=_ORDERED)

for _name, _bound, _label in (('calc_min_length', '>=', 'lower-bound'), ('calc_max_length', '<=', 'upper-bound')):
    c = _calc(_name, dict(colname=T.str),
              [('null-iff-empty', '(native_of(result) is None) == (self.col.nn == 0)'),
               (_label, 'native_of(result) is None or forall_nn(self.col, lambda x: len(x) %s native_of(result))' % _bound),
               ('attained', 'native_of(result) is None or exists_nn(self.col, lambda x: len(x) == native_of(result))')],
              result=T.none, ttypes=('string',))




# at call sites (one calculator method calling another): the type question has a direct answer; the extreme-value
# methods are not used through their contracts (their result type depends on the column) -- a caller that does so is
# outside the modelled subset, not a vacuous path
REGISTRY[CALC + 'calc_tdda_type'].effects = lambda it, env: env['self'].attrs['col'].attrs['ttype']


def _not_at_call_sites(name):
    def eff(it, env):
        raise Unsupported('%s used through its contract at a call site' % name)
    return eff


for _n in ('calc_min', 'calc_max', 'calc_min_length', 'calc_max_length'):
    REGISTRY[CALC + _n].effects = _not_at_call_sites(_n)
