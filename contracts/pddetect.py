"""
Sidecar contracts for the record-level detection methods of
tdda/constraints/pd/constraints.py::PandasConstraintDetector (C06) and for the
two fuzzy column comparisons they use.

The pandas objects are stubs (A-pandas): a column is an object whose
element-wise operations (comparison with a value, .str.len(), .isin(),
~, |, pd.notnull, DataFrame.duplicated) return *mask descriptions* -- terms
that say which record-level predicate the mask stands for.  The contracts
say, per constraint kind, which description must be written to the output
frame under which column name:

   every record false                       for a kind the field's type cannot satisfy
   the records satisfying the documented    otherwise, nulls left unflagged
   record-level meaning                     (detection_field: assumed, A-pandas)

so each method is proved, for every column name, bound, precision, epsilon
and field type, to write exactly one flag column, under the name of its
constraint kind, holding the mask the property's sentence describes.
The methods are loop-free: this is a complete proof under the stub's reading
of pandas.
"""
import z3

from pyvc.contracts import contract, Contract, REGISTRY
from pyvc.sym import T, SObj, SBool, SInt, SReal, SStr, Sym, Unsupported
from pyvc.ops import zbool, values_equal
from pyvc.interp import Builtin, specfn
from pyvc import extract
from specs.sym_prims import PRIMS

PD = 'tdda/constraints/pd/constraints.py::'
BASE = 'tdda/constraints/base.py::'
DETC = PD + 'PandasConstraintDetector.'


# ---------------------------------------------------------------------------
# stubs
# ---------------------------------------------------------------------------

def mask(desc):
    m = SObj('mask', {'desc': desc, '__open__': False}, label='mask')
    m.attrs['__unaryop__'] = lambda it, op, a: (mask(('not', a.attrs['desc'])) if op == '~' else _unsupported('unary %s on a mask' % op))
    m.attrs['__binop__'] = _mask_binop
    return m


def _unsupported(msg):
    raise Unsupported(msg)


def _mask_binop(it, op, a, b):
    if op == '|' and all(isinstance(x, SObj) and x.cls == 'mask' for x in (a, b)):
        return mask(('or', a.attrs['desc'], b.attrs['desc']))
    raise Unsupported('%s on a mask' % op)


_FLIP = {'<': '>', '>': '<', '<=': '>=', '>=': '<=', '==': '==', '!=': '!='}


def _series(it, what):
    """A column-like stub: element-wise comparisons give masks over `what` (the column or its string lengths)."""
    s = SObj('Series', {'what': what, '__open__': False}, label=str(what))

    def cmp(it2, op, a, b):
        if a is s:
            return mask((op, what, b))
        return mask((_FLIP[op], what, a))
    s.attrs['__cmp__'] = cmp
    return s


def column(it, colname):
    c = _series(it, ('values', colname))
    strm = SObj('StringMethods', {'__open__': False})
    strm.methods['len'] = Builtin(lambda it2, self: _series(it2, ('lengths', colname)), 'str.len')
    c.attrs['str'] = strm
    c.methods['isin'] = Builtin(lambda it2, self, values: mask(('isin', ('values', colname), values)), 'isin')
    return c


def _detector_view(it):
    rc = extract.load_module('tdda/constraints/pd/constraints.py').classes['PandasConstraintDetector']
    df = SObj('DataFrame', {'__open__': False}, label='df')
    df.methods['__getitem__'] = Builtin(lambda it2, self, k: column(it2, k), 'DataFrame.__getitem__')
    df.methods['duplicated'] = Builtin(lambda it2, self, subset=None, keep='first':
                                       mask(('duplicated', subset, keep)), 'DataFrame.duplicated')
    out = SObj('DataFrame', {'__open__': False}, label='out_df')
    out.attrs['__setitem__'] = lambda it2, obj, k, v: it2.ghost.setdefault('written', []).append((k, v))
    is_date_col = it.fresh(T.bool, 'colname_is_a_date_column')
    it.ghost['is_date_col'] = is_date_col
    date_cols = SObj('list', {'__contains__': (lambda x: is_date_col), '__open__': False}, label='date_cols')
    o = SObj('PandasConstraintDetector', {'df': df, 'out_df': out, 'date_cols': date_cols}, label='self')
    o.repo_class = rc
    return o


def _entry(it, senv):
    pd = SObj('module', {'__open__': False}, label='pd')
    pd.methods['notnull'] = Builtin(lambda it2, self, c: mask(('notnull', c.attrs['what'])), 'pd.notnull')
    it.spec_env['pd'] = pd
    it.structured_text = True


# assumed callees (A-pandas level)
_COMPAT = z3.Bool('field_type_compatible_with_bound')
_COARSE = z3.Int('coarse_type_of_field')      # 0 number, 1 string, 2 date, 3 other
_COARSE_NAMES = ['number', 'string', 'date', 'other']


def _coarse_effect(it, env):
    k = it.path.choose([True] * len(_COARSE_NAMES))
    it.ghost['coarse'] = _COARSE_NAMES[k]
    return _COARSE_NAMES[k]


def _compat_effect(it, env):
    r = it.ghost.setdefault('compat', it.fresh(T.bool, 'types_compatible'))
    return r


def _detection_field_effect(it, env):
    col, expr = env['column'], env['expr']
    if not (isinstance(col, SObj) and col.cls == 'Series' and isinstance(expr, SObj) and expr.cls == 'mask'):
        raise Unsupported('detection_field on something other than a column and a mask')
    return ('flags-with-nulls-as', col.attrs['what'], expr.attrs['desc'], env.get('default'))


def _register():
    c = Contract(PD + 'pandas_coarse_type', params=dict(x=None), effects=_coarse_effect, result=T.none, assumed=True,
                 name='pandas_coarse_type',
                 trusted_note='pandas_coarse_type(column) is one of number / string / date / other (its table of dtypes '
                              'is audited by the bounded layer)')
    REGISTRY[c.ident] = c
    c = Contract(PD + 'pandas_types_compatible', params=dict(x=None, y=None, colname=None), effects=_compat_effect,
                 result=T.none, assumed=True, name='pandas_types_compatible',
                 trusted_note='pandas_types_compatible(column, bound) is a yes/no question about the two types')
    c.defaults = {'colname': None}
    REGISTRY[c.ident] = c
    c = Contract(PD + 'detection_field', params=dict(column=None, expr=None, default=None),
                 effects=_detection_field_effect, result=T.none, assumed=True, name='detection_field',
                 trusted_note='detection_field(column, mask, default) holds the mask on records with a value and '
                              'default (null if None) on null records (A-pandas: isnull, where, astype)')
    c.defaults = {'default': None}
    REGISTRY[c.ident] = c


_register()


# ---------------------------------------------------------------------------
# the record-level meaning of each constraint kind (from the property's sentence and the documented meanings)
# ---------------------------------------------------------------------------

def _eq(it, a, b):
    """Deep equality of two descriptions -> z3 Bool."""
    if isinstance(a, tuple) or isinstance(b, tuple):
        if not (isinstance(a, tuple) and isinstance(b, tuple)) or len(a) != len(b):
            return z3.BoolVal(False)
        return z3.And(*[_eq(it, x, y) for x, y in zip(a, b)]) if a else z3.BoolVal(True)
    if a is None or b is None:
        return z3.BoolVal(a is None and b is None)
    if isinstance(a, (list, SObj)) or isinstance(b, (list, SObj)):
        return z3.BoolVal(a is b)
    r = values_equal(it, a, b)
    return r.z if isinstance(r, SBool) else (r if z3.is_expr(r) else z3.BoolVal(bool(r)))


def _name_is(it, k, colname, suffix):
    """k is '%s_%s_ok' % (colname, suffix)  (the text is kept as a structure: structured_text)."""
    from pyvc.sym import SText
    if not (isinstance(k, SText) and len(k.parts) == 1 and isinstance(k.parts[0], tuple)):
        return z3.BoolVal(False)
    _, fmt, args = k.parts[0]
    if fmt != '%s_%s_ok' or len(args) != 2 or args[1] != suffix:
        return z3.BoolVal(False)
    return _eq(it, args[0], colname)


@specfn
def written_exactly(it, name, content):
    """Exactly one flag column was written: under the name `name` = (column, suffix), holding `content`."""
    w = it.ghost.get('written', [])
    if len(w) != 1:
        return False
    k, v = w[0]
    if isinstance(v, SObj) and v.cls == 'mask':
        v = ('mask', v.attrs['desc'])
    return SBool(z3.And(_name_is(it, k, name[0], name[1]), _eq(it, v, content)))


@specfn
def flag_name(it, colname, suffix):
    return (colname, suffix)


ALL_FALSE = False


@specfn
def every_record_false(it):
    return False


@specfn
def flags(it, colname, pred, default=None):
    """Flags of the records with a value: pred; null records: default (null when None)."""
    return ('flags-with-nulls-as', ('values', colname), pred, default)


@specfn
def values_pred(it, op, colname, bound):
    return (op, ('values', colname), bound)


@specfn
def lengths_pred(it, op, colname, bound):
    return (op, ('lengths', colname), bound)


@specfn
def fuzzy_pred(it, op, colname, bound, fuzzed):
    return ('or', (op, ('values', colname), bound), (op, ('values', colname), fuzzed))


@specfn
def not_in(it, colname, values):
    return ('not', ('isin', ('values', colname), values))


@specfn
def not_duplicated(it, colname):
    return ('not', ('duplicated', colname, False))


@specfn
def compatible(it):
    c = it.ghost.get('compat')
    return c if c is not None else True


@specfn
def coarse(it):
    return it.ghost.get('coarse')


@specfn
def date_column(it):
    return it.ghost['is_date_col']


@specfn
def nothing_written(it):
    return not it.ghost.get('written')


ENV = dict(PRIMS, written_exactly=written_exactly, flag_name=flag_name, flags=flags, values_pred=values_pred,
           lengths_pred=lengths_pred, fuzzy_pred=fuzzy_pred, not_in=not_in, not_duplicated=not_duplicated,
           compatible=compatible, coarse=coarse,  date_column=date_column, nothing_written=nothing_written,
           every_record_false=every_record_false)


# the fuzzy column comparisons: a >~ b is (a >= b) | (a >= fuzz_down(b, eps)), element-wise
_fz = z3.Function('fuzzed_bound', z3.RealSort(), z3.RealSort(), z3.IntSort(), z3.RealSort())


def _fuzz_effect(direction):
    def eff(it, env):
        it.ghost['fuzzed'] = it.fresh(T.real, 'fuzz_%s(b)' % direction)
        return it.ghost['fuzzed']
    return eff


@specfn
def fuzzed(it):
    return it.ghost['fuzzed']


class _Fuzzy(Contract):
    def verify(self, registry=None, quick=False):
        reg = dict(REGISTRY if registry is None else registry)
        for d in ('down', 'up'):
            c = Contract(BASE + 'fuzz_' + d, params=dict(v=None, epsilon=None), effects=_fuzz_effect(d), result=T.none,
                         name='fuzz_%s(bound)' % d, spec_env=ENV,
                         trusted_note='verified separately (contracts.constraints): here only its result is named')
            reg[c.ident] = c
        return Contract.verify(self, reg, quick)


def _colparam(it, name):
    return column(it, 'c')


for _fn, _op in (('df_fuzzy_gt', '>='), ('df_fuzzy_lt', '<=')):
    _c = _Fuzzy(PD + _fn, props=['C06'], params=dict(a=T.custom(_colparam), b=T.real, epsilon=T.real),
                spec_env=dict(ENV, fuzzed=fuzzed), result=T.none,
                ensures=[('records-within-the-bound-or-within-the-fuzzed-bound',
                          "result.desc == fuzzy_pred('%s', 'c', b, fuzzed())" % _op)])
    REGISTRY[_c.ident] = _c


def _df_fuzzy_effect(op):
    def eff(it, env):
        a = env['a']
        fz = it.fresh(T.real, 'fuzzed_bound')
        it.ghost['fuzzed'] = fz
        return mask(('or', (op, a.attrs['what'], env['b']), (op, a.attrs['what'], fz)))
    return eff


REGISTRY[PD + 'df_fuzzy_gt'].effects = _df_fuzzy_effect('>=')
REGISTRY[PD + 'df_fuzzy_lt'].effects = _df_fuzzy_effect('<=')

_BOUND = T.union(T.int, T.real, T.str)
_PREC = T.union(T.const(None), T.const('closed'), T.const('open'), T.const('fuzzy'))


def _det(name, params, ensures, **kw):
    c = contract(DETC + name, props=['C06'], params=params, self_view=_detector_view, on_entry=_entry,
                 spec_env=dict(ENV, fuzzed=fuzzed), result=T.none, ensures=ensures,
                 inline=[PD + 'verification_field'], **kw)
    c.abstraction = ('pandas objects are stubs whose element-wise operations return mask descriptions (A-pandas); '
                     'pandas_types_compatible / pandas_coarse_type / detection_field are assumed at that level')
    return c


def _written_z(it, colname, suffix, content):
    r = written_exactly.fn(it, (colname, suffix), content)
    return r.z if isinstance(r, SBool) else z3.BoolVal(bool(r))


@specfn
def bound_flags_written(it, kind, colname, value, precision, closed_op, open_op):
    """
    The min / max rule: every record false when the bound's type does not fit the field; otherwise the records
    within the bound -- inclusive when the precision is 'closed' or the field is a date column, exclusive when
    'open', inclusive with the fuzzed bound as an alternative otherwise.
    """
    def z(b):
        return b.z if isinstance(b, SBool) else z3.BoolVal(bool(b))
    compat = z(it.ghost['compat']) if it.ghost.get('compat') is not None else z3.BoolVal(True)
    date = z(it.ghost['is_date_col'])
    vals = ('values', colname)

    def fl(pred):
        return ('flags-with-nulls-as', vals, pred, None)
    closed = _written_z(it, colname, kind, fl((closed_op, vals, value)))
    opened = _written_z(it, colname, kind, fl((open_op, vals, value)))
    fz = it.ghost.get('fuzzed')
    fuzzy = (_written_z(it, colname, kind, fl(('or', (closed_op, vals, value), (closed_op, vals, fz))))
             if fz is not None else z3.BoolVal(False))
    allfalse = _written_z(it, colname, kind, False)
    is_closed = z3.Or(z3.BoolVal(precision == 'closed'), date)
    rule = z3.If(z3.Not(compat), allfalse,
                 z3.If(is_closed, closed, opened if precision == 'open' else fuzzy))
    return SBool(rule)


ENV['bound_flags_written'] = bound_flags_written


for _kind, _closed, _open in (('min', '>=', '>'), ('max', '<=', '<')):
    _det('detect_%s_constraint' % _kind,
         dict(colname=T.str, value=_BOUND, precision=_PREC, epsilon=T.real),
         [('writes-the-%s-flag-column-with-the-documented-record-level-meaning' % _kind,
           "bound_flags_written('%s', colname, value, precision, '%s', '%s')" % (_kind, _closed, _open))])

for _kind, _op in (('min_length', '>='), ('max_length', '<=')):
    _det('detect_%s_constraint' % _kind, dict(colname=T.str, value=T.int),
         [('writes-the-%s-flag-column-with-the-documented-record-level-meaning' % _kind,
           "written_exactly(flag_name(colname, '%s'), "
           "every_record_false() if coarse() != 'string' else flags(colname, lengths_pred('%s', colname, value)))"
           % (_kind, _op))])

_det('detect_tdda_type_constraint', dict(colname=T.str, value=T.str),
     [('every-record-is-flagged-for-a-type-failure', "written_exactly(flag_name(colname, 'type'), every_record_false())")])

_SIGNS = T.union(*[T.const(s) for s in ('positive', 'non-negative', 'zero', 'non-positive', 'negative', 'null')])
_det('detect_sign_constraint', dict(colname=T.str, value=_SIGNS),
     [('writes-the-sign-flag-column-with-the-documented-record-level-meaning',
       "written_exactly(flag_name(colname, 'sign'), "
       "every_record_false() if (coarse() != 'number' or value == 'null') else "
       "flags(colname, values_pred({'positive': '>', 'non-negative': '>=', 'zero': '==', 'non-positive': '<=', "
       "'negative': '<'}[value], colname, 0)))")])

_det('detect_max_nulls_constraint', dict(colname=T.str, value=T.nat),
     [('null-records-are-the-flagged-ones',
       "written_exactly(flag_name(colname, 'nonnull'), ('mask', ('notnull', ('values', colname))))")])

_det('detect_no_duplicates_constraint', dict(colname=T.str, value=T.bool),
     [('every-member-of-a-duplicated-group-is-flagged-nulls-are-not',
       "written_exactly(flag_name(colname, 'nodups'), flags(colname, not_duplicated(colname), True))")])

_VALS = T.list(T.str)
_det('detect_allowed_values_constraint', dict(colname=T.str, allowed_values=_VALS, violations=T.custom(lambda it, n: it.fresh_opaque('violations'))),
     [('records-holding-a-violating-value-are-flagged',
       "written_exactly(flag_name(colname, 'values'), flags(colname, not_in(colname, violations)))")])

_det('detect_rex_constraint', dict(colname=T.str, violations=T.custom(lambda it, n: it.fresh_opaque('violations'))),
     [('records-holding-an-unmatched-string-are-flagged',
       "written_exactly(flag_name(colname, 'rex'), "
       "every_record_false() if coarse() != 'string' else flags(colname, not_in(colname, violations)))")])


# ---------------------------------------------------------------------------
# write_detected_records (C06), the in-memory part (no output file): per-record failure counts, the two record
# counts, which records and which columns the detection frame holds, and the input frame's frame condition.
#
# Row-level model of the pandas frames (A-pandas): a frame is an ordered list of (name, row -> value) columns over
# N rows plus a row predicate (which of the N rows it holds).  Flag values are three-valued (1 true, 0 false,
# -1 null).  sum(axis=1) counts the true flags of a row, isnull().sum(axis=1) the null ones; arithmetic and
# comparisons on series are element-wise; boolean indexing restricts the rows; drop / insert / item assignment
# edit the column list.  Counting the rows of a mask gives an uninterpreted number tied to that mask.
# ---------------------------------------------------------------------------

_ROW = z3.Int('row!r')


def _rowfn_series(fn, label='series'):
    s = SObj('RowSeries', {'__open__': False, 'fn': fn}, label=label)
    s.methods['astype'] = Builtin(lambda it, self, t: self, 'astype')

    def binop(it, op, a, b):
        fa = a.attrs['fn'] if isinstance(a, SObj) else (lambda r, a=a: z3.IntVal(int(a)))
        fb = b.attrs['fn'] if isinstance(b, SObj) else (lambda r, b=b: z3.IntVal(int(b)))
        if op == '-':
            return _rowfn_series(lambda r: fa(r) - fb(r))
        if op == '+':
            return _rowfn_series(lambda r: fa(r) + fb(r))
        raise Unsupported('%s on a row series' % op)
    s.attrs['__binop__'] = binop

    def cmp(it, op, a, b):
        if a is not s or isinstance(b, SObj):
            raise Unsupported('comparison of row series')
        bz = b.z if isinstance(b, SInt) else z3.IntVal(int(b))
        rel = {'>': lambda x: x > bz, '>=': lambda x: x >= bz, '<': lambda x: x < bz, '<=': lambda x: x <= bz,
               '==': lambda x: x == bz, '!=': lambda x: x != bz}[op]
        return _rowmask(lambda r: rel(fn(r)))
    s.attrs['__cmp__'] = cmp
    return s


def _rowmask(pred):
    m = SObj('RowMask', {'__open__': False, 'pred': pred}, label='mask')

    def astype(it, self, t):
        ints = SObj('RowMaskInts', {'__open__': False, 'pred': pred})

        def total(it2, self2):
            n = it2.fresh(T.nat, 'rows_of_mask')
            it2.ghost.setdefault('counts', []).append((n, pred))
            return n
        ints.methods['sum'] = Builtin(total, 'sum')
        return ints
    m.methods['astype'] = Builtin(astype, 'astype')
    return m


def _frame(it, cols, rows=None, N=None, label='frame'):
    f = SObj('RowFrame', {'__open__': False, 'cols': list(cols), 'rows': rows or (lambda r: z3.BoolVal(True)), 'N': N},
             label=label)
    f.attrs['__iter__'] = [n for n, _ in f.attrs['cols']]      # kept in step with the columns (see _sync)
    f.attrs['__len__'] = N

    def total(it2, self, axis=None):
        flags = [fn for n, fn in self.attrs['cols']]
        return _rowfn_series(lambda r: z3.Sum([z3.If(fn(r) == 1, 1, 0) for fn in flags]) if flags else z3.IntVal(0))
    f.methods['sum'] = Builtin(total, 'DataFrame.sum')

    def isnull(it2, self):
        flags = [fn for n, fn in self.attrs['cols']]
        g = SObj('RowFrameNulls', {'__open__': False})
        g.methods['sum'] = Builtin(lambda it3, s3, axis=None: _rowfn_series(
            lambda r: z3.Sum([z3.If(fn(r) == -1, 1, 0) for fn in flags]) if flags else z3.IntVal(0)), 'sum')
        return g
    f.methods['isnull'] = Builtin(isnull, 'DataFrame.isnull')

    def setitem(it2, obj, k, v):
        if not (isinstance(v, SObj) and 'fn' in v.attrs):
            raise Unsupported('assigning something other than a series to a frame column')
        obj.attrs['cols'] = [(n, fn) for n, fn in obj.attrs['cols'] if n != k] + [(k, v.attrs['fn'])]
        _sync(obj)
        if obj.attrs.get('is_input'):
            it2.ghost.setdefault('input_assignments', []).append(k)
    f.attrs['__setitem__'] = setitem

    def getitem(it2, self, k):
        if isinstance(k, SObj) and k.cls == 'RowMask':
            old = self.attrs['rows']
            return _frame(it2, self.attrs['cols'], lambda r: z3.And(old(r), k.attrs['pred'](r)), None, label)
        for n, fn in self.attrs['cols']:
            if n == k or (n is k):
                return _rowfn_series(fn, str(k))
        raise PyExcKey(k)
    f.methods['__getitem__'] = Builtin(getitem, 'DataFrame.__getitem__')

    def drop(it2, self, names, axis=None):
        names = list(names)
        return _frame(it2, [(n, fn) for n, fn in self.attrs['cols'] if n not in names], self.attrs['rows'],
                      self.attrs['N'], label)
    f.methods['drop'] = Builtin(drop, 'DataFrame.drop')

    def insert(it2, self, loc, name, value):
        if loc != 0:
            raise Unsupported('insert at a position other than 0')
        self.attrs['cols'] = [(name, value.attrs['fn'])] + self.attrs['cols']
        _sync(self)
    f.methods['insert'] = Builtin(insert, 'DataFrame.insert')
    return f


def _sync(f):
    f.attrs['__iter__'][:] = [n for n, _ in f.attrs['cols']]


def PyExcKey(k):
    from pyvc.ops import PyExc
    return PyExc('KeyError', repr(k))


_FLAGCOLS = (['c_min_ok'], ['c_min_ok', 'c_max_ok'], ['c_type_ok', 'd_sign_ok', 'd_nonnull_ok'])
_INPUTCOLS = ['c', 'd']


def _wdr_view(it):
    rc = extract.load_module('tdda/constraints/pd/constraints.py').classes['PandasConstraintDetector']
    k = it.path.choose([True] * len(_FLAGCOLS))
    names = _FLAGCOLS[k]
    N = it.fresh(T.nat, 'rows')
    flags = []
    for n in names:
        fn = z3.Function('flag.' + n, z3.IntSort(), z3.IntSort())
        q = z3.Int('flag!q')
        it.path.assume(z3.ForAll([q], z3.And(fn(q) >= -1, fn(q) <= 1)))
        flags.append((n, (lambda r, fn=fn: fn(r))))
    out = _frame(it, flags, None, N, 'out_df')
    inp = _frame(it, [(n, (lambda r, n=n: z3.Function('input.' + n, z3.IntSort(), z3.IntSort())(r))) for n in _INPUTCOLS],
                 None, N, 'df')
    inp.attrs['is_input'] = True
    it.ghost['flags'] = list(flags)
    it.ghost['N'] = N
    o = SObj('PandasConstraintDetector', {'df': inp, 'out_df': out, 'date_cols': []}, label='self')
    o.repo_class = rc
    return o


def _wdr_entry(it, senv):
    it.spec_env['Detection'] = Builtin(lambda it2, obj, npass, nfail: SObj('Detection', {
        'obj': obj, 'n_passing_records': npass, 'n_failing_records': nfail, '__open__': False}), 'Detection')


def _register_wdr():
    def ucn(it, env):
        n = it.fresh_str('unique_column_name')
        it.ghost.setdefault('fresh_names', []).append((n, env['name']))
        return n
    c = Contract(PD + 'unique_column_name', params=dict(df=None, name=None), effects=ucn, result=T.none, assumed=True,
                 name='unique_column_name', trusted_note='unique_column_name(df, name) is a name no column of df has')
    REGISTRY[c.ident] = c


_register_wdr()


def _bz(v):
    return v.z if isinstance(v, SBool) else z3.BoolVal(bool(v))


def _falses(it, r):
    return z3.Sum([z3.If(fn(r) == 0, 1, 0) for n, fn in it.ghost['flags']])


def _forall_rows(it, body):
    r = z3.Int('row!any')
    return z3.ForAll([r], z3.Implies(z3.And(r >= 0, r < it.ghost['N'].z), body(r)))


@specfn
def failure_count_is_the_number_of_false_flags(it, result):
    fr = result.attrs['obj']
    col = [fn for n, fn in fr.attrs['cols'] if n == 'n_failures']
    if len(col) != 1:
        return False
    return SBool(_forall_rows(it, lambda r: col[0](r) == _falses(it, r)))


@specfn
def record_counts_partition_the_rows(it, result):
    nf, np_ = result.attrs['n_failing_records'], result.attrs['n_passing_records']
    counts = it.ghost.get('counts', [])
    mine = [(n, pred) for n, pred in counts if n is nf]
    if len(mine) != 1:
        return False
    pred = mine[0][1]
    same_rows = _forall_rows(it, lambda r: pred(r) == (_falses(it, r) >= 1))
    nfz = nf.z if isinstance(nf, SInt) else z3.IntVal(int(nf))
    npz = np_.z if isinstance(np_, SInt) else z3.IntVal(int(np_))
    return SBool(z3.And(same_rows, npz + nfz == it.ghost['N'].z))


@specfn
def holds_exactly_the_failing_records_unless_all_are_asked_for(it, result, write_all):
    fr = result.attrs['obj']
    rows = fr.attrs['rows']
    return SBool(z3.If(_bz(write_all), _forall_rows(it, lambda r: rows(r)),
                       _forall_rows(it, lambda r: rows(r) == (_falses(it, r) >= 1))))


@specfn
def columns_are(it, result, per_constraint, output_fields):
    fr = result.attrs['obj']
    got = [n for n, _ in fr.attrs['cols']]
    want = ([] if output_fields is None else (list(_INPUTCOLS) if len(output_fields) == 0 else list(output_fields)))
    flags = [n for n, _ in it.ghost['flags']]
    return SBool(z3.If(_bz(per_constraint), z3.BoolVal(got == want + flags + ['n_failures']),
                       z3.BoolVal(got == want + ['n_failures'])))


@specfn
def input_frame_touched_only_in_place(it, in_place, result):
    touched = it.ghost.get('input_assignments', [])
    # in place: one new column per column of the detection frame (before the output fields are added), each under a
    # fresh name; otherwise nothing is assigned to the input frame
    fresh = [n for n, _ in it.ghost.get('fresh_names', [])]
    inplace_ok = len(touched) == len(fresh) and len(touched) >= 1 and all(a is b for a, b in zip(touched, fresh))
    return SBool(z3.If(_bz(in_place), z3.BoolVal(inplace_ok), z3.BoolVal(not touched)))


_WENV = dict(ENV, failure_count_is_the_number_of_false_flags=failure_count_is_the_number_of_false_flags,
             record_counts_partition_the_rows=record_counts_partition_the_rows,
             holds_exactly_the_failing_records_unless_all_are_asked_for=holds_exactly_the_failing_records_unless_all_are_asked_for,
             columns_are=columns_are, input_frame_touched_only_in_place=input_frame_touched_only_in_place)

_OUTFIELDS = T.union(T.const(None), T.const([]), T.const(['d']), T.const(['d', 'c']))
_wdr = contract(DETC + 'write_detected_records', props=['C06'],
                params=dict(detect_outpath=T.const(None), detect_write_all=T.bool, detect_per_constraint=T.bool,
                            detect_output_fields=_OUTFIELDS, detect_index=T.bool, detect_in_place=T.bool,
                            rownumber_is_index=T.bool, boolean_ints=T.bool, interleave=T.const(False)),
                self_view=_wdr_view, on_entry=_wdr_entry, spec_env=_WENV, result=T.none,
                ensures=[('each-record-s-failure-count-is-its-number-of-false-flags',
                          'failure_count_is_the_number_of_false_flags(result)'),
                         ('failing-records-are-those-with-a-false-flag-and-the-two-counts-partition-the-rows',
                          'record_counts_partition_the_rows(result)'),
                         ('the-detection-frame-holds-exactly-the-failing-records-unless-all-are-asked-for',
                          'holds_exactly_the_failing_records_unless_all_are_asked_for(result, detect_write_all)'),
                         ('columns-output-fields-then-flags-if-asked-then-the-count',
                          'columns_are(result, detect_per_constraint, detect_output_fields)'),
                         ('the-input-frame-is-assigned-to-only-for-in-place-output',
                          'input_frame_touched_only_in_place(detect_in_place, result)')])
_wdr.abstraction = ('in-memory part only (no output file, no interleaving); frames are row-level stubs: 1..3 three-valued flag '
                    'columns over any number of rows, element-wise arithmetic and comparison, row counts of masks '
                    'uninterpreted (A-pandas)')


# ---------------------------------------------------------------------------
# detection_field and pandas_coarse_type themselves (the detectors above use them through their contracts)
# ---------------------------------------------------------------------------

def _typename(t):
    n = getattr(t, 'name', None) or getattr(getattr(t, 't', None), '__name__', None) or repr(t)
    return 'bool' if 'bool' in str(n) else str(n)


def _df_entry(it, senv):
    nulls = it.fresh(T.nat, 'null_rows')
    it.ghost['nulls'] = nulls
    col = SObj('Series', {'__open__': False, 'what': ('values', 'c')}, label='column')
    isn = SObj('Series', {'__open__': False}, label='isnull')
    isn.methods['sum'] = Builtin(lambda it2, self: nulls, 'sum')
    col.methods['isnull'] = Builtin(lambda it2, self: isn, 'isnull')
    expr = SObj('mask', {'__open__': False, 'desc': ('the-mask',)}, label='expr')
    expr.methods['astype'] = Builtin(lambda it2, self, t: ('astype', self.attrs['desc'], t if isinstance(t, str) else _typename(t)), 'astype')
    senv['column'], senv['expr'] = col, expr
    np_ = SObj('module', {'__open__': False, 'nan': 'NaN'}, label='np')
    np_.methods['where'] = Builtin(lambda it2, self, c, a, b: ('where', c, a, b), 'np.where')
    pd_ = SObj('module', {'__open__': False}, label='pd')
    pd_.methods['isnull'] = Builtin(lambda it2, self, c: ('isnull', c.attrs['what']), 'pd.isnull')
    it.spec_env['np'], it.spec_env['pd'] = np_, pd_


@specfn
def flags_of_the_mask_nulls_as_default(it, result, default):
    """No null rows: the mask as booleans.  Otherwise: the mask where the column has a value, `default` (NaN when none
    is given) where it is null."""
    if it.ghost.get('nulls') is None:
        return True          # at a call site: the clause is about this function's own body
    nulls = it.ghost['nulls'].z
    plain = result == ('astype', ('the-mask',), 'bool')
    null = 'NaN' if default is None else default
    mixed = (isinstance(result, tuple) and len(result) == 4 and result[0] == 'where'
             and result[1] == ('isnull', ('values', 'c')) and result[3] == ('astype', ('the-mask',), 'O')
             and (result[2] is null or result[2] == null))
    return SBool(z3.If(nulls == 0, z3.BoolVal(bool(plain)), z3.BoolVal(bool(mixed))))


contract(PD + 'detection_field', props=['C06'],
         params=dict(column=None, expr=None, default=T.union(T.const(None), T.const(True), T.const(False))),
         on_entry=_df_entry, spec_env=dict(ENV, flags_of_the_mask_nulls_as_default=flags_of_the_mask_nulls_as_default),
         result=T.none,
         ensures=[('the-mask-on-records-with-a-value-the-default-on-null-records',
                   'flags_of_the_mask_nulls_as_default(result, default)')])
REGISTRY[PD + 'detection_field'].effects = _detection_field_effect
REGISTRY[PD + 'detection_field'].defaults = {'default': None}


def _ct_register():
    def tdda_type(it, env):
        k = it.path.choose([True] * 8)
        t = ('bool', 'int', 'real', 'string', 'date', 'null', 'other', 'weird')[k]
        it.ghost['tdda_type'] = t
        return t
    return Contract(PD + 'pandas_tdda_type', params=dict(x=None), effects=tdda_type, result=T.none, assumed=True,
                    name='pandas_tdda_type(any)', trusted_note='pandas_tdda_type(x) is one of the tdda type names')


class _Coarse(Contract):
    def verify(self, registry=None, quick=False):
        reg = dict(REGISTRY if registry is None else registry)
        reg[PD + 'pandas_tdda_type'] = _ct_register()
        return Contract.verify(self, reg, quick)


@specfn
def coarse_rule(it, result):
    t = it.ghost.get('tdda_type')
    if t is None:
        return True          # at a call site (the detectors): the clause is about this function's own body
    return result == ('number' if t in ('bool', 'int', 'real') else t)


_cc = _Coarse(PD + 'pandas_coarse_type', props=['C06', 'C02'], params=dict(x=T.opaque),
              spec_env=dict(ENV, coarse_rule=coarse_rule), result=T.none,
              ensures=[('bool-int-real-are-number-everything-else-is-itself', 'coarse_rule(result)')])
_cc.effects = _coarse_effect
REGISTRY[_cc.ident] = _cc
