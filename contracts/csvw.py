"""Sidecar contract for tdda/serial/pandasio.py::to_pandas_read_csv_args (C16)."""
import z3

from pyvc.contracts import contract
from pyvc.sym import T, SObj, SBool, SStr
from pyvc.ops import values_equal, zbool
from pyvc.interp import Builtin, specfn
from pyvc import extract
from specs.sym_prims import PRIMS

PIO = 'tdda/serial/pandasio.py::'
MTYPES = ('bool', 'int', 'string', 'number', 'datetime', 'date', None, 'weird')


def _md(it, name):
    fields = []
    for fname in ('a', 'b'):
        mt = it.fresh(T.enum(*MTYPES), fname + '.mtype')
        fmt = it.fresh(T.union(T.none, T.const('yes|no'), T.const('dd/MM/yyyy')), fname + '.format')
        # titles of the column (CSVW `titles`): absent, or a header text that differs from the declared name
        alt = it.fresh(T.union(T.none, T.const(['Title of ' + fname])), fname + '.altnames')
        fields.append(SObj('Field', {'name': fname, 'mtype': mt, 'format': fmt, 'altnames': alt,
                                     '__open__': False}))
    md = SObj('Metadata', {'fields': fields,
                           'delimiter': it.fresh(T.union(T.none, T.const('|')), 'delimiter'),
                           'encoding': it.fresh(T.union(T.none, T.const('latin-1')), 'encoding'),
                           'header_rows': it.fresh(T.union(T.const(0), T.const(1)), 'header_rows'),
                           '__open__': False})
    return md


@specfn
def expected_kwargs(it, md):
    table = extract.load_module('tdda/serial/pandasio.py').resolve('MTYPE_TO_PANDAS_DTYPE')
    want_dtype = {'bool': 'boolean', 'int': 'Int64', 'string': 'string', 'number': 'float'}
    fields = md.attrs['fields']
    dates = [f for f in fields if f.attrs['mtype'] in ('date', 'datetime')]
    kw = {}
    dt = {f.attrs['name']: want_dtype[f.attrs['mtype']] for f in fields if f.attrs['mtype'] in want_dtype}
    kw['dtype'] = dt or None
    if dates:
        kw['parse_dates'] = [f.attrs['name'] for f in dates]
        kw['date_format'] = {f.attrs['name']: f.attrs['format'] for f in dates}
    if md.attrs['delimiter']:
        kw['sep'] = md.attrs['delimiter']
    if md.attrs['encoding']:
        kw['encoding'] = md.attrs['encoding']
    if any(f.attrs['altnames'] for f in fields):
        # some header cell may hold a title instead of the declared name: the declared names replace the header row
        kw['names'] = [f.attrs['name'] for f in fields]
        kw['header'] = 0
    if md.attrs['header_rows'] == 0:
        kw['header'] = None
        kw['names'] = [f.attrs['name'] for f in fields]
    bools = [f.attrs['format'] for f in fields if f.attrs['mtype'] == 'bool' and f.attrs['format']]
    trues, falses = set(), set()
    for b in bools:
        parts = b.split('|')
        if len(parts) == 2:
            trues.add(parts[0])
            falses.add(parts[1])
    if bools and not (trues & falses):
        kw['true_values'] = sorted(trues)
        kw['false_values'] = sorted(falses)
    return kw


@specfn
def same_kwargs(it, got, want):
    if not isinstance(got, dict):
        return False
    g = dict(got)
    for k in ('true_values', 'false_values'):
        if k in g and isinstance(g[k], list):
            g[k] = sorted(g[k])
    return g == want


contract(PIO + 'to_pandas_read_csv_args', props=['C16'],
         params=dict(md=T.custom(_md)),
         spec_env=dict(PRIMS, expected_kwargs=expected_kwargs, same_kwargs=same_kwargs), result=T.opaque,
         ensures=[('declared-types-dates-dialect-and-booleans-passed-on',
                   'same_kwargs(result, expected_kwargs(md))')])
