"""Sidecar contract for tdda/serial/pandasio.py::to_pandas_read_csv_args (C16)."""
import z3

from pyvc.contracts import contract
from pyvc.sym import T, SObj, SBool, SStr
from pyvc.ops import values_equal, zbool
from pyvc.interp import Builtin, specfn
from pyvc import extract
from specs.sym_prims import PRIMS

PIO = 'tdda/serial/pandasio.py::'
MTYPES = ('bool', 'int', 'string', 'number', 'datetime', 'date', None, 'weird')


def _md(it, name):
    fields = []
    for fname in ('a', 'b'):
        mt = it.fresh(T.enum(*MTYPES), fname + '.mtype')
        fmt = it.fresh(T.union(T.none, T.const('yes|no'), T.const('dd/MM/yyyy')), fname + '.format')
        # titles of the column (CSVW `titles`): absent, or a header text that differs from the declared name
        alt = it.fresh(T.union(T.none, T.const(['Title of ' + fname])), fname + '.altnames')
        fields.append(SObj('Field', {'name': fname, 'mtype': mt, 'format': fmt, 'altnames': alt,
                                     '__open__': False}))
    md = SObj('Metadata', {'fields': fields,
                           'delimiter': it.fresh(T.union(T.none, T.const('|')), 'delimiter'),
                           'encoding': it.fresh(T.union(T.none, T.const('latin-1')), 'encoding'),
                           'header_rows': it.fresh(T.union(T.const(0), T.const(1)), 'header_rows'),
                           '__open__': False})
    return md


@specfn
def expected_kwargs(it, md):
    table = extract.load_module('tdda/serial/pandasio.py').resolve('MTYPE_TO_PANDAS_DTYPE')
    want_dtype = {'bool': 'boolean', 'int': 'Int64', 'string': 'string', 'number': 'float'}
    fields = md.attrs['fields']
    dates = [f for f in fields if f.attrs['mtype'] in ('date', 'datetime')]
    kw = {}
    dt = {f.attrs['name']: want_dtype[f.attrs['mtype']] for f in fields if f.attrs['mtype'] in want_dtype}
    kw['dtype'] = dt or None
    if dates:
        kw['parse_dates'] = [f.attrs['name'] for f in dates]
        kw['date_format'] = {f.attrs['name']: f.attrs['format'] for f in dates}
    if md.attrs['delimiter']:
        kw['sep'] = md.attrs['delimiter']
    if md.attrs['encoding']:
        kw['encoding'] = md.attrs['encoding']
    if any(f.attrs['altnames'] for f in fields):
        # some header cell may hold a title instead of the declared name: the declared names replace the header row
        kw['names'] = [f.attrs['name'] for f in fields]
        kw['header'] = 0
    if md.attrs['header_rows'] == 0:
        kw['header'] = None
        kw['names'] = [f.attrs['name'] for f in fields]
    bools = [f.attrs['format'] for f in fields if f.attrs['mtype'] == 'bool' and f.attrs['format']]
    trues, falses = set(), set()
    for b in bools:
        parts = b.split('|')
        if len(parts) == 2:
            trues.add(parts[0])
            falses.add(parts[1])
    if bools and not (trues & falses):
        kw['true_values'] = sorted(trues)
        kw['false_values'] = sorted(falses)
    return kw


@specfn
def same_kwargs(it, got, want):
    if not isinstance(got, dict):
        return False
    g = dict(got)
    for k in ('true_values', 'false_values'):
        if k in g and isinstance(g[k], list):
            g[k] = sorted(g[k])
    return g == want


contract(PIO + 'to_pandas_read_csv_args', props=['C16'],
         params=dict(md=T.custom(_md)),
         spec_env=dict(PRIMS, expected_kwargs=expected_kwargs, same_kwargs=same_kwargs), result=T.opaque,
         ensures=[('declared-types-dates-dialect-and-booleans-passed-on',
                   'same_kwargs(result, expected_kwargs(md))')])


# ---------------------------------------------------------------------------
# CSVWMetadata.get_fields_metadata (C16): what each described column becomes.  One column description per path, in
# every documented spelling: datatype as a plain name or as {base, format}, a separate format key, titles as a text or
# a list.  The declared type is looked up in the CSVW type table; a date / datetime format is translated (the
# translation itself is checked by complete enumeration of token sequences elsewhere), a format of any other type is
# kept as written, a date-like column without a format reads ISO 8601; titles become the alternative names.
# ---------------------------------------------------------------------------
from pyvc.contracts import Contract, REGISTRY
from pyvc.sym import Unsupported, SStr
from pyvc.ops import strz, PyExc
import z3 as _z3
from pyvc.sym import StrS as _StrS

CW = 'tdda/serial/csvw.py::'
_TRANSLATED = _z3.Function('csvw_date_format_to_md_date_format', _StrS, _StrS)
_BASES = ('integer', 'string', 'boolean', 'number', 'date', 'datetime', 'dateTime')


def _gfm_view(it):
    mod = extract.load_module('tdda/serial/csvw.py')
    k = it.path.choose([True] * len(_BASES))
    base = _BASES[k]
    form = it.path.choose([True, True, True, True])   # plain name | {base} | {base, format} | plain name + format key
    fmt = it.fresh_str('format') if form in (2, 3) else None
    if fmt is not None:
        from pyvc.sym import slen
        it.path.assume(slen(fmt.z) > 0)          # a format that is given is not the empty text
    titles = [None, 'A title', ['A title', 'Another']][it.path.choose([True, True, True])]
    col = {'name': 'c'}
    if form == 0:
        col['datatype'] = base
    elif form == 1:
        col['datatype'] = {'base': base}
    elif form == 2:
        col['datatype'] = {'base': base, 'format': fmt}
    else:
        col['datatype'] = base
        col['format'] = fmt
    if titles is not None:
        col['titles'] = titles
    it.ghost['gfm'] = dict(base=base, fmt=fmt, titles=titles)
    o = SObj('CSVWMetadata', {'fields': [], '_columns': [col], '_extensions': it.fresh(T.bool, 'extensions')}, label='self')
    o.repo_class = mod.classes['CSVWMetadata']
    o.methods['warn'] = Builtin(lambda it2, self, *a: None, 'warn')
    o.methods['error'] = Builtin(lambda it2, self, *a: None, 'error')
    return o


def _gfm_entry(it, senv):
    def field(it2, name, *a, **k):
        f = SObj('FieldMetadata', {'name': name, 'mtype': None, 'format': None, 'altnames': None, 'description': None,
                                   '__open__': True}, label='field')
        f.methods['get_val'] = Builtin(lambda it3, self, d, key, **kw: d.get(key, None), 'get_val')
        return f
    it.spec_env['FieldMetadata'] = Builtin(field, 'FieldMetadata')


class _GFM(Contract):
    def verify(self, registry=None, quick=False):
        reg = dict(REGISTRY if registry is None else registry)
        c = Contract(CW + 'csvw_date_format_to_md_date_format', params=dict(fmt=None, extensions=None),
                     effects=lambda it, env: SStr(_TRANSLATED(strz(it, env['fmt']))), result=T.none, assumed=True,
                     name='csvw_date_format_to_md_date_format',
                     trusted_note='the format translation is a function of the format (checked by complete enumeration '
                                  'of token sequences and by strptime round trips in the bounded layer)')
        c.defaults = {'extensions': False}
        reg[c.ident] = c
        return Contract.verify(self, reg, quick)


@specfn
def column_described_as_declared(it, selfobj):
    g = it.ghost['gfm']
    fields = selfobj.attrs['fields']
    if len(fields) != 1:
        return False
    f = fields[0]
    table = extract.load_module('tdda/serial/csvw.py').resolve('CSVW_TYPE_TO_MTYPE')
    want_type = table.get(g['base'])
    if f.attrs['name'] != 'c' or f.attrs['mtype'] != want_type:
        return False
    datelike = want_type in ('date', 'datetime')
    fmt = f.attrs['format']
    if g['fmt'] is None:
        fmt_ok = (fmt == 'ISO8601') if datelike else (fmt is None)
    elif datelike:
        fmt_ok = isinstance(fmt, SStr) and z3.simplify(fmt.z == _TRANSLATED(strz(it, g['fmt'])))
        fmt_ok = bool(_z3.is_true(fmt_ok))
    else:
        fmt_ok = fmt is g['fmt']
    t = g['titles']
    want_alt = None if t is None else ([t] if isinstance(t, str) else t)
    return bool(fmt_ok) and f.attrs['altnames'] == want_alt


z3 = _z3
_gfm = _GFM(CW + 'CSVWMetadata.get_fields_metadata', props=['C16'], params={}, self_view=_gfm_view, on_entry=_gfm_entry,
            spec_env=dict(PRIMS, column_described_as_declared=column_described_as_declared), result=T.none,
            ensures=[('the-column-has-its-declared-type-its-format-translated-if-date-like-and-its-titles',
                      'column_described_as_declared(self)')])
REGISTRY[_gfm.ident] = _gfm
_gfm.abstraction = ('one column description per path (7 declared types x 4 spellings of type / format x 3 spellings of '
                    'titles); the format text is symbolic; the date-format translation is an uninterpreted function')


# ---------------------------------------------------------------------------
# CSVWMetadata.process_dialect (C16): delimiter, encoding and the number of header rows, for every way the dialect can
# spell the presence of a header (header absent / true / false x headerRowCount absent / 0 / 1 / 2).  CSVW defaults:
# header true, one header row.
# ---------------------------------------------------------------------------

def _pd_view(it):
    mod = extract.load_module('tdda/serial/csvw.py')
    header = [Ellipsis, True, False][it.path.choose([True, True, True])]
    count = [Ellipsis, 0, 1, 2][it.path.choose([True, True, True, True])]
    dialect = {}
    delim = it.fresh(T.union(T.none, T.str), 'delimiter')
    enc = it.fresh(T.union(T.none, T.str), 'encoding')
    if delim is not None:
        dialect['delimiter'] = delim
    if enc is not None:
        dialect['encoding'] = enc
    if header is not Ellipsis:
        dialect['header'] = header
    if count is not Ellipsis:
        dialect['headerRowCount'] = count
    it.ghost['dialect'] = dict(header=header, count=count, delimiter=delim, encoding=enc)
    o = SObj('CSVWMetadata', {'_dialect': dialect, '__open__': True}, label='self')
    o.repo_class = mod.classes['CSVWMetadata']
    o.methods['get_val'] = Builtin(lambda it2, self, d, k, **kw: d.get(k, None), 'get_val')
    o.methods['warn'] = Builtin(lambda it2, self, *a: None, 'warn')
    return o


@specfn
def dialect_read_as_documented(it, selfobj):
    g = it.ghost['dialect']
    if g['header'] is False:
        want = 0
    elif g['count'] is not Ellipsis:
        want = g['count']
    else:
        want = 1
    a = selfobj.attrs
    return (a.get('header_rows') == want and a.get('delimiter') is g['delimiter'] and a.get('encoding') is g['encoding'])


_pdc = Contract(CW + 'CSVWMetadata.process_dialect', props=['C16'], params={}, self_view=_pd_view,
                spec_env=dict(PRIMS, dialect_read_as_documented=dialect_read_as_documented), result=T.none,
                inline=['tdda/utils.py::nvl'],
                requires=[],
                ensures=[('header-rows-delimiter-and-encoding-as-the-dialect-says',
                          'dialect_read_as_documented(self)')])
REGISTRY[_pdc.ident] = _pdc
