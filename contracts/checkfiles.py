"""
Sidecar contracts for tdda/referencetest/checkfiles.py (C15: faithful
artefacts; C04 helpers).
"""
import z3
from collections import OrderedDict

from pyvc.contracts import contract, Contract, LoopSpec, REGISTRY
from pyvc.sym import (T, TD, SObj, SBool, SInt, SStr, SList, Sym, Unsupported, StrS)
from pyvc.ops import zbool, values_equal, truth, strz, PyExc
from pyvc.interp import Builtin, specfn
from pyvc.builtins import path_under, path_sepfree
from pyvc import extract
from specs.sym_prims import PRIMS, load_spec_functions

CF = 'tdda/referencetest/checkfiles.py::'
BCMP = 'tdda/referencetest/basecomparison.py::'
ENV = dict(PRIMS)
ENV.update(load_spec_functions('checkfiles_spec.py'))


# ---------------------------------------------------------------------------
# ghost file system: contents of the two files, and the write set
# ---------------------------------------------------------------------------

def files_view(it):
    mod = extract.load_module('tdda/referencetest/checkfiles.py')
    rc = mod.classes['FilesComparison']
    o = SObj('FilesComparison', {
        'tmp_dir': it.fresh_str('tmp_dir'),
        'verbose': it.fresh(T.bool, 'verbose'),
        'print_fn': Builtin(lambda it2, *a, **k: None, 'print_fn'),
    }, label='self')
    o.repo_class = rc
    return o


def _noop(name, ident, params):
    c = Contract(ident, params={p: None for p in params}, effects=lambda it, env: None,
                 result=T.none, assumed=True, spec_env=ENV, name=name)
    c.varargs_ok = True
    return c


REGISTRY[BCMP + 'BaseComparison.info'] = _noop('info', BCMP + 'BaseComparison.info', ['msgs', 's'])
REGISTRY[BCMP + 'copycmd'] = Contract(BCMP + 'copycmd', params={}, effects=lambda it, env: 'cp',
                                      result=T.none, assumed=True, name='copycmd')
_cw = Contract(BCMP + 'BaseComparison.compare_with', params=dict(actual=None, expected=None),
               effects=lambda it, env: it.fresh_str('compare_cmd'), result=T.none, assumed=True,
               spec_env=ENV, name='compare_with',
               trusted_note='compare_with builds a message; reads os.path.exists only')
_cw.varargs_ok = True
REGISTRY[BCMP + 'BaseComparison.compare_with'] = _cw
_ge = Contract('tdda/referencetest/utils.py::get_encoding', params=dict(path=None, encoding=None),
               effects=lambda it, env: it.fresh_str('encoding'), result=T.none, assumed=True,
               name='get_encoding', trusted_note='reads the file to guess an encoding; writes nothing')
_ge.defaults = {'encoding': None}
REGISTRY[_ge.ident] = _ge


# ---------------------------------------------------------------------------
# check_binary_file: exact verdict, offset and lengths (C15)
# ---------------------------------------------------------------------------

def _binary_setup(it, senv):
    exp = it.fresh(T.list(T.nat, kind='bytes'), 'expected_bytes')
    act = it.fresh(T.list(T.nat, kind='bytes'), 'actual_bytes')
    exp_missing = it.fresh(T.bool, 'expected_missing')
    act_missing = it.fresh(T.bool, 'actual_missing')
    senv['E'], senv['A'] = exp, act
    senv['exp_missing'], senv['act_missing'] = exp_missing, act_missing
    expected_path, actual_path = senv['expected_path'], senv['actual_path']
    it.path.assume(strz(it, expected_path) != strz(it, actual_path))

    def ghost_open(it2, path, mode='r', *a, **k):
        if any(c in mode for c in 'wax+'):
            it2.path.writes.append(('open:' + mode, path))
        is_exp = values_equal(it2, path, expected_path)
        which = 'E' if it2.branch(zbool(is_exp)) else 'A'
        missing = exp_missing if which == 'E' else act_missing
        if it2.branch(missing.z):
            raise PyExc('IOError', 'no such file')
        f = SObj('file', {'__open__': False})
        content = exp if which == 'E' else act
        f.methods['read'] = Builtin(lambda it3, self, *args: content)
        return f
    it.spec_env['open'] = Builtin(ghost_open)

    def binaryinfo(it2, byteoffset, actualLen=None, expectedLen=None):
        return SObj('BinaryInfo', {'byteoffset': byteoffset, 'actualLen': actualLen,
                                   'expectedLen': expectedLen, '__open__': False})
    it.spec_env['BinaryInfo'] = Builtin(binaryinfo)
    it.spec_env['Diffs'] = Builtin(lambda it2: SObj('Diffs', {'__open__': True}))


def _add_failures_effect(it, env):
    it.ghost['add_failures'] = dict(env)
    return None


_af = Contract(CF + 'FilesComparison.add_failures',
               params=dict(msgs=None, reconstruction=None, actual_path=None, expected_path=None),
               effects=_add_failures_effect, result=T.none, spec_env=ENV, name='add_failures')
_af.varargs_ok = True


@specfn
def reported(it, field):
    """Field of the BinaryInfo handed to add_failures on this path."""
    kw = it.ghost.get('add_failures', {}).get('_extra_kwargs', {})
    bi = kw.get('binaryinfo')
    if bi is None:
        return -1          # nothing reported on this path
    return bi.attrs[field]


@specfn
def reported_any(it):
    return 'add_failures' in it.ghost and it.ghost['add_failures'].get('_extra_kwargs', {}).get('binaryinfo') is not None


class BinaryContract(Contract):
    def verify(self, registry=None, quick=False):
        reg = dict(REGISTRY if registry is None else registry)
        reg[CF + 'FilesComparison.add_failures'] = _af
        return Contract.verify(self, reg, quick)


_b = BinaryContract(
    CF + 'FilesComparison.check_binary_file', props=['C15'],
    params=dict(actual_path=T.str, expected_path=T.str, msgs=T.none),
    self_view=files_view, on_entry=_binary_setup,
    spec_env=dict(ENV, reported=reported, reported_any=reported_any),
    loops={1: LoopSpec([('offset-in-range', '0 <= boff and boff <= minlen'),
                        ('prefix-equal', 'forall_int(0, boff, lambda j: expected[j] == actual[j])')],
                       havoc={'boff': T.int})},
    ensures=[
        ('verdict', 'exp_missing or act_missing or result[0] == (0 if same_bytes(E, A) else 1)'),
        ('missing-file-fails', 'not (exp_missing or act_missing) or result[0] == 1'),
        ('offset-is-first-difference',
         'exp_missing or act_missing or same_bytes(E, A) or '
         'is_first_diff(E, A, reported("byteoffset"))'),
        ('lengths-exact',
         'exp_missing or act_missing or same_bytes(E, A) or '
         '(reported("actualLen") == len(A) and reported("expectedLen") == len(E))'),
        ('passing-reports-nothing', 'not (not exp_missing and not act_missing and same_bytes(E, A)) '
         'or not reported_any()'),
        ('writes-nothing-itself', 'n_writes() == 0'),
    ])
REGISTRY[_b.ident] = _b


@specfn
def n_writes(it):
    return len(it.path.writes)


_b.spec_env['n_writes'] = n_writes
ENV['n_writes'] = n_writes


# ---------------------------------------------------------------------------
# write_file / add_failures: every write is under tmp_dir (C15 frame)
# ---------------------------------------------------------------------------

@specfn
def writes_are(it, paths):
    ws = [p for how, p in it.path.writes]
    exp = list(paths)
    if len(ws) != len(exp):
        return False
    return all(a is b2 for a, b2 in zip(ws, exp))


@specfn
def all_writes_under(it, d):
    zs = []
    for how, p in it.path.writes:
        if not isinstance(p, (str, SStr)):
            return False
        zs.append(path_under(strz(it, p), strz(it, d)))
    return SBool(z3.And(*zs)) if zs else True


ENV.update({'writes_are': writes_are, 'all_writes_under': all_writes_under})


def _wf_setup(it, senv):
    def ghost_open(it2, path, mode='r', *a, **k):
        if any(c in mode for c in 'wax+'):
            it2.path.writes.append(('open:' + mode, path))
        f = SObj('file', {'__open__': False})
        f.methods['read'] = Builtin(lambda it3, self, *args: it3.fresh_str('content'))
        f.methods['write'] = Builtin(lambda it3, self, data: None)
        return f
    it.spec_env['open'] = Builtin(ghost_open)


contract(CF + 'FilesComparison.write_file', props=['C15'],
         params=dict(filename=T.str, contents=T.union(T.str, T.list(T.str)), guide=T.opt(T.str),
                     encoding=T.opt(T.str)),
         self_view=files_view, on_entry=_wf_setup, spec_env=ENV,
         loops={1: LoopSpec([('trivial', 'True')], havoc={'lastline': T.opt(T.str), 'line': T.str})},
         ensures=[('writes-exactly-filename', 'writes_are([filename])')])


def _write_file_effect(it, env):
    it.path.writes.append(('write_file', env['filename']))
    return None


REGISTRY[CF + 'FilesComparison.write_file'].effects = _write_file_effect
REGISTRY[CF + 'FilesComparison.write_file'].defaults = {'guide': None, 'encoding': None}


def _recon(it, name):
    o = SObj('Reconstruction', {'__open__': False}, label=name)
    o.methods['actual_lines'] = Builtin(lambda it2, self: it2.fresh_str('recon_actual'))
    o.methods['expected_lines'] = Builtin(lambda it2, self: it2.fresh_str('recon_expected'))
    return o


_OPTLINES = T.opt(T.list(T.str))
# the exclusion lists only feed the message text: absent, or one concrete entry
_EXCL = T.custom(lambda it, n: it.ghost.setdefault(
    'excl', it.fresh(T.union(T.none, T.const(['x'])), 'exclusions')))
contract(CF + 'FilesComparison.add_failures', props=['C15'],
         params=dict(msgs=T.custom(lambda it, n: SObj('Diffs', {'__open__': True})),
                     reconstruction=T.union(T.none, T.custom(_recon)),
                     actual_path=T.opt(T.str), expected_path=T.opt(T.str),
                     ignore_substrings=_EXCL, ignore_patterns=_EXCL, remove_lines=_EXCL,
                     preprocess=T.union(T.none, T.custom(lambda it, n: SObj('function', {'__open__': False}))),
                     actual=T.opt(T.str), expected=T.opt(T.str),
                     binaryinfo=T.union(T.none, T.obj('BinaryInfo', byteoffset=T.nat, actualLen=T.nat,
                                                      expectedLen=T.nat)),
                     create_temporaries=T.bool, encoding=T.none),
         self_view=files_view, spec_env=ENV,
         requires=[('binary-has-no-reconstruction', 'binaryinfo is None or reconstruction is None'),
                   ('paths-are-non-empty-strings-or-None',
                    '(actual_path is None or len(actual_path) > 0) and '
                    '(expected_path is None or len(expected_path) > 0)')],
         ensures=[('writes-only-under-tmp_dir', 'all_writes_under(self.tmp_dir)'),
                  ('no-temporaries-unless-asked', 'create_temporaries or n_writes() == 0'),
                  ('raw-actual-written-iff-string-actual',
                   'raw_written_ok(create_temporaries, actual, actual_path, expected, expected_path, '
                   'reconstruction, n_writes())')])


# ---------------------------------------------------------------------------
# C04 helpers: normalize_function, can_ignore
# ---------------------------------------------------------------------------

@specfn
def applied(it, fn):
    """Which str method the returned normaliser applies ('strip'/'lstrip'/'rstrip'/'id')."""
    log = []
    probe = SObj('probe', {'__open__': False})
    for m in ('strip', 'lstrip', 'rstrip'):
        probe.methods[m] = Builtin(lambda it2, self, m=m: (log.append(m), self)[1])
    sm, it.specmode = it.specmode, False
    try:
        r = it.call(fn, [probe], {})
    finally:
        it.specmode = sm
    if r is not probe:
        return 'other'
    return log[0] if len(log) == 1 else ('id' if not log else 'other')


contract(CF + 'FilesComparison.normalize_function', props=['C04'],
         params=dict(left=T.bool, right=T.bool), self_view=files_view,
         spec_env=dict(ENV, applied=applied), result=T.opaque,
         ensures=[('selects-the-requested-stripping',
                   "applied(result) == ('strip' if (left and right) else 'lstrip' if left "
                   "else 'rstrip' if right else 'id')")])

_patterns_equiv = z3.Function('check_patterns', StrS, StrS, z3.BoolSort())


def _cp_effect(it, env):
    return SBool(_patterns_equiv(strz(it, env['actual_line']), strz(it, env['expected_line'])))


_cp = Contract(CF + 'FilesComparison.check_patterns',
               params=dict(compiled_patterns=None, actual_line=None, expected_line=None),
               effects=_cp_effect, result=T.none, assumed=True, spec_env=ENV, name='check_patterns',
               trusted_note='recursive regex matching: out of the SMT subset; its verdicts are compared with an '
                            'independent dynamic-programming statement by the bounded layer')
REGISTRY[_cp.ident] = _cp


@specfn
def patterns_equiv(it, a, e):
    return SBool(_patterns_equiv(strz(it, a), strz(it, e)))


@specfn
def any_substring_in(it, subs, line):
    if subs is None:
        return False
    from pyvc.ops import contains
    subs = it.lift_list(subs)
    j = z3.Int('sub!any')        # one name for the bound variable: equal statements are then the same term
    c = contains(it, line, subs.get(j))
    return SBool(z3.Exists([j], z3.And(j >= 0, j < subs.n, zbool(truth(it, c)))))


contract(CF + 'FilesComparison.can_ignore', props=['C04'],
         params=dict(actual_line=T.str, expected_line=T.str,
                     ignore_substrings=T.opt(T.list(T.str)), compiled_patterns=T.opaque),
         self_view=files_view,
         spec_env=dict(ENV, patterns_equiv=patterns_equiv, any_substring_in=any_substring_in),
         loops={1: LoopSpec([('none-so-far',
                              'forall_int(0, _i, lambda j: not (_seq[j] in expected_line))')],
                            havoc={'substr': T.str})},
         result=T.bool,
         ensures=[('reference-line-substring-or-pattern-equivalence',
                   'result == (any_substring_in(ignore_substrings, expected_line) '
                   'or patterns_equiv(actual_line, expected_line))')])


# ---------------------------------------------------------------------------
# check_for_permutation_failures (C04): the differing lines count as no failure
# exactly when the actual lines are a rearrangement (same multiset) of the
# expected ones.  Lists of 0..3 failure cases, contents symbolic.
# ---------------------------------------------------------------------------
import itertools as _it


def _failure_cases(it, name):
    k = it.path.choose([True] * 4)
    return [(i, it.fresh_str('actual%d' % i), it.fresh_str('expected%d' % i)) for i in range(k)]


@specfn
def same_multiset(it, cases):
    from pyvc.ops import strz
    n = len(cases)
    a = [strz(it, c[1]) for c in cases]
    e = [strz(it, c[2]) for c in cases]
    alts = []
    for perm in _it.permutations(range(n)):
        alts.append(z3.And(*[a[i] == e[perm[i]] for i in range(n)]) if n else z3.BoolVal(True))
    return SBool(z3.Or(*alts))


def _perm_view(it):
    o = files_view(it)
    o.attrs['verbose'] = False
    return o


contract(CF + 'FilesComparison.check_for_permutation_failures', props=['C04'],
         params=dict(failure_cases=T.custom(_failure_cases)), self_view=_perm_view,
         spec_env=dict(ENV, same_multiset=same_multiset),
         ensures=[('no-failure-iff-rearrangement', '(result == 0) == same_multiset(failure_cases)'),
                  ('otherwise-every-case-counts', 'result == 0 or result == len(failure_cases)')])


# ---------------------------------------------------------------------------
# wrong_number (C04): texts whose line counts differ after removal never pass.
# The lists are symbolic (any length), the removal sets and line maps abstract.
# ---------------------------------------------------------------------------

def _wn_entry(it, senv):
    def intset(name):
        member = z3.Function('in_' + name, z3.IntSort(), z3.BoolSort())
        return SObj('set', {'__contains__': (lambda x: SBool(member(x.z if isinstance(x, SInt) else z3.IntVal(int(x))))),
                            '__open__': False}, label=name)

    def sink(name):
        o = SObj('set', {'__open__': False}, label=name)
        o.methods['add'] = Builtin(lambda it2, self, x: None, 'set.add')
        return o

    def linemap(name):
        f = z3.Function('map_' + name, z3.IntSort(), z3.IntSort())
        o = SObj('dict', {'__open__': False}, label=name)
        o.methods['__getitem__'] = Builtin(lambda it2, self, k: SInt(f(k.z if isinstance(k, SInt) else z3.IntVal(int(k)))),
                                           'dict.__getitem__')
        return o
    senv['actual_removals'], senv['expected_removals'] = intset('actual_removals'), intset('expected_removals')
    senv['actual_ignored'], senv['expected_ignored'] = sink('actual_ignored'), sink('expected_ignored')
    if getattr(it.target, 'ignored_sets_checked', False):
        # wrong_number: a number put into an ignored set is the number of the line can_ignore has just excused
        def checked_sink(name, lines, which):
            o = SObj('set', {'__open__': False}, label=name)

            def add(it2, self, x):
                last = [t for t in it2.path.trace if t[0].endswith('can_ignore')]
                xz = x.z if isinstance(x, SInt) else z3.IntVal(int(x))
                if not last:
                    cond = z3.BoolVal(False)
                else:
                    line = last[-1][1][which]
                    cond = z3.And(xz >= 0, xz < lines.n, strz(it2, lines.get(xz)) == strz(it2, line))
                it2.path.oblige('wrong_number.post.a-line-recorded-as-ignored-is-the-line-just-excused[%s]' % name, cond)
            o.methods['add'] = Builtin(add, 'set.add')
            return o
        senv['actual_ignored'] = checked_sink('actual_ignored', senv['original_actual'], 'actual_line')
        senv['expected_ignored'] = checked_sink('expected_ignored', senv['original_expected'], 'expected_line')
    senv['actual_map'], senv['expected_map'] = linemap('actual_map'), linemap('expected_map')
    norm = z3.Function('normalized', StrS, StrS)
    from pyvc.ops import strz
    senv['normalize'] = Builtin(lambda it2, s: SStr(norm(strz(it2, s))), 'normalize')


class _WrongNumber(Contract):
    def verify(self, registry=None, quick=False):
        reg = dict(REGISTRY if registry is None else registry)
        reg[CF + 'FilesComparison.compile_patterns'] = Contract(
            CF + 'FilesComparison.compile_patterns', params=dict(ignore_patterns=None),
            effects=lambda it, env: it.fresh_opaque('compiled_patterns'), result=T.none, assumed=True,
            name='compile_patterns', spec_env=ENV)
        return Contract.verify(self, reg, quick)


_wn = _WrongNumber(
    CF + 'FilesComparison.wrong_number', props=['C04', 'C15'],
    params=OrderedDict([('original_actual', T.list(T.str)), ('original_expected', T.list(T.str)),
                        ('actual_ignored', None), ('expected_ignored', None), ('actual_removals', None),
                        ('expected_removals', None), ('actual_map', None), ('expected_map', None),
                        ('actual_path', T.union(T.none, T.str)), ('normalize', None),
                        ('ignore_substrings', T.opt(T.list(T.str))), ('ignore_patterns', T.none)]),
    self_view=files_view, on_entry=_wn_entry, spec_env=dict(ENV),
    requires=[('some-line-on-one-side', 'len(original_actual) > 0 or len(original_expected) > 0')],
    loops={1: LoopSpec([('actual-cursor-within-the-lines-walked', '0 <= iactual and iactual <= _i'),
                        ('expected-cursor-within-the-lines-walked', '0 <= iexpected and iexpected <= _i'),
                        ('count-non-negative', 'ndiffs >= 0')],
                       havoc={'iactual': T.int, 'iexpected': T.int, 'ndiffs': T.int, 'removed': T.bool,
                              'first_error_line': T.union(T.none, T.str), 'actual_line': 'unbound',
                              'expected_line': 'unbound'})},
    ensures=[('different-line-counts-are-a-failure', 'result[1] > 0')])
# at call sites the result is a pair (message or None, count)
_wn.effects = lambda it, env: (it.fresh(T.opt(T.str), 'wrong_number.first_error'), it.fresh(T.int, 'wrong_number.ndiffs'))
_wn.ignored_sets_checked = True
REGISTRY[_wn.ident] = _wn


# ---------------------------------------------------------------------------
# wrong_content (C04): same number of lines on both sides.
#  #count : any number of differing line numbers over any two texts -- the returned count is the number of
#           differing pairs that can_ignore does not excuse (loop invariant over a partial count).
#  #cases : up to 3 differing line numbers -- failure_cases receives the first max_permutation_cases unexcused
#           (line, actual, expected) triples, in order, and the ignored sets receive the excused line numbers.
# ---------------------------------------------------------------------------

def _excused_z(it, a, e, subs):
    """can_ignore's verified postcondition, as a formula over one pair of lines."""
    c = any_substring_in.fn(it, subs, e)
    cz = c.z if isinstance(c, SBool) else z3.BoolVal(bool(c))
    return z3.Or(cz, _patterns_equiv(strz(it, a), strz(it, e)))


_EXCUSED_AT = z3.Function('excused_differing_pair', z3.IntSort(), z3.BoolSort())


@specfn
def n_excused(it, diffs, actual, expected, subs, upto):
    """
    How many of the first `upto` differing line numbers are excused.  excused_differing_pair(k) abbreviates
    can_ignore's postcondition for the k-th differing pair (a definition, stated once per path), so the
    partial count is over one canonical term.
    """
    from pyvc.builtins import sum_symbolic
    diffs, actual, expected = it.lift_list(diffs), it.lift_list(actual), it.lift_list(expected)
    if not it.path.__dict__.get('excused_defined'):
        it.path.__dict__['excused_defined'] = True
        k = z3.Int('pair!k')
        i = diffs.get(k)
        iz = i.z if isinstance(i, SInt) else z3.IntVal(int(i))
        it.path.assume(z3.ForAll([k], _EXCUSED_AT(k) == _excused_z(it, actual.get(iz), expected.get(iz), subs)))
    n = upto.z if isinstance(upto, SInt) else z3.IntVal(int(upto))
    return sum_symbolic(it, SList(n, lambda k: SInt(z3.If(_EXCUSED_AT(k), 1, 0)), T.int, 'list'))


def _wc_entry(it, senv):
    _wn_entry(it, senv)
    it.sum_axioms = True
    fc = SObj('list', {'__open__': False}, label='failure_cases')
    fc.methods['append'] = Builtin(lambda it2, self, x: None, 'list.append')
    fc.attrs['__len__'] = it.fresh(T.nat, 'len(failure_cases)')
    senv['failure_cases'] = fc


def _with_compile_patterns(reg):
    reg[CF + 'FilesComparison.compile_patterns'] = Contract(
        CF + 'FilesComparison.compile_patterns', params=dict(ignore_patterns=None),
        effects=lambda it, env: it.fresh_opaque('compiled_patterns'), result=T.none, assumed=True,
        name='compile_patterns', spec_env=ENV)
    return reg


class _WrongContent(Contract):
    def verify(self, registry=None, quick=False):
        return Contract.verify(self, _with_compile_patterns(dict(REGISTRY if registry is None else registry)), quick)


_WC_ENV = dict(ENV, n_excused=n_excused, patterns_equiv=patterns_equiv, any_substring_in=any_substring_in)
_wc = _WrongContent(
    CF + 'FilesComparison.wrong_content', props=['C04'], name='wrong_content[count]',
    params=OrderedDict([('diffs', T.list(T.int)), ('actual', T.list(T.str)), ('expected', T.list(T.str)),
                        ('actual_ignored', None), ('expected_ignored', None), ('actual_map', None),
                        ('expected_map', None), ('failure_cases', None), ('max_permutation_cases', T.nat),
                        ('ignore_substrings', T.opt(T.list(T.str))), ('ignore_patterns', T.none)]),
    self_view=files_view, on_entry=_wc_entry, spec_env=_WC_ENV,
    requires=[('line-numbers-within-both-texts',
               'forall_int(0, len(diffs), lambda j: 0 <= diffs[j] and diffs[j] < len(actual) '
               'and diffs[j] < len(expected))')],
    loops={1: LoopSpec([('count-is-the-differing-pairs-less-the-excused-ones-so-far',
                         'ndiffs == len(diffs) - n_excused(diffs, actual, expected, ignore_substrings, _i)')],
                       havoc={'ndiffs': T.int, 'first_error_line': T.union(T.none, T.int)})},
    ensures=[('count-is-the-number-of-unexcused-differing-pairs',
              'result[1] == len(diffs) - n_excused(diffs, actual, expected, ignore_substrings, len(diffs))')])
REGISTRY[_wc.ident + '#count'] = _wc


# ---------------------------------------------------------------------------
# check_strings (C04): the verdict, for texts of up to N lines a side (N = 3 thorough, 2 quick) whose line
# contents, the ignore-substrings, the remove-substrings and the permutation allowance are all symbolic.
# normalize_function and wrong_content are executed as part of the body (inlined); can_ignore, wrong_number and
# check_for_permutation_failures are used through their verified contracts; check_patterns stays the uninterpreted
# predicate of those contracts.  The right-hand side is the property's sentence: two clauses, "must pass" and
# "must fail", which leave open exactly what the sentence leaves open (whether rearranged lines are compared
# before or after stripping).
# ---------------------------------------------------------------------------
import os as _os
from pyvc.sym import slen


def _thorough():
    return _os.environ.get('VERIF_TIER', 'quick') != 'quick'


def _wide(shape):
    # the wider option space (absent / empty / longer option lists) is explored for shapes up to 2 x 2, thorough tier
    return _thorough() and max(shape) <= 2


def _cs_max_lines():
    return 3 if _thorough() else 2


def _lines(it, name):
    if getattr(it.target, 'preprocessed', False):
        # a longer text goes in; the caller's preprocess function turns it into the lines of this view's shape
        # (an arbitrary function of the text: its results are fresh lines)
        k = it.target.shape[0 if 'actual' in name else 1]
        raw = [it.fresh_str('raw_%s%d' % (name, i)) for i in range(k + 1)]
        it.ghost.setdefault('preprocessed', []).append((raw, [it.fresh_str('preprocessed_%s%d' % (name, i))
                                                                for i in range(k)]))
        return raw
    k = it.target.shape[0 if 'actual' in name else 1]
    return [it.fresh_str('%s%d' % (name, i)) for i in range(k)]


def _preprocess(it, name):
    def fn(it2, lines):
        for raw, out in it2.ghost.get('preprocessed', []):
            if raw is lines:
                return list(out)
        raise Unsupported('preprocess applied to something other than the two texts')
    return Builtin(fn, 'preprocess')


def _effective(it, lines):
    for raw, out in it.ghost.get('preprocessed', []):
        if raw is lines:
            return out
    return lines


def _removers(it, name):
    # absent, or a list of 0..2 remove-substrings (quick: absent or one)
    sizes = (None, 0, 1, 2) if _wide(it.target.shape) else (None, 1)
    k = sizes[it.path.choose([True] * len(sizes))]
    if k is None:
        return None
    return [it.fresh_str('%s%d' % (name, i)) for i in range(k)]


def _norm_z(it, s, lstrip, rstrip):
    z = strz(it, s)
    both = z3.Function('str.strip', StrS, StrS)(z)
    left = z3.Function('str.lstrip', StrS, StrS)(z)
    right = z3.Function('str.rstrip', StrS, StrS)(z)
    lz = lstrip.z if isinstance(lstrip, SBool) else z3.BoolVal(bool(lstrip))
    rz = rstrip.z if isinstance(rstrip, SBool) else z3.BoolVal(bool(rstrip))
    return z3.If(z3.And(lz, rz), both, z3.If(lz, left, z3.If(rz, right, z)))


def _same_multiset_z(xs, ys):
    n = len(xs)
    if n == 0:
        return z3.BoolVal(True)
    return z3.Or(*[z3.And(*[xs[i] == ys[p[i]] for i in range(n)]) for p in _it.permutations(range(n))])


def _kept_configs(it, lines, rem):
    """[(condition, kept lines)]: trailing empty line dropped, then lines holding a remove-substring dropped."""
    from pyvc.sym import str_contains
    out = []
    if lines:
        last_empty = slen(strz(it, lines[-1])) == 0
        bases = [(last_empty, lines[:-1]), (z3.Not(last_empty), lines)]
    else:
        bases = [(z3.BoolVal(True), [])]
    has = {id(l): (z3.Or(*[str_contains(strz(it, l), strz(it, r)) for r in rem]) if rem else None) for l in lines}
    for c0, base in bases:
        if not rem:
            out.append((c0, list(base)))
            continue
        for mask in _it.product((False, True), repeat=len(base)):
            conds, kept = [c0], []
            for gone, l in zip(mask, base):
                conds.append(has[id(l)] if gone else z3.Not(has[id(l)]))
                if not gone:
                    kept.append(l)
            out.append((z3.And(*conds), kept))
    return out


def _cs_verdicts(it, actual, expected, lstrip, rstrip, subs, rem, maxperm):
    memo = it.path.__dict__.setdefault('cs_verdicts', {})
    key = (id(actual), id(expected), id(subs), id(rem))
    if key in memo:
        return memo[key]
    mz = maxperm.z if isinstance(maxperm, SInt) else z3.IntVal(int(maxperm))
    must_pass, must_fail = [], []
    norm = {}

    def nz(l):
        if id(l) not in norm:
            norm[id(l)] = _norm_z(it, l, lstrip, rstrip)
        return norm[id(l)]
    unexcused = {}

    def uz(a, e):
        if (id(a), id(e)) not in unexcused:
            unexcused[(id(a), id(e))] = z3.And(nz(a) != nz(e), z3.Not(_excused_z(it, a, e, subs)))
        return unexcused[(id(a), id(e))]
    configs_e = _kept_configs(it, list(_effective(it, expected)), rem)
    for ca, A in _kept_configs(it, list(_effective(it, actual)), rem):
        for ce, E in configs_e:
            if len(A) != len(E):
                must_fail.append(z3.And(ca, ce))
                continue
            n = len(A)
            u = [uz(a, e) for a, e in zip(A, E)]
            # which lines carry unexcused differences: every subset
            alts_pass, alts_fail = [], []
            for mask in _it.product((False, True), repeat=n):
                sel = [u[i] if mask[i] else z3.Not(u[i]) for i in range(n)]
                bad = [i for i in range(n) if mask[i]]
                if not bad:
                    alts_pass.append(z3.And(*sel) if sel else z3.BoolVal(True))
                    continue
                raw = _same_multiset_z([strz(it, A[i]) for i in bad], [strz(it, E[i]) for i in bad])
                nrm = _same_multiset_z([nz(A[i]) for i in bad], [nz(E[i]) for i in bad])
                within = mz >= len(bad)
                alts_pass.append(z3.And(*(sel + [within, raw, nrm])))
                alts_fail.append(z3.And(*(sel + [z3.Or(z3.Not(within), z3.And(z3.Not(raw), z3.Not(nrm)))])))
            must_pass.append(z3.And(ca, ce, z3.Or(*alts_pass)))
            if alts_fail:
                must_fail.append(z3.And(ca, ce, z3.Or(*alts_fail)))
    memo[key] = (z3.Or(*must_pass), z3.Or(*must_fail) if must_fail else z3.BoolVal(False))
    return memo[key]


@specfn
def texts_must_pass(it, actual, expected, lstrip, rstrip, subs, rem, maxperm):
    return SBool(_cs_verdicts(it, actual, expected, lstrip, rstrip, subs, rem, maxperm)[0])


@specfn
def texts_must_fail(it, actual, expected, lstrip, rstrip, subs, rem, maxperm):
    return SBool(_cs_verdicts(it, actual, expected, lstrip, rstrip, subs, rem, maxperm)[1])


@specfn
def failures_reported(it):
    return bool(it.ghost.get('add_failures'))


@specfn
def reconstruction_handed_on(it):
    return it.ghost.get('reconstruction_given') is not None


@specfn
def some_line_removed(it, actual, expected, rem):
    """A remove-substring occurs in some line of either text (after the trailing empty line is dropped)."""
    from pyvc.sym import str_contains
    if not rem:
        return False
    alts = []
    for lines in (list(_effective(it, actual)), list(_effective(it, expected))):
        for k, l in enumerate(lines):
            has = z3.Or(*[str_contains(strz(it, l), strz(it, r)) for r in rem])
            if k == len(lines) - 1:
                has = z3.And(has, slen(strz(it, l)) != 0)
            alts.append(has)
    return SBool(z3.Or(*alts)) if alts else False


def _cs_entry(it, senv):
    diffs = SObj('Diffs', {'__open__': True}, label='msgs')
    diffs.methods['add_reconstruction'] = Builtin(lambda it2, self, r: None, 'Diffs.add_reconstruction')
    it.spec_env['Diffs'] = Builtin(lambda it2: diffs)
    it.spec_env['FailureDiffs'] = Builtin(lambda it2, failures=None, diffs=None:
                                          SObj('FailureDiffs', {'failures': failures, 'diffs': diffs,
                                                                '__open__': False}))


@specfn
def line_numbers_of(it, numbers, lines):
    if not isinstance(numbers, (set, frozenset, list)) or not isinstance(lines, list):
        raise Unsupported('line_numbers_of: a concrete set of line numbers and a concrete-length text expected')
    return all(isinstance(i, int) and 0 <= i < len(lines) for i in numbers)


class _CheckStrings(Contract):
    def verify(self, registry=None, quick=False):
        reg = _with_compile_patterns(dict(REGISTRY if registry is None else registry))
        rc = Contract(
            CF + 'FilesComparison.reconstruct',
            params=OrderedDict([('original_actual', None), ('original_expected', None), ('actual_removals', None),
                                ('expected_removals', None), ('actual_ignored', None), ('expected_ignored', None),
                                ('format', None)]),
            requires=[('removal-sets-hold-line-numbers-of-their-text',
                       'line_numbers_of(actual_removals, original_actual) and '
                       'line_numbers_of(expected_removals, original_expected)')],
            effects=lambda it, env: _recon(it, 'reconstruction'), result=T.none, name='reconstruct',
            spec_env=dict(ENV, line_numbers_of=line_numbers_of),
            trusted_note='verified separately (per-shape views of reconstruct); here its precondition is discharged '
                         'and its result is an opaque listing')
        rc.defaults = {'format': None}
        reg[CF + 'FilesComparison.reconstruct'] = rc
        def _af_effect(it, env):
            it.ghost['add_failures'] = True
            args = env.get('_extra_args') or ()
            it.ghost['reconstruction_given'] = args[1] if len(args) > 1 else (env.get('_extra_kwargs') or {}).get('reconstruction')
        af = Contract(CF + 'FilesComparison.add_failures', params={},
                      effects=_af_effect, result=T.none, assumed=True,
                      name='add_failures(report)', spec_env=ENV,
                      trusted_note='add_failures only reports (messages, temporary files: verified under C15); '
                                   'the verdict does not depend on it')
        af.varargs_ok = True
        reg[CF + 'FilesComparison.add_failures'] = af
        return Contract.verify(self, reg, quick)


def _cs_contract(la, le, preprocessed=False):
    key = '%dx%d%s' % (la, le, '-preprocessed' if preprocessed else '')
    c = _CheckStrings(
        CF + 'FilesComparison.check_strings', props=['C04', 'C15'], name='check_strings[%s]' % key,
        params=OrderedDict([('actual', T.custom(_lines)), ('expected', T.custom(_lines)),
                            # expected_path and ignore_patterns only flow to assumed callees (get_encoding,
                            # compile_patterns, add_failures); an absent ignore_substrings behaves as the empty list
                            # in can_ignore's contract (quick: the list only)
                            ('actual_path', T.opt(T.str)), ('expected_path', T.const(None)),
                            ('lstrip', T.bool), ('rstrip', T.bool),
                            ('ignore_substrings', T.opt(T.list(T.str)) if _wide((la, le)) else T.list(T.str)),
                            ('ignore_patterns', T.custom(lambda it, n: it.fresh_opaque('ignore_patterns'))),
                            ('remove_lines', T.custom(_removers)),
                            ('preprocess', T.custom(_preprocess) if preprocessed else T.const(None)),
                            ('max_permutation_cases', T.nat), ('create_temporaries', T.bool),
                            ('msgs', T.const(None)), ('encoding', T.const(None))]),
        self_view=_perm_view, on_entry=_cs_entry,
        inline=[CF + 'FilesComparison.normalize_function', CF + 'FilesComparison.wrong_content'],
        spec_env=dict(ENV, texts_must_pass=texts_must_pass, texts_must_fail=texts_must_fail,
                      failures_reported=failures_reported, reconstruction_handed_on=reconstruction_handed_on,
                      some_line_removed=some_line_removed),
        ensures=[('passes-when-the-texts-agree-modulo-the-declared-exclusions',
                  'implies(texts_must_pass(actual, expected, lstrip, rstrip, ignore_substrings, remove_lines, '
                  'max_permutation_cases), result.failures == 0)'),
                 ('fails-on-any-difference-no-option-excuses',
                  'implies(texts_must_fail(actual, expected, lstrip, rstrip, ignore_substrings, remove_lines, '
                  'max_permutation_cases), result.failures == 1)'),
                 ('failures-is-0-or-1', 'result.failures == 0 or result.failures == 1'),
                 ('a-passing-comparison-reports-and-writes-nothing',
                  'result.failures != 0 or not failures_reported()'),
                 ('a-failing-comparison-is-reported', 'result.failures == 0 or failures_reported()'),
                 ('a-failure-with-removed-lines-hands-on-the-post-processed-texts',
                  'implies(result.failures == 1 and some_line_removed(actual, expected, remove_lines), '
                  'reconstruction_handed_on())')],
        max_paths=400000)
    c.shape = (la, le)
    c.preprocessed = preprocessed
    # C15 ("passing ones leave none" / failing ones are reported) reads two of the views; C04 reads them all
    c.props = ['C04', 'C15'] if (not preprocessed and la == le and la in (1, 2)) else ['C04']
    c.abstraction = ('texts of exactly %d actual and %d reference lines (one view per shape up to N x N, N = 2 quick, '
                     '3 thorough) with symbolic line contents' % (la, le)
                     + ('' if not preprocessed else ', produced by a caller-supplied preprocess function (uninterpreted) from '
                        'texts one line longer')
                     + '; the pattern rule is the uninterpreted predicate of can_ignore\'s contract; reconstruct and '
                       'add_failures are assumed to only report; wrong_number\'s additions to the ignored-line sets '
                       'are not modelled (they feed the report only)')
    REGISTRY[c.ident + '#' + key] = c
    return c


for _la in range(_cs_max_lines() + 1):
    for _le in range(_cs_max_lines() + 1):
        _cs_contract(_la, _le)
        if _thorough() or (_la, _le) in ((1, 1), (2, 1), (0, 1)):
            _cs_contract(_la, _le, preprocessed=True)


# ---------------------------------------------------------------------------
# reconstruct (C15): the post-processed pair differs exactly on the unexcused lines.
# Texts of a fixed shape (one view per shape, up to N x N lines), symbolic contents, the removal and ignored
# sets abstract (uninterpreted membership).  Lines that survive removal are aligned by position; when both
# sides keep the same number of lines, the two rebuilt texts have the same length, they differ at exactly as many
# positions as there are kept pairs that differ and are not ignored, and each such pair appears in them.
# ---------------------------------------------------------------------------

def _rc_entry(it, senv):
    def intset(name):
        member = z3.Function('in_' + name, z3.IntSort(), z3.BoolSort())
        o = SObj('set', {'__contains__': (lambda x: SBool(member(x.z if isinstance(x, SInt) else z3.IntVal(int(x))))),
                         '__open__': False}, label=name)
        o.attrs['member'] = member
        return o
    for n in ('actual_removals', 'expected_removals', 'actual_ignored', 'expected_ignored'):
        senv[n] = intset(n)
    # precondition (discharged at the call site in check_strings): the removal sets hold line numbers of their text
    q = z3.Int('line!q')
    for n, lines in (('actual_removals', senv['original_actual']), ('expected_removals', senv['original_expected'])):
        it.path.assume(z3.ForAll([q], z3.Implies(senv[n].attrs['member'](q), z3.And(q >= 0, q < len(lines)))))
    it.spec_env['Reconstruction'] = Builtin(lambda it2, a, e: SObj('Reconstruction', {'diff_actual': a, 'diff_expected': e,
                                                                                     '__open__': False}))


_MARK = z3.Function('diff_marker', StrS, StrS, StrS)
_FMT = z3.Function('format_marker', StrS, StrS)


class _Reconstruct(Contract):
    def verify(self, registry=None, quick=False):
        reg = dict(REGISTRY if registry is None else registry)
        reg[CF + 'FilesComparison.diff_marker'] = Contract(
            CF + 'FilesComparison.diff_marker', params=dict(left=None, right=None),
            effects=lambda it, env: SStr(_MARK(strz(it, env['left']), strz(it, env['right']))), result=T.none,
            assumed=True, name='diff_marker', spec_env=ENV,
            trusted_note='diff_marker(left, right) is a text determined by the two lines (a function)')
        reg[CF + 'FilesComparison.format_marker'] = Contract(
            CF + 'FilesComparison.format_marker', params=dict(marker=None, format=None),
            effects=lambda it, env: SStr(_FMT(strz(it, env['marker']))), result=T.none, assumed=True,
            name='format_marker', spec_env=ENV,
            trusted_note='format_marker(marker, format) is a text determined by the marker (a function)')
        return Contract.verify(self, reg, quick)


@specfn
def rebuilt_pair_differs_exactly_on_unexcused_lines(it, result, original_actual, original_expected,
                                                    actual_removals, expected_removals, actual_ignored,
                                                    expected_ignored):
    A, E = list(original_actual), list(original_expected)
    ra, re_ = result.attrs['diff_actual'], result.attrs['diff_expected']
    if not (isinstance(ra, list) and isinstance(re_, list)):
        return False
    mem = {n: s.attrs['member'] for n, s in (('ar', actual_removals), ('er', expected_removals),
                                             ('ai', actual_ignored), ('ei', expected_ignored))}

    def differs(x, y):
        return z3.BoolVal(False) if x is y else strz(it, x) != strz(it, y)
    out_diff = [differs(x, y) for x, y in zip(ra, re_)]
    n_out = z3.Sum([z3.If(d, 1, 0) for d in out_diff]) if out_diff else z3.IntVal(0)
    clauses = []
    for ma in _it.product((False, True), repeat=len(A)):
        for me in _it.product((False, True), repeat=len(E)):
            ka = [i for i in range(len(A)) if not ma[i]]
            ke = [j for j in range(len(E)) if not me[j]]
            if len(ka) != len(ke):
                continue          # different line counts after removal: not the subject of this clause
            cfg = z3.And(*([mem['ar'](i) if ma[i] else z3.Not(mem['ar'](i)) for i in range(len(A))]
                           + [mem['er'](j) if me[j] else z3.Not(mem['er'](j)) for j in range(len(E))]))
            unexc = [z3.And(strz(it, A[i]) != strz(it, E[j]), z3.Not(z3.Or(mem['ai'](i), mem['ei'](j))))
                     for i, j in zip(ka, ke)]
            n_un = z3.Sum([z3.If(u, 1, 0) for u in unexc]) if unexc else z3.IntVal(0)
            body = [z3.BoolVal(len(ra) == len(re_)), n_out == n_un]
            for (i, j), u in zip(zip(ka, ke), unexc):
                # the unexcused pair shows in the rebuilt texts, side by side
                shows = [z3.And(strz(it, x) == strz(it, A[i]), strz(it, y) == strz(it, E[j])) for x, y in zip(ra, re_)]
                body.append(z3.Implies(u, z3.Or(*shows) if shows else z3.BoolVal(False)))
            # the caller marks an excused pair on both sides (wrong_content adds both line numbers)
            sym = z3.And(*[mem['ai'](i) == mem['ei'](j) for i, j in zip(ka, ke)]) if ka else z3.BoolVal(True)
            clauses.append(z3.Implies(z3.And(cfg, sym), z3.And(*body)))
    return SBool(z3.And(*clauses)) if clauses else True


def _rc_contract(la, le):
    c = _Reconstruct(
        CF + 'FilesComparison.reconstruct', props=['C15'], name='reconstruct[%dx%d]' % (la, le),
        params=OrderedDict([('original_actual', T.custom(_lines)), ('original_expected', T.custom(_lines)),
                            ('actual_removals', None), ('expected_removals', None), ('actual_ignored', None),
                            ('expected_ignored', None), ('format', T.const(None))]),
        self_view=_perm_view, on_entry=_rc_entry,
        spec_env=dict(ENV, rebuilt_pair_differs_exactly_on_unexcused_lines=rebuilt_pair_differs_exactly_on_unexcused_lines),
        ensures=[('the-rebuilt-pair-differs-exactly-on-the-unexcused-lines',
                  'rebuilt_pair_differs_exactly_on_unexcused_lines(result, original_actual, original_expected, '
                  'actual_removals, expected_removals, actual_ignored, expected_ignored)')],
        max_paths=400000)
    c.shape = (la, le)
    c.preprocessed = False
    c.max_unroll = 2 * (la + le) + 2
    c.abstraction = ('texts of exactly %d and %d lines with symbolic contents; removal and ignored sets are '
                     'uninterpreted membership predicates; diff_marker / format_marker are assumed to be functions '
                     'of their arguments; the clause speaks about removals that leave both sides the same number '
                     'of lines' % (la, le))
    REGISTRY[c.ident + '#%dx%d' % (la, le)] = c
    return c


for _la in range(_cs_max_lines() + 1):
    for _le in range(_cs_max_lines() + 1):
        _rc_contract(_la, _le)


# ---------------------------------------------------------------------------
# check_file (C04, the file-against-file entry point): both files are read whole with the same encoding and cut into
# lines the same way; those two line lists, the two paths and every option go to check_strings unchanged and its
# verdict is the result; a missing reference or actual file is a failure (1), reported without comparing.
# ---------------------------------------------------------------------------

def _cf_entry(it, senv):
    state = {'missing': it.path.choose([True, True, True])}       # 0: both there, 1: reference missing, 2: actual missing
    it.ghost['cf_missing'] = state['missing']

    def ghost_open(it2, path, mode='r', *a, **k):
        which = 'expected' if path is senv['expected_path'] else ('actual' if path is senv['actual_path'] else None)
        if which is None:
            raise Unsupported('a file other than the two under comparison is opened')
        if (which == 'expected' and state['missing'] == 1) or (which == 'actual' and state['missing'] == 2):
            raise PyExc('IOError', 'No such file: %s' % which)
        it2.ghost.setdefault('opened', []).append((which, k.get('encoding')))
        text = SObj('text', {'__open__': False, 'of': which}, label='content of ' + which)
        text.methods['splitlines'] = Builtin(lambda it3, self, *args: ('lines-of', which, 'splitlines', args), 'splitlines')
        text.methods['split'] = Builtin(lambda it3, self, *args: ('lines-of', which, 'split', args), 'split')
        text.methods['endswith'] = Builtin(lambda it3, self, s: it3.fresh(T.bool, 'endswith'), 'endswith')
        f = SObj('file', {'__open__': False}, label=which)
        f.methods['read'] = Builtin(lambda it3, self, *args: text, 'read')
        # iterating over the file gives its lines one by one (with their line ends): a different way of cutting
        ln = SObj('text', {'__open__': False, 'of': which}, label='a line of ' + which)
        for m in ('rstrip', 'strip', 'lstrip'):
            ln.methods[m] = Builtin(lambda it3, self, *args, m=m: ('line-of', which, m, args), m)
        f.attrs['__iter__'] = [ln]
        f.methods['readlines'] = Builtin(lambda it3, self: [ln], 'readlines')
        f.methods['__enter__'] = Builtin(lambda it3, self: self, '__enter__')
        f.methods['close'] = Builtin(lambda it3, self: None, 'close')
        return f
    it.spec_env['open'] = Builtin(ghost_open, 'open')
    diffs = SObj('Diffs', {'__open__': True}, label='msgs')
    it.spec_env['Diffs'] = Builtin(lambda it2: diffs)


class _CheckFile(Contract):
    def verify(self, registry=None, quick=False):
        reg = dict(REGISTRY if registry is None else registry)

        def cs_effect(it, env):
            code = it.fresh(T.union(T.const(0), T.const(1)), 'check_strings.code')
            it.ghost.setdefault('cs_calls', []).append((env.get('actual'), env.get('expected'),
                                                        dict(env.get('_extra_kwargs') or {}), code))
            return (code, (env.get('_extra_kwargs') or {}).get('msgs'))
        cs = Contract(CF + 'FilesComparison.check_strings', params=dict(actual=None, expected=None), effects=cs_effect,
                      result=T.none, name='check_strings', spec_env=ENV,
                      trusted_note='verified separately (per-shape views); here only what it is given and its verdict')
        cs.varargs_ok = True
        reg[CF + 'FilesComparison.check_strings'] = cs
        af = Contract(CF + 'FilesComparison.add_failures', params={}, effects=lambda it, env: None, result=T.none,
                      assumed=True, name='add_failures(report)', spec_env=ENV)
        af.varargs_ok = True
        reg[CF + 'FilesComparison.add_failures'] = af
        return Contract.verify(self, reg, quick)


@specfn
def files_compared_as_texts_split_alike(it, result, actual_path, expected_path, options):
    missing = it.ghost['cf_missing']
    calls = it.ghost.get('cs_calls', [])
    if missing:
        return not calls and isinstance(result, tuple) and result[0] == 1
    if len(calls) != 1:
        return False
    a, e, kw, code = calls[0]
    opened = dict(it.ghost.get('opened', []))
    def how(x):
        # (which file, how it was cut into lines)
        if isinstance(x, tuple) and x and x[0] == 'lines-of':
            return x[1], ('whole text', x[2], x[3])
        if isinstance(x, list) and len(x) == 1 and isinstance(x[0], tuple) and x[0][0] == 'line-of':
            return x[0][1], ('line by line', x[0][2], x[0][3])
        return None, None
    (wa, ha), (we, he) = how(a), how(e)
    alike = wa == 'actual' and we == 'expected' and ha is not None and ha == he
    same_enc = set(opened) == {'actual', 'expected'} and (opened['actual'] is opened['expected'])
    handed_on = (kw.get('actual_path') is actual_path and kw.get('expected_path') is expected_path
                 and all(kw.get(k) is v for k, v in options.items()))
    return bool(alike and same_enc and handed_on and isinstance(result, tuple) and result[0] is code)


_CFOPT = ('lstrip', 'rstrip', 'ignore_substrings', 'ignore_patterns', 'remove_lines', 'preprocess',
          'max_permutation_cases', 'msgs')
_cfc = _CheckFile(CF + 'FilesComparison.check_file', props=['C04'],
                  params=OrderedDict([('actual_path', T.str), ('expected_path', T.str)]
                                     + [(k, T.opaque) for k in _CFOPT if k != 'msgs']
                                     + [('msgs', T.const(None)), ('encoding', T.opaque)]),
                  self_view=_perm_view, on_entry=_cf_entry,
                  spec_env=dict(ENV, files_compared_as_texts_split_alike=files_compared_as_texts_split_alike),
                  result=T.none,
                  ensures=[('both-files-read-and-split-alike-options-handed-on-a-missing-file-is-a-failure',
                            'files_compared_as_texts_split_alike(result, actual_path, expected_path, '
                            'dict(lstrip=lstrip, rstrip=rstrip, ignore_substrings=ignore_substrings, '
                            'ignore_patterns=ignore_patterns, remove_lines=remove_lines, preprocess=preprocess, '
                            'max_permutation_cases=max_permutation_cases))')])
REGISTRY[_cfc.ident] = _cfc
_cfc.abstraction = ('the two files are stubs whose whole text is an opaque object; cutting it into lines yields a '
                    'description of how it was cut; check_strings is used through a stub that records what it is given')


# ---------------------------------------------------------------------------
# check_files (C04, the list-of-files entry point): every pair is compared with the same options, the failures add
# up, a pair whose comparison raises counts as one failure and the remaining pairs are still compared.
# ---------------------------------------------------------------------------

def _cfs_view(it):
    o = _perm_view(it)

    def one(it2, self, actual_path, expected_path, **kw):
        k = len(it2.ghost.setdefault('pairs', []))
        raises = it2.path.choose([True, True]) == 1
        n = it2.fresh(T.union(T.const(0), T.const(1)), 'failures_of_pair_%d' % k)
        it2.ghost['pairs'].append((actual_path, expected_path, dict(kw), None if raises else n))
        if raises:
            raise PyExc('UnicodeDecodeError', 'pair %d' % k)
        return (n, kw.get('msgs'))
    o.methods['check_file'] = Builtin(one, 'check_file')
    o.methods['info'] = Builtin(lambda it2, self, *a, **k: None, 'info')
    return o


def _cfs_entry(it, senv):
    diffs = SObj('Diffs', {'__open__': True}, label='msgs')
    it.spec_env['Diffs'] = Builtin(lambda it2: diffs)


@specfn
def every_pair_compared_failures_add_up(it, result, actual_paths, expected_paths, options):
    pairs = it.ghost.get('pairs', [])
    if len(pairs) != len(actual_paths):
        return False
    total = 0
    for (a, e, kw, n), wa, we in zip(pairs, actual_paths, expected_paths):
        if a is not wa or e is not we or not all(kw.get(k) is v for k, v in options.items()):
            return False
        total += 1 if n is None else n
    return result[0] == total


_CFSOPT = ('lstrip', 'rstrip', 'ignore_substrings', 'ignore_patterns', 'remove_lines', 'preprocess',
           'max_permutation_cases')
_two_paths = T.custom(lambda it, n: [it.fresh_str(n + '0'), it.fresh_str(n + '1')])
contract(CF + 'FilesComparison.check_files', props=['C04'],
         params=OrderedDict([('actual_paths', _two_paths), ('expected_paths', _two_paths)]
                            + [(k, T.opaque) for k in _CFSOPT] + [('msgs', T.const(None)), ('encodings', T.const(None))]),
         self_view=_cfs_view, on_entry=_cfs_entry,
         spec_env=dict(ENV, every_pair_compared_failures_add_up=every_pair_compared_failures_add_up), result=T.none,
         ensures=[('every-pair-is-compared-with-the-same-options-and-the-failures-add-up',
                   'every_pair_compared_failures_add_up(result, actual_paths, expected_paths, dict(lstrip=lstrip, '
                   'rstrip=rstrip, ignore_substrings=ignore_substrings, ignore_patterns=ignore_patterns, '
                   'remove_lines=remove_lines, preprocess=preprocess, max_permutation_cases=max_permutation_cases))')])


# ---------------------------------------------------------------------------
# check_string_against_file (C04, the string entry point): the reference file is read whole and cut into lines; a
# string actual is cut the same way, a list of lines is taken as it is; both go to check_strings with the options
# unchanged; a missing reference file is a failure.
# ---------------------------------------------------------------------------

def _csf_entry(it, senv):
    missing = it.path.choose([True, True]) == 1
    it.ghost['cf_missing'] = 1 if missing else 0
    as_list = it.path.choose([True, True]) == 1
    it.ghost['actual_is_list'] = as_list
    if as_list:
        senv['actual'] = [it.fresh_str('actual_line0'), it.fresh_str('actual_line1')]
    else:
        t = SObj('str', {'__open__': False, 'of': 'actual'}, label='actual text')
        t.methods['splitlines'] = Builtin(lambda it3, self, *args: ('lines-of', 'actual', 'splitlines', args), 'splitlines')
        t.methods['split'] = Builtin(lambda it3, self, *args: ('lines-of', 'actual', 'split', args), 'split')
        t.methods['endswith'] = Builtin(lambda it3, self, s: it3.fresh(T.bool, 'endswith'), 'endswith')
        senv['actual'] = t

    def ghost_open(it2, path, mode='r', *a, **k):
        if path is not senv['expected_path']:
            raise Unsupported('a file other than the reference is opened')
        if missing:
            raise PyExc('IOError', 'No such file')
        text = SObj('text', {'__open__': False, 'of': 'expected'}, label='content of expected')
        text.methods['splitlines'] = Builtin(lambda it3, self, *args: ('lines-of', 'expected', 'splitlines', args), 'splitlines')
        text.methods['split'] = Builtin(lambda it3, self, *args: ('lines-of', 'expected', 'split', args), 'split')
        text.methods['endswith'] = Builtin(lambda it3, self, s: it3.fresh(T.bool, 'endswith'), 'endswith')
        f = SObj('file', {'__open__': False}, label='expected')
        f.methods['read'] = Builtin(lambda it3, self, *args: text, 'read')
        f.methods['__enter__'] = Builtin(lambda it3, self: self, '__enter__')
        return f
    it.spec_env['open'] = Builtin(ghost_open, 'open')
    diffs = SObj('Diffs', {'__open__': True}, label='msgs')
    it.spec_env['Diffs'] = Builtin(lambda it2: diffs)
    it.ghost['actual_arg'] = senv['actual']


@specfn
def string_compared_with_the_reference_text(it, result, expected_path, actual_path, options):
    calls = it.ghost.get('cs_calls', [])
    if it.ghost['cf_missing']:
        return not calls and isinstance(result, tuple) and result[0] == 1
    if len(calls) != 1:
        return False
    a, e, kw, code = calls[0]
    ref_ok = isinstance(e, tuple) and e[:2] == ('lines-of', 'expected')
    if it.ghost['actual_is_list']:
        act_ok = a is it.ghost['actual_arg']
    else:
        act_ok = isinstance(a, tuple) and a[:2] == ('lines-of', 'actual') and ref_ok and a[2:] == e[2:]
    handed_on = (kw.get('actual_path') is actual_path and kw.get('expected_path') is expected_path
                 and all(kw.get(k) is v for k, v in options.items()))
    return bool(ref_ok and act_ok and handed_on and isinstance(result, tuple) and result[0] is code)


_csf = _CheckFile(CF + 'FilesComparison.check_string_against_file', props=['C04'],
                  params=OrderedDict([('actual', None), ('expected_path', T.str), ('actual_path', T.opt(T.str))]
                                     + [(k, T.opaque) for k in _CFOPT if k != 'msgs']
                                     + [('create_temporaries', T.opaque), ('msgs', T.const(None)), ('encoding', T.opaque)]),
                  self_view=_perm_view, on_entry=_csf_entry,
                  spec_env=dict(ENV, string_compared_with_the_reference_text=string_compared_with_the_reference_text),
                  result=T.none,
                  ensures=[('the-string-and-the-reference-text-are-split-alike-options-handed-on',
                            'string_compared_with_the_reference_text(result, expected_path, actual_path, '
                            'dict(lstrip=lstrip, rstrip=rstrip, ignore_substrings=ignore_substrings, '
                            'ignore_patterns=ignore_patterns, remove_lines=remove_lines, preprocess=preprocess, '
                            'max_permutation_cases=max_permutation_cases, create_temporaries=create_temporaries))')])
REGISTRY[_csf.ident] = _csf
