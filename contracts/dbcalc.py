"""
Sidecar contracts for tdda/constraints/db/constraints.py::DatabaseConstraintCalculator (C08): every statistic the
shared discovery / verification layer asks for is the answer of the database handler's query of the same name, for
this table and this column (delegation contracts; the handler's queries -- SQL text and its meaning in the engine --
are the subject of the bounded SQLite audit, A-sql).
"""
import z3

from pyvc.contracts import contract, REGISTRY
from pyvc.sym import T, SObj, SBool, SStr, Unsupported
from pyvc.ops import values_equal, zbool
from pyvc.interp import Builtin, specfn
from pyvc import extract
from specs.sym_prims import PRIMS

DB = 'tdda/constraints/db/constraints.py::'
CALC = DB + 'DatabaseConstraintCalculator.'
HANDLER = ('get_database_column_names', 'get_database_nrows', 'get_database_min', 'get_database_max',
           'get_database_min_length', 'get_database_max_length', 'get_database_column_type', 'get_database_nnull',
           'get_database_nnonnull', 'get_database_nunique', 'get_database_unique_values', 'get_database_rex_match',
           'db_value_is_null', 'db_value_to_datetime')


def _view(it):
    rc = extract.load_module('tdda/constraints/db/constraints.py').classes['DatabaseConstraintCalculator']
    o = SObj('DatabaseConstraintCalculator', {'tablename': it.fresh_str('tablename'), 'testing': it.fresh(T.bool, 'testing')},
             label='self')
    o.repo_class = rc

    def handler(name):
        def call(it2, self, *args, **kw):
            if name == 'get_database_rex_match':
                r = it2.fresh(T.bool, name)
            elif name == 'get_database_column_names':
                r = it2.fresh(T.list(T.str), name)
            else:
                r = it2.fresh_opaque(name)
            it2.ghost.setdefault('queries', []).append((name, args, kw, r))
            return r
        return Builtin(call, name)
    for n in HANDLER:
        o.methods[n] = handler(n)
    return o


def _same(it, a, b):
    if a is b:
        return z3.BoolVal(True)
    r = values_equal(it, a, b)
    return r.z if isinstance(r, SBool) else z3.BoolVal(bool(r))


@specfn
def answer_of(it, name, *args, **kw):
    """The one query put to the handler was `name(*args, **kw)`; its answer."""
    qs = it.ghost.get('queries', [])
    if len(qs) != 1 or qs[0][0] != name or len(qs[0][1]) != len(args) or set(qs[0][2]) != set(kw):
        return SObj('no-such-query', {'__open__': False})
    ok = z3.And(*([_same(it, x, y) for x, y in zip(qs[0][1], args)]
                  + [_same(it, qs[0][2][k], kw[k]) for k in kw]))
    it.ghost['query_args_ok'] = ok
    return qs[0][3]


@specfn
def asked_with_these_arguments(it):
    return SBool(it.ghost.get('query_args_ok', z3.BoolVal(False)))


ENV = dict(PRIMS, answer_of=answer_of, asked_with_these_arguments=asked_with_these_arguments)


def _delegates(method, query, params, call):
    c = contract(CALC + method, props=['C08'], params=params, self_view=_view, spec_env=ENV, result=T.none,
                 ensures=[('the-answer-of-the-handler-query-for-this-table-and-column',
                           'result is answer_of(%s) and asked_with_these_arguments()' % call)])
    c.abstraction = ('the database handler is a stub whose queries return uninterpreted answers; the SQL behind each '
                     'query is audited on SQLite by the bounded layer (A-sql)')
    return c


_COL = dict(colname=T.str)
_delegates('get_nrecords', 'get_database_nrows', {}, "'get_database_nrows', self.tablename")
for _m, _q in (('calc_min', 'get_database_min'), ('calc_max', 'get_database_max'),
               ('calc_min_length', 'get_database_min_length'), ('calc_max_length', 'get_database_max_length'),
               ('calc_tdda_type', 'get_database_column_type'), ('calc_null_count', 'get_database_nnull'),
               ('calc_non_null_count', 'get_database_nnonnull'), ('calc_nunique', 'get_database_nunique')):
    _delegates(_m, _q, _COL, "'%s', self.tablename, colname" % _q)
_delegates('calc_unique_values', 'get_database_unique_values', dict(colname=T.str, include_nulls=T.bool),
           "'get_database_unique_values', self.tablename, colname, include_nulls=include_nulls")
_delegates('is_null', 'db_value_is_null', dict(value=T.opaque), "'db_value_is_null', value")
_delegates('to_datetime', 'db_value_to_datetime', dict(value=T.opaque), "'db_value_to_datetime', value")

contract(CALC + 'calc_rex_constraint', props=['C08'],
         params=dict(colname=T.str, constraint=T.obj('RexConstraint', value=T.opaque), detect=T.bool),
         self_view=_view, spec_env=ENV, result=T.none,
         ensures=[('violated-exactly-when-the-handler-finds-an-unmatched-value',
                   "result == (not answer_of('get_database_rex_match', self.tablename, colname, constraint.value)) "
                   "and asked_with_these_arguments()")])

contract(CALC + 'column_exists', props=['C08'], params=_COL, self_view=_view, spec_env=ENV, result=T.none,
         inline=[CALC + 'get_column_names'],
         ensures=[('the-column-is-among-the-names-the-handler-reports-for-this-table',
                   "result == (colname in answer_of('get_database_column_names', self.tablename)) "
                   "and asked_with_these_arguments()")])
