"""
Sidecar contracts for tdda/constraints/base.py and baseconstraints.py
(properties C01, C02, C06, C07, C08).

Assumed contracts (A-calc.*) are on the abstract calculator interface
tdda/constraints/extension.py::BaseConstraintCalculator; they are audited on
the real pandas / SQLite calculators by the bounded layer.
"""
import datetime
import z3

from pyvc.contracts import contract, Contract, LoopSpec, REGISTRY
from pyvc.sym import (T, TD, SObj, SBool, SInt, SReal, SStr, SDate, SList, SSet,
                      SMap, Sym, Unsupported, StrS)
from pyvc.ops import zbool, values_equal, truth
from pyvc.interp import Builtin, specfn
from pyvc import extract
from specs.sym_prims import constraints_spec_env, make_col, PRIMS

ENV = constraints_spec_env()
BASE = 'tdda/constraints/base.py::'
BC = 'tdda/constraints/baseconstraints.py::'
EXT = 'tdda/constraints/extension.py::'
CALC = EXT + 'BaseConstraintCalculator.'
DET = EXT + 'BaseConstraintDetector.'
VER = BC + 'BaseConstraintVerifier.'
DISC = BC + 'BaseConstraintDiscoverer.'

NUMDATE = T.union(T.int, T.real, T.datetime, T.date)
NUM = T.union(T.int, T.real)

# ---------------------------------------------------------------------------
# fuzzy comparison helpers (C02) -- verified
# ---------------------------------------------------------------------------

contract(BASE + 'fuzz_down', props=['C02'],
         params=dict(v=T.union(T.bool, NUMDATE), epsilon=NUM),
         requires=[('eps-nonneg', 'epsilon >= 0')],
         ensures=[('date-unchanged', 'implies(is_datev(v), result == v)'),
                  ('num', 'is_datev(v) or result == v - epsilon * abs(v)')],
         result=T.union(T.bool, NUMDATE), spec_env=ENV)

contract(BASE + 'fuzz_up', props=['C02'],
         params=dict(v=T.union(T.bool, NUMDATE), epsilon=NUM),
         requires=[('eps-nonneg', 'epsilon >= 0')],
         ensures=[('date-unchanged', 'implies(is_datev(v), result == v)'),
                  ('num', 'is_datev(v) or result == v + epsilon * abs(v)')],
         result=T.union(T.bool, NUMDATE), spec_env=ENV)

_NUMB = T.union(T.bool, T.int, T.real)

contract(BASE + 'fuzzy_greater_than', props=['C02'],
         params=dict(a=_NUMB, b=_NUMB, epsilon=NUM),
         requires=[('eps-nonneg', 'epsilon >= 0')],
         ensures=[('spec', 'result == (a >= b - epsilon * abs(b))'),
                  ('zero-never-fuzzy', 'implies(b == 0, result == (a >= 0))')],
         result=T.bool, spec_env=ENV)

contract(BASE + 'fuzzy_less_than', props=['C02'],
         params=dict(a=_NUMB, b=_NUMB, epsilon=NUM),
         requires=[('eps-nonneg', 'epsilon >= 0')],
         ensures=[('spec', 'result == (a <= b + epsilon * abs(b))'),
                  ('zero-never-fuzzy', 'implies(b == 0, result == (a <= 0))')],
         result=T.bool, spec_env=ENV)


# The same two comparators without FP-REAL: the fuzzed threshold is computed in floating point (for an integer
# bound beyond 2**53, or a non-zero epsilon, b * (1 +- epsilon) is a rounded value), so here fuzz_down / fuzz_up
# return an ARBITRARY number.  What must hold whatever the rounding does: a value that satisfies the bound under
# the exact comparison is accepted (this is what lets a column pass its own discovered minimum / maximum, C01).

def _any_number(it, env):
    return it.fresh(T.real, 'rounded_threshold')


class _RoundedThreshold(Contract):
    def verify(self, registry=None, quick=False):
        reg = dict(REGISTRY if registry is None else registry)
        for n in ('fuzz_down', 'fuzz_up'):
            c = Contract(BASE + n, params=dict(v=None, epsilon=None), effects=_any_number, result=T.none, assumed=True,
                         name=n + '(rounded)', spec_env=ENV)
            reg[BASE + n] = c
        return Contract.verify(self, reg, quick)


for _n, _op in (('fuzzy_greater_than', '>='), ('fuzzy_less_than', '<=')):
    _c = _RoundedThreshold(BASE + _n, props=['C02', 'C01'], params=dict(a=_NUMB, b=_NUMB, epsilon=NUM),
                           requires=[('eps-nonneg', 'epsilon >= 0')],
                           ensures=[('exactly-satisfied-bound-is-accepted-whatever-the-rounding',
                                     'implies(a %s b, result)' % _op)],
                           result=T.bool, spec_env=ENV, name=_n + '[rounded threshold]')
    REGISTRY[BASE + _n + '#rounded'] = _c


# ---------------------------------------------------------------------------
# The calculator interface: assumed contracts A-calc.* over the column view
# ---------------------------------------------------------------------------

def _col(env):
    return env['self'].attrs['col']


def _valtd(col, datekind='datetime'):
    return {'bool': T.bool, 'int': T.int, 'real': T.real, 'string': T.str,
            'date': T.datetime if datekind == 'datetime' else T.date,
            'other': T.opaque}[col.attrs['ttype']]


class ACalc(Contract):
    """Assumed contract on a calculator method; result type may depend on the column."""
    def __init__(self, ident, result_fn=None, **kw):
        kw.setdefault('assumed', True)
        kw.setdefault('spec_env', ENV)
        Contract.__init__(self, ident, **kw)
        self.result_fn = result_fn

    def apply(self, it, args, kwargs, selfobj=None):
        if self.result_fn is not None:
            env = self.bind(it, args, kwargs, selfobj)
            self.result = self.result_fn(it, env)
        return Contract.apply(self, it, args, kwargs, selfobj)


def acalc(name, **kw):
    c = ACalc(CALC + name, **kw)
    REGISTRY[c.ident] = c
    return c


THIS_COL = ('this-column', 'colname == self.colname')

acalc('column_exists', params=dict(colname=T.str), requires=[THIS_COL],
      ensures=['result == self.col.exists'], result=T.bool)


def _is_null_effect(it, env):
    v = env['value']
    if isinstance(v, (list, tuple, SList)):
        raise Unsupported('is_null of a list')
    return v is None          # NaN/NaT are modelled as None (FP-REAL)


acalc('is_null', params=dict(value=None), effects=_is_null_effect, result=T.none)


def _to_datetime_effect(it, env):
    v = env['value']
    if isinstance(v, SDate):
        return SDate(v.z, 'datetime')     # same instant, as a datetime
    if v is None:
        return None
    raise Unsupported('to_datetime of a non-date (outside the contract precondition)')


acalc('to_datetime', params=dict(value=None), effects=_to_datetime_effect, result=T.none)


def _coarse(v):
    t = v.pytype if isinstance(v, Sym) else type(v)
    if t in (bool, int, float):
        return 'number'
    if t is str:
        return 'string'
    if t in (datetime.datetime, datetime.date):
        return 'date'
    if v is None:
        return 'null'
    return 'other'


def _types_compatible_effect(it, env):
    x, y = env['x'], env['y']
    flavour = env['self'].attrs.get('flavour', 'pandas')
    if flavour == 'pandas':
        # pandas_types_compatible: equal coarse type (number / string / date)
        return _coarse(x) == _coarse(y)
    # database: equal Python type, int == long, and bool/int/float NOT merged
    tx = x.pytype if isinstance(x, Sym) else type(x)
    ty = y.pytype if isinstance(y, Sym) else type(y)
    return tx is ty


_tc = acalc('types_compatible', params=dict(x=None, y=None, colname=None),
            effects=_types_compatible_effect, result=T.none)
_tc.defaults = {'colname': None}

acalc('allowed_values_exclusions', params={}, effects=lambda it, env: [None],
      result=T.none)

acalc('get_nrecords', params={}, ensures=['result == self.col.N'], result=T.int)

acalc('calc_tdda_type', params=dict(colname=T.str), requires=[THIS_COL],
      effects=lambda it, env: _col(env).attrs['ttype'], result=T.none)

acalc('calc_null_count', params=dict(colname=T.str), requires=[THIS_COL],
      ensures=['result == self.col.n0'], result=T.int)
acalc('calc_non_null_count', params=dict(colname=T.str), requires=[THIS_COL],
      ensures=['result == self.col.nn'], result=T.int)
acalc('calc_nunique', params=dict(colname=T.str), requires=[THIS_COL],
      ensures=['result == self.col.nunique'], result=T.int)

acalc('calc_min', params=dict(colname=T.str), requires=[THIS_COL],
      result_fn=lambda it, env: T.opt(_valtd(_col(env), env['self'].attrs.get('datekind', 'datetime'))),
      ensures=[('null-iff-empty', '(result is None) == (self.col.nn == 0)'),
               ('lower-bound', 'result is None or forall_nn(self.col, lambda x: x >= result)'),
               ('attained', 'result is None or exists_nn(self.col, lambda x: x == result)')])
acalc('calc_max', params=dict(colname=T.str), requires=[THIS_COL],
      result_fn=lambda it, env: T.opt(_valtd(_col(env), env['self'].attrs.get('datekind', 'datetime'))),
      ensures=[('null-iff-empty', '(result is None) == (self.col.nn == 0)'),
               ('upper-bound', 'result is None or forall_nn(self.col, lambda x: x <= result)'),
               ('attained', 'result is None or exists_nn(self.col, lambda x: x == result)')])

_STRCOL = ('string-column', "self.col.ttype == 'string'")
acalc('calc_min_length', params=dict(colname=T.str), requires=[THIS_COL, _STRCOL],
      result=T.opt(T.int),
      ensures=[('null-iff-empty', '(result is None) == (self.col.nn == 0)'),
               ('lower-bound', 'result is None or forall_nn(self.col, lambda x: len(x) >= result)'),
               ('attained', 'result is None or exists_nn(self.col, lambda x: len(x) == result)')])
acalc('calc_max_length', params=dict(colname=T.str), requires=[THIS_COL, _STRCOL],
      result=T.opt(T.int),
      ensures=[('null-iff-empty', '(result is None) == (self.col.nn == 0)'),
               ('upper-bound', 'result is None or forall_nn(self.col, lambda x: len(x) <= result)'),
               ('attained', 'result is None or exists_nn(self.col, lambda x: len(x) == result)')])

acalc('calc_non_integer_values_count', params=dict(colname=T.str), requires=[THIS_COL],
      result=T.nat,
      ensures=[('zero-iff-all-whole', '(result == 0) == forall_nn(self.col, lambda x: whole(x))')])
acalc('calc_all_non_nulls_boolean', params=dict(colname=T.str), requires=[THIS_COL],
      result=T.bool,
      ensures=[('all-bool', 'result == forall_nn(self.col, lambda x: is_boolv(x))')])


class UniqueValues(object):
    """Marker for the (possibly null-containing) list calc_unique_values returns."""


def _unique_values_effect(it, env):
    col = _col(env)
    inc = env.get('include_nulls', True)
    z = col.z
    if inc is False:
        # a proper list of the distinct non-null values
        td = _valtd(col)
        if td.tag == 'opaque':
            raise Unsupported('unique values of an "other" column')
        lst = it.fresh(T.list(td), 'uniques')
        i, j = it.bound_var('u'), it.bound_var('u')
        p = it.path
        p.assume(lst.n == z['nu'])
        # every element is a non-null value of the column
        k = z3.Function(p.fresh_name('uniq.row'), z3.IntSort(), z3.IntSort())
        p.assume(z3.ForAll([i], z3.Implies(
            z3.And(i >= 0, i < lst.n),
            z3.And(k(i) >= 0, k(i) < z['N'], z3.Not(z['null'](k(i))),
                   zbool(values_equal(it, lst.get(i), z['wrap'](z['val'](k(i)))))))))
        # every non-null value occurs
        r = z3.Function(p.fresh_name('uniq.pos'), z3.IntSort(), z3.IntSort())
        p.assume(z3.ForAll([j], z3.Implies(
            z3.And(j >= 0, j < z['N'], z3.Not(z['null'](j))),
            z3.And(r(j) >= 0, r(j) < lst.n,
                   zbool(values_equal(it, lst.get(r(j)), z['wrap'](z['val'](j))))))))
        # pairwise distinct
        i2, j2 = it.bound_var('u'), it.bound_var('u')
        p.assume(z3.ForAll([i2, j2], z3.Implies(
            z3.And(i2 >= 0, i2 < lst.n, j2 >= 0, j2 < lst.n, i2 != j2),
            z3.Not(zbool(values_equal(it, lst.get(i2), lst.get(j2)))))))
        return lst
    # include_nulls: nulls first, then the distinct non-null values; only its
    # set of members is used by the code under contract
    def has(x):
        if x is None:
            return z['n0'] > 0
        q = it.bound_var('uv')
        return z3.Exists([q], z3.And(q >= 0, q < z['N'], z3.Not(z['null'](q)),
                                     zbool(values_equal(it, z['wrap'](z['val'](q)), x))))

    def forall(pred):
        q = it.bound_var('uv')
        return z3.And(
            z3.ForAll([q], z3.Implies(z3.And(q >= 0, q < z['N'], z3.Not(z['null'](q))),
                                      zbool(pred(z['wrap'](z['val'](q)))))),
            z3.Implies(z['n0'] > 0, zbool(pred(None))))
    s = SSet(has, None, None)
    s.forall = forall
    o = SObj('UniqueValuesList', {'__as_set__': s, '__open__': True})
    return o


_uv = acalc('calc_unique_values', params=dict(colname=T.str, include_nulls=None),
            requires=[THIS_COL], effects=_unique_values_effect, result=T.none)
_uv.defaults = {'include_nulls': True}


def _rex_result(it, name):
    return SObj('RexViolations', {'__truth__': SBool(z3.Bool(it.path.fresh_name(name + '.truthy'))),
                                  '__open__': True})


_rx = acalc('calc_rex_constraint', params=dict(colname=T.str, constraint=None, detect=None),
            requires=[THIS_COL, _STRCOL],
            result=T.custom(_rex_result),
            ensures=[('truthy-iff-unmatched',
                      'bool(result) == (constraint.value is not None and '
                      'not forall_nn(self.col, lambda x: rex_match(constraint.value, x)))')])
_rx.defaults = {'detect': False}

# detection hooks: no result, recorded in the ghost call trace (C06)
for _n, _ps in (('detect_min_constraint', ['colname', 'value', 'precision', 'epsilon']),
                ('detect_max_constraint', ['colname', 'value', 'precision', 'epsilon']),
                ('detect_min_length_constraint', ['colname', 'value']),
                ('detect_max_length_constraint', ['colname', 'value']),
                ('detect_tdda_type_constraint', ['colname', 'value']),
                ('detect_sign_constraint', ['colname', 'value']),
                ('detect_max_nulls_constraint', ['colname', 'value']),
                ('detect_no_duplicates_constraint', ['colname', 'value']),
                ('detect_allowed_values_constraint', ['colname', 'value', 'violations']),
                ('detect_rex_constraint', ['colname', 'violations'])):
    c = ACalc(DET + _n, params={p: None for p in _ps}, requires=[THIS_COL], result=T.none)
    REGISTRY[c.ident] = c


# ---------------------------------------------------------------------------
# The verifier object view
# ---------------------------------------------------------------------------

RECOGNISED = ('bool', 'int', 'real', 'string', 'date')


def verifier_view(flavour='pandas', ttypes=RECOGNISED, epsilon=None, nunique=False):
    def build(it):
        mod = extract.load_module('tdda/constraints/baseconstraints.py')
        rc = mod.classes['BaseConstraintVerifier']
        colname = it.fresh_str('colname')
        kw = {}
        if ttypes is not None:
            kw['ttypes'] = ttypes
        col = make_col(it, 'col', nunique=nunique, **kw)
        eps = it.fresh(T.real, 'self.epsilon') if epsilon is None else epsilon
        tc = it.fresh(T.enum('strict', 'sloppy'), 'type_checking')
        o = SObj('BaseConstraintVerifier', {
            'col': col, 'colname': colname, 'epsilon': eps,
            'type_checking': tc, 'flavour': flavour,
        }, label='self')
        o.repo_class = rc
        return o
    return build


# ---------------------------------------------------------------------------
# cached getters: get_X(colname) == calc_X(colname)  (cache invariant)
# ---------------------------------------------------------------------------
# The cache maps colname -> {statistic name -> value}.  Representation
# invariant: every entry equals the statistic it is named after for the frame
# held by this object.  In the view, self.cache is not materialised: the
# getters are given the calculators' contracts (proved for get_cached_value
# below under the invariant), so a verifier sees get_min == calc_min.

GETTERS = {
    'get_min': ('min', 'calc_min'), 'get_max': ('max', 'calc_max'),
    'get_min_length': ('min_length', 'calc_min_length'),
    'get_max_length': ('max_length', 'calc_max_length'),
    'get_tdda_type': ('tdda_type', 'calc_tdda_type'),
    'get_null_count': ('null_count', 'calc_null_count'),
    'get_non_null_count': ('non_null_count', 'calc_non_null_count'),
    'get_nunique': ('nunique', 'calc_nunique'),
    'get_unique_values': ('uniques', 'calc_unique_values'),
    'get_non_integer_values_count': ('non_integer_values_count',
                                     'calc_non_integer_values_count'),
    'get_all_non_nulls_boolean': ('all_non_nulls_boolean',
                                  'calc_all_non_nulls_boolean'),
}


class GetterContract(Contract):
    """
    get_X: proved to call get_cached_value(<key>, colname, self.calc_X) -- see
    the 'delegates' obligation -- and, given get_cached_value's contract,
    to return calc_X(colname).  At call sites it behaves as calc_X.
    """
    def __init__(self, getter, key, calc):
        Contract.__init__(self, VER + getter, params=dict(colname=T.str),
                          props=['C01', 'C02'], spec_env=ENV)
        self.getter, self.key, self.calc = getter, key, calc

    def apply(self, it, args, kwargs, selfobj=None):
        r = REGISTRY[CALC + self.calc].apply(it, args, kwargs, selfobj)
        it.path.trace.append((self.getter, {'colname': args[0] if args else None}, r))
        return r

    def verify(self, registry=None, quick=False):
        # The body must be exactly a call get_cached_value(key, colname, self.calc_X)
        gcv_calls = []

        def gcv_effect(it, env):
            gcv_calls.append((env['value'], env['colname'], env['f']))
            return None
        gcv = Contract(VER + 'get_cached_value',
                       params=dict(value=None, colname=None, f=None),
                       effects=gcv_effect, result=T.opaque, spec_env=ENV)
        reg = dict(REGISTRY)
        reg[VER + 'get_cached_value'] = gcv
        key, calc = self.key, self.calc

        def delegates(it, colname, result):
            from pyvc.interp import BoundMethod
            ok = (len(gcv_calls) >= 1 and gcv_calls[-1][0] == key
                  and isinstance(gcv_calls[-1][2], BoundMethod)
                  and gcv_calls[-1][2].name == calc
                  and gcv_calls[-1][1] is colname)
            del gcv_calls[:]
            return ok
        env = dict(ENV)
        env['delegates'] = Builtin(delegates)
        self.spec_env = env
        self.ensures = [('delegates-to-%s-under-key-%s' % (calc, key),
                         'delegates(colname, result)')]
        self.self_view = verifier_view(ttypes=('int',))
        self.result = T.opaque
        return Contract.verify(self, reg, quick)


for _g, (_k, _c) in GETTERS.items():
    REGISTRY[VER + _g] = GetterContract(_g, _k, _c)


# ---------------------------------------------------------------------------
# get_cached_value / cache_values: the cache invariant (C01)
# ---------------------------------------------------------------------------
# self.cache is a dict colname -> {statistic key -> value}.  Representation
# invariant INV: every cached entry equals the statistic it is named after,
# STAT(column, key).  The view enumerates the shapes of the cache around the
# column at hand (absent / empty / holding this key / holding another key),
# each with and without an entry for another column (frame).  Keys are the
# concrete getter keys; column names are symbolic strings.

from pyvc.sym import SymKeyDict
from pyvc.ops import strz

_STAT = z3.Function('STAT', StrS, StrS, z3.IntSort())
KEYS = tuple(k for k, _ in GETTERS.values())


def _stat(it, colname, key):
    return SInt(_STAT(strz(it, colname), strz(it, key)))


def _cache_view(it):
    o = SObj('BaseConstraintVerifier', label='self')
    o.repo_class = extract.load_module(
        'tdda/constraints/baseconstraints.py').classes['BaseConstraintVerifier']
    p = it.path
    colname = it.fresh_str('the_colname')
    other = it.fresh_str('other_colname')
    p.assume(colname.z != other.z)
    key = it.fresh(T.enum(*KEYS), 'key')
    okey = KEYS[(KEYS.index(key) + 1) % len(KEYS)]
    shape = p.choose([True] * 4)
    entries = []
    if shape == 1:
        entries.append([colname, {}])
    elif shape == 2:
        entries.append([colname, {key: _stat(it, colname, key)}])       # INV
    elif shape == 3:
        entries.append([colname, {okey: _stat(it, colname, okey)}])     # INV
    if p.choose([True, True]) == 1:
        entries.append([other, {key: _stat(it, other, key)}])           # INV
    o.attrs['cache'] = SymKeyDict(entries)
    o.ghost = dict(colname=colname, other=other, key=key, okey=okey, shape=shape,
                   had_other=len(entries) and entries[-1][0] is other)
    return o


def _inv_and_frame(it, selfobj, colname_created=True):
    """INV holds for every entry, and the other column's entry is untouched."""
    g = selfobj.ghost
    cache = selfobj.attrs['cache']
    if not isinstance(cache, SymKeyDict):
        return False
    zs = []
    seen_other = False
    for k, inner in cache.entries:
        if not isinstance(inner, dict):
            return False
        for kk, v in inner.items():
            e = values_equal(it, v, _stat(it, k, kk))
            if e is False:
                return False
            zs.append(zbool(e))
        if k is g['other']:
            seen_other = True
            if list(inner.keys()) != [g['key']]:
                return False
    if bool(g['had_other']) != seen_other:
        return False
    return z3.And(*zs) if zs else True


def _cv_post(it, selfobj, colname, result):
    g = selfobj.ghost
    cache = selfobj.attrs['cache']
    hits = [inner for k, inner in cache.entries if k is g['colname']]
    if len(hits) != 1 or hits[0] is not result:
        return False
    # contents: unchanged if it existed, empty if created
    expect = {0: [], 1: [], 2: [g['key']], 3: [g['okey']]}[g['shape']]
    if list(result.keys()) != expect:
        return False
    return _inv_and_frame(it, selfobj)


contract(VER + 'cache_values', props=['C01'],
         params=dict(colname=T.custom(lambda it, n: None)),   # bound in on_entry
         self_view=_cache_view,
         on_entry=None, result=T.opaque,
         ensures=[('returns-the-stored-entry-and-preserves-INV',
                   'cv_post(self, self_colname(self), result)')],
         spec_env=dict(ENV, cv_post=Builtin(_cv_post),
                       self_colname=Builtin(lambda it, s: s.ghost['colname'])))


class _CacheTarget(Contract):
    """Contracts whose colname parameter is the view's column name."""
    def verify(self, registry=None, quick=False):
        return Contract.verify(self, registry, quick)


def _bind_colname(c):
    # the colname parameter is the symbolic name created by the view
    orig = c.self_view

    def view(it):
        o = orig(it)
        it.ghost['view_self'] = o
        return o
    c.self_view = view
    c.params['colname'] = T.custom(lambda it, n: it.ghost['view_self'].ghost['colname'])
    return c


_bind_colname(REGISTRY[VER + 'cache_values'])


def _cv_as_callee(it, env):
    """cache_values used at a call site: creates the entry if absent, returns it."""
    selfobj, colname = env['self'], env['colname']
    cache = selfobj.attrs['cache']
    for k, inner in cache.entries:
        if it.branch(zbool(values_equal(it, colname, k))):
            return inner
    d = {}
    cache.entries.append([colname, d])
    return d


REGISTRY[VER + 'cache_values'].effects = _cv_as_callee


def _f_builtin():
    def f(it, colname):
        it.path.trace.append(('f', {'colname': colname}, None))
        return _stat(it, colname, it.ghost['view_self'].ghost['key'])
    return Builtin(f, 'f')


def _gcv_post(it, selfobj, colname, result):
    g = selfobj.ghost
    e = values_equal(it, result, _stat(it, colname, g['key']))
    if e is False:
        return False
    cache = selfobj.attrs['cache']
    hits = [inner for k, inner in cache.entries if k is g['colname']]
    if len(hits) != 1 or g['key'] not in hits[0]:
        return False
    expect = {0: [g['key']], 1: [g['key']], 2: [g['key']],
              3: [g['okey'], g['key']]}[g['shape']]
    if list(hits[0].keys()) != expect:
        return False
    ncalls = sum(1 for n, _, _ in it.path.trace if n == 'f')
    if ncalls != (0 if g['shape'] == 2 else 1):
        return False          # computed at most once, and not when cached
    inv = _inv_and_frame(it, selfobj)
    if inv is False:
        return False
    return z3.And(zbool(e), zbool(inv))


_gcv = contract(VER + 'get_cached_value', props=['C01', 'C02'],
                params=dict(value=T.custom(lambda it, n: it.ghost['view_self'].ghost['key']),
                            colname=None,
                            f=T.custom(lambda it, n: _f_builtin())),
                self_view=_cache_view, result=T.int,
                ensures=[('result-is-the-statistic-and-INV-preserved',
                          'gcv_post(self, colname, result)')],
                spec_env=dict(ENV, gcv_post=Builtin(_gcv_post)))
_bind_colname(_gcv)
_p = _gcv.params
_gcv.params = type(_p)([('value', _p['value']), ('colname', _p['colname']), ('f', _p['f'])])


# ---------------------------------------------------------------------------
# The ten verifiers (C02 verdict semantics, C06 detection hook, C01 noraise)
# ---------------------------------------------------------------------------

def _con(cls, kind, value_td, **extra):
    return T.obj(cls, kind=kind, value=value_td, **extra)


PRECISION = T.union(T.none, T.enum('open', 'closed', 'fuzzy'))
BOUND = T.union(T.none, T.bool, T.int, T.real, T.datetime)
COMMON_REQ = [THIS_COL]
EPS_REQ = ('epsilon-nonneg', 'self.epsilon >= 0')
# date-valued bounds reach pandas.to_datetime(column minimum); on a non-date
# field that is outside the documented meaning (and may raise): out of scope
DATE_REQ = ('date-bound-only-on-date-field',
            "not is_datev(constraint.value) or self.col.ttype == 'date' or not self.col.exists")


def _hook(name, scope='True'):
    """
    C06: the detection hook runs exactly when detecting and the verdict is a
    failure on a field that exists (a missing field has no records to flag:
    detect() docstring).  Outside the documented scope of the kind (e.g. a
    length constraint on a non-string field) the clause only pins the
    current behaviour (code).
    """
    return [('hook-iff-detect-and-failed',
             "implies(%s, called('%s') == (1 if (detect and not result and self.col.exists) else 0))"
             % (scope, name)),
            ('hook-code', "implies(not (%s), called('%s') == 0)" % (scope, name)),
            ('verdict-is-bool', 'isinstance(result, bool)')]


def _scope_split(spec_call, in_scope):
    """doc clause inside the documented scope, derived-from-code clause outside."""
    return [('doc', 'implies(%s, result == %s)' % (in_scope, spec_call)),
            ('code', 'implies(not (%s), result == %s)' % (in_scope, spec_call))]


_MISSING_NULL = 'not (constraint.value is None and not self.col.exists)'

_minmax_scope = ('(%s) and (constraint.value is None or not self.col.exists or self.col.nn == 0 '
                 'or coarse_of_ttype(self.col.ttype) == coarse_of_value(constraint.value))'
                 % _MISSING_NULL)

for _kind, _spec, _hookname in (('min', 'spec_min', 'detect_min_constraint'),
                                ('max', 'spec_max', 'detect_max_constraint')):
    contract(VER + 'verify_%s_constraint' % _kind, props=['C01', 'C02', 'C06', 'C08'],
             params=dict(colname=T.str,
                         constraint=_con(_kind.title() + 'Constraint', _kind, BOUND,
                                         precision=PRECISION),
                         detect=T.bool),
             self_view=verifier_view(),
             requires=COMMON_REQ + [EPS_REQ, DATE_REQ],
             ensures=_scope_split('%s(self.col, constraint.value, eff_precision(constraint.precision), '
                                  'self.epsilon)' % _spec, _minmax_scope)
             + _hook(_hookname)
             + [('hook-args', "hook_args_ok('%s', colname=colname, value=constraint.value, "
                 "precision=eff_precision(constraint.precision), epsilon=self.epsilon)" % _hookname)],
             derived=['code', 'hook-code'], result=T.bool, spec_env=ENV)

_len_scope = ("(%s) and (constraint.value is None or not self.col.exists "
              "or self.col.ttype == 'string')" % _MISSING_NULL)
for _kind, _spec in (('min_length', 'spec_min_length'), ('max_length', 'spec_max_length')):
    contract(VER + 'verify_%s_constraint' % _kind, props=['C01', 'C02', 'C06', 'C08'],
             params=dict(colname=T.str,
                         constraint=_con('LengthConstraint', _kind, T.opt(T.int)),
                         detect=T.bool),
             self_view=verifier_view(), requires=COMMON_REQ,
             ensures=_scope_split('%s(self.col, constraint.value)' % _spec, _len_scope)
             + _hook('detect_%s_constraint' % _kind, "self.col.ttype == 'string'")
             + [('hook-args', "hook_args_ok('detect_%s_constraint', colname=colname, "
                 "value=constraint.value)" % _kind)],
             derived=['code', 'hook-code'], result=T.bool, spec_env=ENV)

# type: every subset of the five tdda types as a list, each scalar, None, [None]
import itertools
_TYPES = ('bool', 'int', 'real', 'date', 'string')
_type_values = [None, [None]] + list(_TYPES)
for _r in range(1, len(_TYPES) + 1):
    for _sub in itertools.combinations(_TYPES, _r):
        _type_values.append(list(_sub))
_type_scope = ("(%s) and not (self.type_checking == 'sloppy' and self.col.ttype == 'real' "
               "and 'bool' in allowed_list(constraint.value) "
               "and 'int' not in allowed_list(constraint.value) "
               "and 'real' not in allowed_list(constraint.value))" % _MISSING_NULL)
contract(VER + 'verify_tdda_type_constraint', props=['C01', 'C02', 'C06', 'C08'],
         params=dict(colname=T.str,
                     constraint=_con('TypeConstraint', 'type', T.enum(*_type_values)),
                     detect=T.bool),
         self_view=verifier_view(), requires=COMMON_REQ,
         ensures=_scope_split('spec_type(self.col, constraint.value, self.type_checking)',
                              _type_scope)
         + _hook('detect_tdda_type_constraint'),
         derived=['code', 'hook-code'], result=T.bool, spec_env=ENV)

_SIGNS = ('positive', 'non-negative', 'zero', 'non-positive', 'negative', 'null')
_sign_scope = ("(%s) and (constraint.value is None or not self.col.exists or self.col.nn == 0 "
               "or coarse_of_ttype(self.col.ttype) == 'number')" % _MISSING_NULL)
contract(VER + 'verify_sign_constraint', props=['C01', 'C02', 'C06', 'C08'],
         params=dict(colname=T.str,
                     constraint=_con('SignConstraint', 'sign', T.union(T.none, T.enum(*_SIGNS))),
                     detect=T.bool),
         self_view=verifier_view(), requires=COMMON_REQ,
         ensures=_scope_split('spec_sign(self.col, constraint.value)', _sign_scope)
         + _hook('detect_sign_constraint'),
         derived=['code', 'hook-code'], result=T.bool, spec_env=ENV)

contract(VER + 'verify_max_nulls_constraint', props=['C01', 'C02', 'C06', 'C08'],
         params=dict(colname=T.str,
                     constraint=_con('MaxNullsConstraint', 'max_nulls', T.opt(T.int)),
                     detect=T.bool),
         self_view=verifier_view(), requires=COMMON_REQ,
         ensures=_scope_split('spec_max_nulls(self.col, constraint.value)', _MISSING_NULL)
         + _hook('detect_max_nulls_constraint'),
         derived=['code', 'hook-code'], result=T.bool, spec_env=ENV)

contract(VER + 'verify_no_duplicates_constraint', props=['C01', 'C02', 'C06', 'C08'],
         params=dict(colname=T.str,
                     constraint=_con('NoDuplicatesConstraint', 'no_duplicates',
                                     T.union(T.none, T.const(True), T.const(False))),
                     detect=T.bool),
         self_view=verifier_view(nunique=True), requires=COMMON_REQ,
         ensures=_scope_split('spec_no_duplicates(self.col, constraint.value)',
                              '(%s) and not (constraint.value is False and not self.col.exists)'
                              % _MISSING_NULL)
         + _hook('detect_no_duplicates_constraint'),
         derived=['code', 'hook-code'], result=T.bool, spec_env=ENV)


def _pigeonhole(it, senv):
    """A-pigeonhole: if every non-null value is in the list, nunique <= len(list)."""
    con = senv['constraint']
    v = con.attrs['value']
    if v is None:
        return
    col = senv['self'].attrs['col']
    allin = it.call(ENV['forall_nn'], [col, Builtin(lambda it2, x: it2.call(
        Builtin(lambda it3, a, b: __import__('pyvc.ops', fromlist=['contains']).contains(it3, b, a)),
        [x, v], {}))], {})
    it.path.assume(z3.Implies(zbool(truth(it, allin)), col.z['nu'] <= v.n))


contract(VER + 'verify_allowed_values_constraint', props=['C01', 'C02', 'C06', 'C08'],
         params=dict(colname=T.str,
                     constraint=_con('AllowedValuesConstraint', 'allowed_values',
                                     T.opt(T.list(T.str))),
                     detect=T.bool),
         self_view=verifier_view(nunique=True),
         requires=COMMON_REQ, on_entry=_pigeonhole,
         ensures=_scope_split('spec_allowed_values(self.col, constraint.value)', _MISSING_NULL)
         + _hook('detect_allowed_values_constraint'),
         derived=['code', 'hook-code'], result=T.bool, spec_env=ENV)

contract(VER + 'verify_rex_constraint', props=['C01', 'C02', 'C06', 'C08'],
         params=dict(colname=T.str,
                     constraint=_con('RexConstraint', 'rex', T.list(T.str)),
                     detect=T.bool),
         self_view=verifier_view(), requires=COMMON_REQ,
         ensures=[('doc', 'result == spec_rex(self.col, constraint.value)')]
         + _hook('detect_rex_constraint', "self.col.ttype == 'string'"),
         derived=['hook-code'], result=T.bool, spec_env=ENV)


# ---------------------------------------------------------------------------
# Discovery (C07 exact statistics; C01 never raises)
# ---------------------------------------------------------------------------

def discoverer_view(it):
    mod = extract.load_module('tdda/constraints/baseconstraints.py')
    rc = mod.classes['BaseConstraintDiscoverer']
    colname = it.fresh_str('colname')
    col = make_col(it, 'col', ttypes=('bool', 'int', 'real', 'string', 'date', 'other'),
                   exists=True, nunique=True)
    o = SObj('BaseConstraintDiscoverer', {
        'col': col, 'colname': colname,
        'inc_rex': it.fresh(T.bool, 'inc_rex'),
        'seed': it.fresh(T.opt(T.int), 'seed'),
        'flavour': 'pandas',
    }, label='self')
    o.repo_class = rc
    return o


_fr = acalc('find_rexes', params=dict(colname=T.str, values=None, seed=None),
            requires=[THIS_COL, _STRCOL,
                      ('values-are-the-column-values',
                       'values is None or (forall_nn(self.col, lambda x: x in values))')],
            result=T.list(T.str),
            ensures=[('C03-every-value-matched',
                      'forall_nn(self.col, lambda x: rex_match(result, x))')],
            trusted_note='this IS property C03 (rexpy.extract covers every example); imported')
_fr.defaults = {'values': None, 'seed': None}

_CTOR_INLINE = [BASE + n for n in (
    'Constraint.__init__', 'Constraint.check_validity', 'constraint_class',
    'MinConstraint.__init__', 'MaxConstraint.__init__', 'SignConstraint.__init__',
    'TypeConstraint.__init__', 'MaxNullsConstraint.__init__',
    'NoDuplicatesConstraint.__init__', 'AllowedValuesConstraint.__init__',
    'MinLengthConstraint.__init__', 'MaxLengthConstraint.__init__',
    'RexConstraint.__init__', 'FieldConstraints.__init__',
    'native_definite', 'UnicodeDefinite')]

_DISC_CLAUSES = [
    ('other-type-nothing', "implies(self.col.ttype == 'other', result is None)"),
    ('type', "self.col.ttype == 'other' or disc_type(self.col, result.constraints)"),
    ('max_nulls', "self.col.ttype == 'other' or disc_max_nulls(self.col, result.constraints)"),
    ('min', "self.col.ttype == 'other' or disc_min(self.col, result.constraints)"),
    ('max', "self.col.ttype == 'other' or disc_max(self.col, result.constraints)"),
    ('min_length', "self.col.ttype == 'other' or disc_min_length(self.col, result.constraints)"),
    ('max_length', "self.col.ttype == 'other' or disc_max_length(self.col, result.constraints)"),
    ('sign', "self.col.ttype == 'other' or disc_sign(self.col, result.constraints)"),
    ('no_duplicates', "self.col.ttype == 'other' or disc_no_duplicates(self.col, result.constraints)"),
    ('allowed_values', "self.col.ttype == 'other' or disc_allowed_values(self.col, result.constraints, 20)"),
    ('rex', "self.col.ttype == 'other' or disc_rex(self.col, result.constraints, self.inc_rex)"),
    ('field-name', "self.col.ttype == 'other' or result.name is fieldname"),
    ('only-known-kinds', "self.col.ttype == 'other' or all(k in ('type', 'min', 'max', 'min_length', "
     "'max_length', 'sign', 'max_nulls', 'no_duplicates', 'allowed_values', 'rex') "
     "for k in result.constraints)"),
]

contract(DISC + 'discover_field_constraints', props=['C01', 'C07', 'C08'],
         params=dict(fieldname=T.str), self_view=discoverer_view,
         requires=[('this-column', 'fieldname == self.colname')],
         ensures=_DISC_CLAUSES, inline=_CTOR_INLINE, result=T.opaque, spec_env=ENV)


# ---------------------------------------------------------------------------
# C01 closure lemmas: what discovery returns (its postcondition, C07) satisfies
# the documented meaning of every kind (the verifiers' postcondition, C02),
# for every column view.  No code involved: holds as long as both contracts do.
# ---------------------------------------------------------------------------
from pyvc.contracts import lemma


def _closure_setup(kind, value_td, extra=None):
    def setup(it):
        col = make_col(it, 'col', ttypes=RECOGNISED, exists=True, nunique=True)
        rec = SObj('Rec', {'value': it.fresh(value_td(col), 'K.%s.value' % kind), 'precision': None})
        env = {'col': col, 'K': {kind: rec}, 'v': rec.attrs['value'],
               'eps': it.fresh(T.real, 'eps')}
        if extra:
            env.update(extra(it, col, env))
        return env
    return setup


def _same(col):
    return _valtd(col)


def _sign_extra(it, col, env):
    mn = SObj('Rec', {'value': it.fresh(_valtd(col), 'K.min.value'), 'precision': None})
    mx = SObj('Rec', {'value': it.fresh(_valtd(col), 'K.max.value'), 'precision': None})
    env['K']['min'] = mn
    env['K']['max'] = mx
    return {}


lemma('C01.closure.min', props=['C01'], spec_env=ENV,
      setup=_closure_setup('min', _same),
      assumes=["col.ttype != 'string'", 'eps >= 0', "disc_min(col, K)", "'min' in K and col.nn > 0"],
      proves=[('verifies', "spec_min(col, v, 'fuzzy', eps)")])
lemma('C01.closure.max', props=['C01'], spec_env=ENV,
      setup=_closure_setup('max', _same),
      assumes=["col.ttype != 'string'", 'eps >= 0', "disc_max(col, K)", "'max' in K and col.nn > 0"],
      proves=[('verifies', "spec_max(col, v, 'fuzzy', eps)")])
lemma('C01.closure.min_length', props=['C01'], spec_env=ENV,
      setup=_closure_setup('min_length', lambda col: T.int),
      assumes=["col.ttype == 'string'", "disc_min_length(col, K)", "col.nn > 0"],
      proves=[('verifies', "spec_min_length(col, v)")])
lemma('C01.closure.max_length', props=['C01'], spec_env=ENV,
      setup=_closure_setup('max_length', lambda col: T.int),
      assumes=["col.ttype == 'string'", "disc_max_length(col, K)", "col.nn > 0"],
      proves=[('verifies', "spec_max_length(col, v)")])
lemma('C01.closure.max_nulls', props=['C01'], spec_env=ENV,
      setup=_closure_setup('max_nulls', lambda col: T.int),
      assumes=["disc_max_nulls(col, K)", "col.N > 0 and col.n0 < 2"],
      proves=[('verifies', "spec_max_nulls(col, v)")])
lemma('C01.closure.no_duplicates', props=['C01'], spec_env=ENV,
      setup=_closure_setup('no_duplicates', lambda col: T.const(True)),
      assumes=["disc_no_duplicates(col, K)", "'no_duplicates' in K"],
      proves=[('verifies', "spec_no_duplicates(col, v)")])
lemma('C01.closure.allowed_values', props=['C01'], spec_env=ENV,
      setup=_closure_setup('allowed_values', lambda col: T.list(T.str)),
      assumes=["col.ttype == 'string'", "disc_allowed_values(col, K, 20)",
               "col.nunique >= 1 and col.nunique <= 20"],
      proves=[('verifies', "spec_allowed_values(col, v)")])
lemma('C01.closure.rex', props=['C01'], spec_env=ENV,
      setup=_closure_setup('rex', lambda col: T.list(T.str)),
      assumes=["col.ttype == 'string'", "disc_rex(col, K, True)"],
      proves=[('verifies', "spec_rex(col, v)")])
lemma('C01.closure.type', props=['C01'], spec_env=ENV,
      setup=_closure_setup('type', lambda col: T.const(col.attrs['ttype'])),
      assumes=["disc_type(col, K)"],
      proves=[('verifies-strict', "spec_type(col, v, 'strict')"),
              ('verifies-sloppy', "spec_type(col, v, 'sloppy')")])
lemma('C01.closure.sign', props=['C01'], spec_env=ENV,
      setup=_closure_setup('sign', lambda col: T.enum('positive', 'non-negative', 'zero',
                                                     'non-positive', 'negative'), _sign_extra),
      assumes=["is_numeric_ttype(col.ttype)", "col.nn > 0", "disc_min(col, K)", "disc_max(col, K)",
               "disc_sign(col, K)", "'sign' in K"],
      proves=[('verifies', "spec_sign(col, v)")])


# ---------------------------------------------------------------------------
# database flavour of types_compatible (C08): equal Python type, int == long
# ---------------------------------------------------------------------------
DBC = 'tdda/constraints/db/constraints.py::'


@Builtin
def _same_static_type(it, x, y):
    tx = x.pytype if isinstance(x, Sym) else type(x)
    ty = y.pytype if isinstance(y, Sym) else type(y)
    return tx is ty


contract(DBC + 'types_compatible', props=['C08'],
         params=dict(x=T.scalar, y=T.scalar, colname=T.opt(T.str)),
         spec_env=dict(ENV, same_static_type=_same_static_type), result=T.bool,
         ensures=[('exact-type-compatibility', 'result == same_static_type(x, y)')])


# ---------------------------------------------------------------------------
# base.verify: aggregation of verdicts into totals (C02), detection protocol
# and output-file handling (C06)
# ---------------------------------------------------------------------------
# Fields and constraints are abstract sequences.  VER(f, j) is the verdict the
# dispatch table's verifier gives for the j-th constraint of field f (an
# uninterpreted Boolean), HAS(f, j) whether the table has a verifier for its
# kind.  CT / CF count true / false verdicts in a prefix of a field's
# constraints, SP / SF sum them over a prefix of the fields:
#   CT(f, 0) = 0,  CT(f, j+1) = CT(f, j) + [HAS(f, j) and VER(f, j)]      (A-count)
#   SP(0) = 0,     SP(i+1)   = SP(i) + CT(NAME(i), M(NAME(i)))
# The postcondition is results.passes = SP(n), results.failures = SF(n): the
# totals equal the counts of the verdicts; kinds without a verifier count in
# neither.

_VER = z3.Function('VER', StrS, z3.IntSort(), z3.BoolSort())
_HAS = z3.Function('HAS', StrS, z3.IntSort(), z3.BoolSort())
_KIND = z3.Function('KIND', StrS, z3.IntSort(), StrS)
_M = z3.Function('M', StrS, z3.IntSort())
_CT = z3.Function('CT', StrS, z3.IntSort(), z3.IntSort())
_CF = z3.Function('CF', StrS, z3.IntSort(), z3.IntSort())
_NAME = z3.Function('NAME', z3.IntSort(), StrS)
_SP = z3.Function('SP', z3.IntSort(), z3.IntSort())
_SF = z3.Function('SF', z3.IntSort(), z3.IntSort())
_HASKIND = z3.Function('HASKIND', StrS, z3.BoolSort())


def _count_axioms(it):
    """Ground facts only (SP(0) = SF(0) = 0); the recursive equations are instantiated where the
    executor touches a field / a constraint / a field index, so every query stays quantifier-free
    and refutations come with a model."""
    it.path.assume(z3.And(_SP(0) == 0, _SF(0) == 0))


def _inst_field(it, f):
    it.fact(z3.And(_CT(f, 0) == 0, _CF(f, 0) == 0, _M(f) >= 0))


def _inst_constraint(it, f, j):
    one = lambda c: z3.If(c, 1, 0)
    it.fact(z3.And(
        _HAS(f, j) == _HASKIND(_KIND(f, j)),
        _CT(f, j + 1) == _CT(f, j) + one(z3.And(_HAS(f, j), _VER(f, j))),
        _CF(f, j + 1) == _CF(f, j) + one(z3.And(_HAS(f, j), z3.Not(_VER(f, j))))))


def _inst_index(it, i):
    it.fact(z3.And(_SP(i + 1) == _SP(i) + _CT(_NAME(i), _M(_NAME(i))),
                   _SF(i + 1) == _SF(i) + _CF(_NAME(i), _M(_NAME(i)))))


def _verify_setup(it, senv):
    from pyvc.ops import strz
    _count_axioms(it)
    nfields = z3.Int(it.path.fresh_name('nfields'))
    it.path.assume(nfields >= 0)
    def field_name(i):
        _inst_index(it, i)
        return SStr(_NAME(i))
    allfields = SList(nfields, field_name, T.str, 'list')
    it.ghost['allfields'] = allfields

    # constraints.fields: keys() and item access
    fields = SObj('Fields', {'__open__': False})
    fields.methods['keys'] = Builtin(lambda it2, self: allfields)

    def field_item(it2, self, name):
        nz = strz(it2, name)
        _inst_field(it2, nz)

        def get(jz):
            _inst_constraint(it2, nz, jz)
            c = SObj('Constraint', {'kind': SStr(_KIND(nz, jz)), '__open__': False})
            c.index = jz
            c.field = nz
            return c
        fc = SObj('FieldConstraints', {'__iter__': SList(_M(nz), get, None, 'list'), '__open__': False})
        return fc
    fields.methods['__getitem__'] = Builtin(field_item)
    senv['constraints'].attrs['fields'] = fields

    # sorted(keys, key=...) : a permutation of the keys; the totals do not depend on the order
    it.spec_env['sorted'] = Builtin(lambda it2, seq, key=None, reverse=False: allfields)

    # the dispatch table: kind -> verifier (a stub returning VER for the constraint at hand)
    def verifier(it2, name, c, detect):
        it2.path.events.append(('verifier-call', name, c, detect))
        return SBool(_VER(c.field, c.index))
    vmap = SMap(lambda k: _HASKIND(strz(it, k)), lambda k: Builtin(verifier), T.str, None, 'verifiers')
    senv['verifiers'] = vmap
    it.ghost['verifiers'] = vmap

    # results object: Verification with symbolic-key field store
    it.spec_env['TDDAObject'] = Builtin(_tdda_object)
    writer_calls = it.ghost.setdefault('writer_calls', [])

    def writer(it2, **kw):
        writer_calls.append((dict(kw), len(it2.path.events)))
        it2.path.events.append(('writer-call',))
        return SObj('Detection', {'__open__': False})
    senv['detected_records_writer'] = Builtin(writer)
    it.ghost['writer'] = senv['detected_records_writer']


def _tdda_object(it, *a, **k):
    o = SObj('TDDAObject', {'__open__': True})
    store = SymKeyDict()
    o.attrs['__items__'] = store

    def setitem(it2, obj, key, value):
        it2.setitem(store, key, value, None, None)
    o.attrs['__setitem__'] = setitem
    return o


class _VerificationStub(object):
    pass


def _verification_class(it, name):
    def make(it2, constraints, **kw):
        it2.ghost['verification_kwargs'] = dict(kw)
        return SObj('Verification', {'fields': _tdda_object(it2), 'failures': 0, 'passes': 0,
                                     'detection': None, '__open__': False})
    return Builtin(make)


@specfn
def totals_ok(it, results):
    n = it.ghost['allfields'].n
    from pyvc.sym import num_z
    return SBool(z3.And(num_z(results.attrs['passes'])[0] == _SP(n),
                        num_z(results.attrs['failures'])[0] == _SF(n)))


@specfn
def detecting(it, kwargs_given):
    return (kwargs_given.get('detect_outpath') is not None or kwargs_given.get('detect') is not None
            or kwargs_given.get('detect_in_place') is not None)


@specfn
def writer_called(it):
    return len(it.ghost.get('writer_calls', []))


@specfn
def outfile_emptied_and_removed_first(it, path):
    """open(path, 'w') then os.remove(path), both before any verifier ran; nothing else written."""
    ev = [e for e in it.path.events if e[0] in ('open', 'remove', 'verifier-call', 'writer-call')]
    kinds = [e[0] for e in ev]
    if kinds[:2] != ['open', 'remove']:
        return False
    if ev[0][1] is not path or ev[1][1] is not path or 'w' not in ev[0][2]:
        return False
    return 'open' not in kinds[2:] and 'remove' not in kinds[2:]


@specfn
def no_file_touched(it):
    return not any(e[0] in ('open', 'remove') for e in it.path.events)


_OUTPATH = T.union(T.const(Ellipsis), T.none, T.str)
_DET = T.union(T.const(Ellipsis), T.const(True))

contract(BASE + 'verify', props=['C02', 'C06'],
         params=dict(constraints=T.custom(lambda it, n: SObj('DatasetConstraints', {'__open__': False})),
                     fieldnames=T.list(T.str),
                     verifiers=T.none,        # bound in on_entry
                     VerificationClass=T.custom(_verification_class),
                     detected_records_writer=T.none),
         kwparams=dict(detect_outpath=_OUTPATH, detect=_DET, detect_in_place=T.union(T.const(Ellipsis), T.const(False))),
         on_entry=_verify_setup,
         spec_env=dict(ENV, totals_ok=totals_ok, detecting=detecting, writer_called=writer_called,
                       outfile_emptied_and_removed_first=outfile_emptied_and_removed_first,
                       no_file_touched=no_file_touched),
         loops={1: LoopSpec([('totals-so-far', 'results.passes == SPi(_i) and results.failures == SFi(_i)')],
                            havoc={'name': T.str, 'field_results': 'unbound', 'failures': T.int, 'passes': T.int,
                                   'c': 'unbound', 'verify': 'unbound', 'satisfied': 'unbound',
                                   'results.passes': T.int, 'results.failures': T.int, 'results.fields': 'keep'}),
                2: LoopSpec([('field-counts-so-far', 'passes == CTi(name, _i) and failures == CFi(name, _i)')],
                            havoc={'c': 'unbound', 'verify': 'unbound', 'satisfied': 'unbound',
                                   'passes': T.int, 'failures': T.int, 'field_results': 'keep'})},
         result=T.opaque,
         ensures=[('totals-equal-verdict-counts', 'totals_ok(result)'),
                  ('writer-called-iff-detecting-and-failed',
                   'writer_called() == (1 if (detecting(kwargs_given) and result.failures > 0) else 0)'),
                  ('stale-output-file-emptied-and-removed-before-verification',
                   "outfile_emptied_and_removed_first(kwargs_given['detect_outpath']) "
                   "if kwargs_given.get('detect_outpath') else no_file_touched()")])


@specfn
def SPi(it, i):
    from pyvc.sym import num_z
    return SInt(_SP(num_z(i)[0]))


@specfn
def SFi(it, i):
    from pyvc.sym import num_z
    return SInt(_SF(num_z(i)[0]))


@specfn
def CTi(it, name, i):
    from pyvc.sym import num_z
    from pyvc.ops import strz
    return SInt(_CT(strz(it, name), num_z(i)[0]))


@specfn
def CFi(it, name, i):
    from pyvc.sym import num_z
    from pyvc.ops import strz
    return SInt(_CF(strz(it, name), num_z(i)[0]))


REGISTRY[BASE + 'verify'].spec_env.update(SPi=SPi, SFi=SFi, CTi=CTi, CFi=CFi)
