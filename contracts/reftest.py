"""
Sidecar contracts for tdda/referencetest/referencetest.py (C10: references
are rewritten only on request) and referencetestcase.py (C19).
"""
import ast
import z3
from collections import OrderedDict

from pyvc.contracts import contract, Contract, REGISTRY
from pyvc.sym import (T, TD, SObj, SBool, SInt, SStr, SList, SMap, Sym, Unsupported,
                      StrS, SymKeyDict)
from pyvc.ops import zbool, values_equal, truth, strz, PyExc
from pyvc.interp import Builtin, specfn, BoundMethod
from pyvc import extract
from specs.sym_prims import PRIMS, load_spec_functions

RT = 'tdda/referencetest/referencetest.py::'
RTC = 'tdda/referencetest/referencetestcase.py::'
CF = 'tdda/referencetest/checkfiles.py::'
CP = 'tdda/referencetest/checkpandas.py::'

ENV = dict(PRIMS)

# ---------------------------------------------------------------------------
# ghost state: the regeneration table T (kind -> bool, None = all kinds) and
# the write set W (every open(..., 'w'/'wb'/'a') and every callee that writes)
# ---------------------------------------------------------------------------

KIND = T.union(T.none, T.str)


def make_table(it, name='T'):
    """Symbolic regeneration table: has/val as uninterpreted functions of the key."""
    has_s = z3.Function(it.path.fresh_name(name + '.has'), StrS, z3.BoolSort())
    val_s = z3.Function(it.path.fresh_name(name + '.val'), StrS, z3.BoolSort())
    has_none = z3.Bool(it.path.fresh_name(name + '.hasNone'))
    val_none = z3.Bool(it.path.fresh_name(name + '.valNone'))

    def has(k):
        if k is None:
            return has_none
        if isinstance(k, (str, SStr)):
            return has_s(strz(it, k))
        return False

    def get(k):
        if k is None:
            return SBool(val_none)
        return SBool(val_s(strz(it, k)))
    return SMap(has, get, KIND, T.bool, name)


@specfn
def t_has(it, table, k):
    h = table.has(k)
    return h if isinstance(h, bool) else SBool(h)


@specfn
def t_val(it, table, k):
    return table.get(k)


ENV.update({'t_has': t_has, 't_val': t_val})
ENV.update(load_spec_functions('reftest_spec.py'))


def _write(it, path, how):
    it.path.writes.append((how, path))


@specfn
def no_reference_writes(it):
    """Nothing was written except by callees confined to the temporary directory."""
    return all(how == 'tmp' for how, _ in it.path.writes)


@specfn
def reference_writes_are(it, expected):
    """Exactly the given reference path(s) were written (each at least once), nothing else."""
    exp = list(expected) if isinstance(expected, (list, tuple)) else [expected]
    ws = [p for how, p in it.path.writes if how != 'tmp']
    if any(how == 'tmp' for how, _ in it.path.writes):
        return False
    zs = []
    for p in ws:
        eq = [values_equal(it, p, e) for e in exp]
        if any(x is True for x in eq):
            continue
        eq = [zbool(x) for x in eq if x is not False]
        if not eq:
            return False
        zs.append(z3.Or(*eq))
    for e in exp:
        eq = [values_equal(it, p, e) for p in ws]
        if any(x is True for x in eq):
            continue
        eq = [zbool(x) for x in eq if x is not False]
        if not eq:
            return False
        zs.append(z3.Or(*eq))
    return SBool(z3.And(*zs)) if zs else True


@specfn
def n_writes(it):
    return len(it.path.writes)


ENV.update({'no_reference_writes': no_reference_writes,
            'reference_writes_are': reference_writes_are, 'n_writes': n_writes})

# resolved reference path: deterministic function of (path, kind)
_resolve = z3.Function('resolve_ref', StrS, StrS, StrS)
_resolve_none = z3.Function('resolve_ref_nokind', StrS, StrS)


def resolved(it, path, kind):
    if not isinstance(path, (str, SStr)):
        raise Unsupported('reference path is not a string')
    if kind is None:
        return SStr(_resolve_none(strz(it, path)))
    return SStr(_resolve(strz(it, path), strz(it, kind)))


ENV['resolved'] = Builtin(resolved)


def _resolve_effect(it, env):
    return resolved(it, env['path'], env.get('kind'))


_rrp = contract(RT + 'ReferenceTest._resolve_reference_path', params=dict(path=None, kind=None),
                effects=_resolve_effect, result=T.none, assumed=True, spec_env=ENV,
                trusted_note='path resolution is a function of (path, kind) and the configured locations')
_rrp.defaults = {'kind': None}


def _resolve_many_effect(it, env):
    paths = env['paths']
    if isinstance(paths, SList):
        g = paths.get
        k = env.get('kind')
        return SList(paths.n, lambda i: resolved(it, g(i), k), T.str, 'list')
    return [resolved(it, p, env.get('kind')) for p in it.iterate_concrete(paths)]


_rrps = contract(RT + 'ReferenceTest._resolve_reference_paths', params=dict(paths=None, kind=None),
                 effects=_resolve_many_effect, result=T.none, assumed=True, spec_env=ENV)
_rrps.defaults = {'kind': None}


# ---------------------------------------------------------------------------
# view of a ReferenceTest instance
# ---------------------------------------------------------------------------

def _tmp_writer(name, params, ident):
    """A callee that may write, but only under tmp_dir (frame proved/audited under C15)."""
    def eff(it, env):
        _write(it, name, 'tmp')
        return None
    c = Contract(ident, params={p: None for p in params}, effects=eff,
                 result=T.custom(lambda it, n: (it.fresh(T.nat, n + '.failures'),
                                                SObj('FailureDiffs', {'__open__': True}))),
                 assumed=True, spec_env=ENV, name=name)
    c.varargs_ok = True
    return c


def _ref_writer(name, ident, ref_param, params):
    def eff(it, env):
        target = env[ref_param]
        if isinstance(target, (list, tuple)):
            for p in target:
                _write(it, p, 'ref:' + name)
        else:
            _write(it, target, 'ref:' + name)
        return None
    c = Contract(ident, params={p: None for p in params}, effects=eff, result=T.none,
                 assumed=True, spec_env=ENV, name=name)
    c.varargs_ok = True
    return c


FILES_METHODS = {
    'check_string_against_file': ['actual', 'expected_path'],
    'check_file': ['actual_path', 'expected_path'],
    'check_files': ['actual_paths', 'expected_paths'],
    'check_binary_file': ['actual_path', 'expected_path'],
}
PANDAS_CHECKS = {
    'check_serialized_dataframe': ['actual_path', 'expected_path'],
    'check_serialized_dataframes': ['actual_paths', 'expected_paths'],
}


def reftest_view(it):
    mod = extract.load_module('tdda/referencetest/referencetest.py')
    rc = mod.classes['ReferenceTest']
    files = SObj('FilesComparison', {'__open__': False})
    for n, ps in FILES_METHODS.items():
        files.methods[n] = _tmp_writer('files.' + n, ps, CF + 'FilesComparison.' + n)
    pandas = SObj('PandasComparison', {'__open__': False})
    for n, ps in PANDAS_CHECKS.items():
        pandas.methods[n] = _tmp_writer('pandas.' + n, ps, CP + 'PandasComparison.' + n)
    pandas.methods['_write_reference_dataframe'] = _ref_writer(
        'pandas._write_reference_dataframe', CP + 'PandasComparison._write_reference_dataframe',
        'path', ['df', 'path'])
    pandas.methods['_write_reference_dataframe_from_file'] = _ref_writer(
        'pandas._write_reference_dataframe_from_file',
        CP + 'PandasComparison._write_reference_dataframe_from_file', 'ref_path',
        ['actual_path', 'ref_path'])
    pandas.methods['_write_reference_dataframes_from_files'] = _ref_writer(
        'pandas._write_reference_dataframes_from_files',
        CP + 'PandasComparison._write_reference_dataframes_from_files', 'ref_paths',
        ['actual_paths', 'ref_paths'])

    def load_eff(it2, env):
        return it2.fresh_opaque('ref_df')
    ld = Contract(CP + 'PandasComparison.load_serialized_dataframe', params=dict(path=None),
                  effects=load_eff, result=T.none, assumed=True, spec_env=ENV,
                  name='pandas.load_serialized_dataframe')
    ld.varargs_ok = True
    pandas.methods['load_serialized_dataframe'] = ld
    table = make_table(it)
    o = SObj('ReferenceTest', {
        'regenerate': table, 'files': files, 'pandas': pandas,
        'verbose': it.fresh(T.bool, 'verbose'),
        'print_fn': Builtin(lambda it2, *a, **k: None, 'print_fn'),
        'assert_fn': Builtin(lambda it2, *a, **k: None, 'assert_fn'),
        'tmp_dir': it.fresh_str('tmp_dir'),
    }, label='self')
    o.repo_class = rc
    o.ghost_table = table
    return o


# ---------------------------------------------------------------------------
# _should_regenerate / set_regeneration  (proved)
# ---------------------------------------------------------------------------

contract(RT + 'ReferenceTest._should_regenerate', props=['C10'],
         params=dict(kind=KIND), self_view=reftest_view, result=T.bool, spec_env=ENV,
         ensures=[('spec', 'bool(result) == should_regen(self.regenerate, kind)'),
                  ('no-writes', 'n_writes() == 0'),
                  ('table-untouched', 'self.regenerate is old_table')],
         olds={'old_table': 'self.regenerate'})


def _sr_post(it, selfobj, old, kind, regenerate):
    """After set_regeneration(kind, v): T[kind] = v and every other key is as before."""
    new = selfobj.attrs['regenerate']
    if not isinstance(new, SMap):
        return False
    k = z3.Const(it.path.fresh_name('anykey'), StrS)
    kk = SStr(k)
    zs = [zbool(new.has(kind)), zbool(truth(it, new.get(kind))) == zbool(truth(it, regenerate))]
    for other in (kk, None):
        same_key = values_equal(it, other, kind)
        keep = z3.And(zbool(new.has(other)) == zbool(old.has(other)),
                      z3.Implies(zbool(old.has(other)),
                                 zbool(truth(it, new.get(other))) == zbool(truth(it, old.get(other)))))
        zs.append(z3.Or(zbool(same_key), keep) if other is None
                  else z3.ForAll([k], z3.Or(zbool(same_key), keep)))
    return SBool(z3.And(*zs))


def _cls_view(it):
    o = reftest_view(it)
    return o


contract(RT + 'ReferenceTest.set_regeneration', props=['C10'],
         params=dict(kind=KIND, regenerate=T.bool), self_view=_cls_view, self_param='cls',
         result=T.none, spec_env=dict(ENV, sr_post=Builtin(_sr_post)),
         ensures=[('updates-one-key', 'sr_post(self, old_table, kind, regenerate)'),
                  ('no-writes', 'n_writes() == 0')],
         olds={'old_table': 'self.regenerate'})


# _should_regenerate at call sites: pure function of the table
def _sr_effect(it, env):
    return None


# ---------------------------------------------------------------------------
# reference writers (proved: they write exactly the path they are given)
# ---------------------------------------------------------------------------

@specfn
def written_data_is(it, path, value):
    """One write to the file opened at `path`, and what was written is `value` itself."""
    if it.ghost.get('actual_result_given') is None:
        return True       # at a call site: the clause is about the writer's own body and says nothing to callers
    ws = [e for e in it.path.events if e[0] == 'write']
    from pyvc.ops import values_equal, is_strlike
    if len(ws) != 1:
        return False
    same_file = True if ws[0][1] is path else values_equal(it, ws[0][1], path)
    data = ws[0][2]
    if data is value:
        return same_file
    if is_strlike(data) and is_strlike(value):
        from pyvc.ops import zbool
        import z3 as _z3
        return SBool(_z3.And(zbool(same_file), zbool(values_equal(it, data, value))))
    return False


ENV['written_data_is'] = written_data_is


@specfn
def actual_result_given(it):
    """The `result` argument of the writer (the name `result` in a postcondition is the return value)."""
    return it.ghost.get('actual_result_given')


ENV['actual_result_given'] = actual_result_given

contract(RT + 'ReferenceTest._write_reference_result', props=['C10'],
         params=dict(result=T.union(T.str, T.opaque), reference_path=T.str, binary=T.bool, lstrip=T.bool, rstrip=T.bool),
         self_view=reftest_view, spec_env=ENV,
         on_entry=lambda it, senv: it.ghost.__setitem__('actual_result_given', senv['result']),
         ensures=[('writes-exactly-the-reference', 'reference_writes_are([reference_path])'),
                  # "a regenerated reference passes": the comparison strips per line, so the reference must hold the
                  # actual result as it is, whatever the stripping options
                  ('the-reference-holds-the-actual-result-unaltered', 'written_data_is(reference_path, actual_result_given())')])

contract(RT + 'ReferenceTest._write_reference_file', props=['C10'],
         params=dict(actual_path=T.str, reference_path=T.str, binary=T.bool, lstrip=T.bool, rstrip=T.bool),
         self_view=reftest_view, spec_env=ENV,
         ensures=[('writes-exactly-the-reference', 'reference_writes_are([reference_path])')])


def _wr_effect(it, env):
    _write(it, env['reference_path'], 'ref')
    return None


def _wrs_effect(it, env):
    for p in it.iterate_concrete(env['reference_paths']) if not isinstance(env['reference_paths'], SList) else [env['reference_paths']]:
        _write(it, p, 'ref')
    return None


for _n in ('_write_reference_result', '_write_reference_file'):
    REGISTRY[RT + 'ReferenceTest.' + _n].effects = _wr_effect
    REGISTRY[RT + 'ReferenceTest.' + _n].varargs_ok = True
    REGISTRY[RT + 'ReferenceTest.' + _n].defaults = {'binary': False, 'lstrip': False, 'rstrip': False}


def _check_failures_effect(it, env):
    return None


_cfc = contract(RT + 'ReferenceTest._check_failures', params=dict(failures=None, msgs=None),
                effects=_check_failures_effect, result=T.none, assumed=True, spec_env=ENV,
                trusted_note='calls assert_fn(failures == 0, message); no file effects')


# ---------------------------------------------------------------------------
# the assertions: frame conditions from the property text
# ---------------------------------------------------------------------------

def params_from_signature(ident, overrides):
    fn = extract.get_function(ident)
    a = fn.node.args
    names = [p.arg for p in a.posonlyargs + a.args if p.arg not in ('self', 'cls')]
    names += [p.arg for p in a.kwonlyargs]
    out = {}
    for n in names:
        out[n] = overrides.get(n, T.opaque)
    return out, (a.kwarg.arg if a.kwarg else None)


class AssertionContract(Contract):
    def verify(self, registry=None, quick=False):
        # parameters are re-derived from the current signature on every run
        params, kwarg = params_from_signature(self.ident, self.overrides)
        self.params = type(self.params)(params)
        return Contract.verify(self, registry, quick)

    def apply(self, it, args, kwargs, selfobj=None):
        # used at a call site (one assertion calling another): parameters and defaults from the current signature
        params, kwarg = params_from_signature(self.ident, self.overrides)
        self.params = type(self.params)(params)
        fn = extract.get_function(self.ident)
        a = fn.node.args
        pos = [p.arg for p in a.posonlyargs + a.args if p.arg not in ('self', 'cls')]
        import ast as _ast
        self.defaults = {}
        for name, d in zip(pos[len(pos) - len(a.defaults):], a.defaults):
            try:
                self.defaults[name] = _ast.literal_eval(d)
            except Exception:
                pass
        self.varargs_ok = kwarg is not None
        return Contract.apply(self, it, args, kwargs, selfobj)


def assertion(name, ref_param, overrides, eff_kind='kind', many=False, props=('C10',), extra=None):
    ident = RT + 'ReferenceTest.' + name
    exp = ('resolved_all(%s, %s)' if many else 'resolved(%s, %s)') % (ref_param, eff_kind)
    ens = [
        ('normal-mode-never-touches-reference',
         'should_regen(self.regenerate, %s) or no_reference_writes()' % eff_kind),
        ('regeneration-writes-exactly-the-reference',
         'not should_regen(self.regenerate, %s) or reference_writes_are(%s)' % (eff_kind, exp)),
        ('table-untouched', 'self.regenerate is old_table'),
    ]
    c = AssertionContract(ident, params={}, self_view=reftest_view, ensures=ens + (extra or []),
                          olds={'old_table': 'self.regenerate'}, props=list(props), spec_env=ENV)
    c.overrides = dict(overrides)
    REGISTRY[ident] = c
    return c


def _resolved_all(it, paths, kind):
    if isinstance(paths, SList):
        raise Unsupported('symbolic list of reference paths')
    return [resolved(it, p, kind) for p in it.iterate_concrete(paths)]


ENV['resolved_all'] = Builtin(_resolved_all)

_LINES = T.opt(T.list(T.str))
_BASE = dict(kind=KIND, ref_path=T.str, actual_path=T.str, lstrip=T.bool, rstrip=T.bool,
             remove_lines=_LINES, ignore_lines=_LINES)

# assertDataFramesEqual: on failure writes temporaries under tmp_dir only
_adfe = _tmp_writer('assertDataFramesEqual', ['df', 'ref_df'], RT + 'ReferenceTest.assertDataFramesEqual')
REGISTRY[_adfe.ident] = _adfe

assertion('assertStringCorrect', 'ref_path', dict(_BASE, string=T.str))
assertion('assertTextFileCorrect', 'ref_path', dict(_BASE))
assertion('assertBinaryFileCorrect', 'ref_path', dict(_BASE))
assertion('assertDataFrameCorrect', 'ref_path', dict(_BASE, df=T.opaque))
# two reference files: lists of two symbolic paths
_TWO = T.custom(lambda it, n: [it.fresh_str(n + '0'), it.fresh_str(n + '1')])
assertion('assertTextFilesCorrect', 'ref_paths', dict(_BASE, ref_paths=_TWO, actual_paths=_TWO), many=True)
# assertOnDiskDataFrameCorrect keys 'parquet' results under 'csv' ("it's just a key")
_a = assertion('assertOnDiskDataFrameCorrect', 'ref_path', dict(_BASE),
               eff_kind="('csv' if kind == 'parquet' else kind)")
assertion('assertOnDiskDataFramesCorrect', 'ref_paths',
          dict(_BASE, ref_paths=_TWO, actual_paths=_TWO), many=True,
          eff_kind="('csv' if kind == 'parquet' else kind)")


# the legacy CSV-file assertions hand their own kind on to the on-disk assertions (same keying of 'parquet')
assertion('assertCSVFileCorrect', 'ref_csv', dict(_BASE, ref_csv=T.str),
          eff_kind="('csv' if kind == 'parquet' else kind)")


def _wrfs_effect(it, env):
    for p in it.iterate_concrete(env['reference_paths']):
        _write(it, p, 'ref')
    return None


_wrfs = contract(RT + 'ReferenceTest._write_reference_files', props=['C10'],
                 params=dict(actual_paths=_TWO, reference_paths=_TWO, lstrip=T.bool, rstrip=T.bool),
                 self_view=reftest_view, spec_env=ENV, effects=_wrfs_effect,
                 ensures=[('writes-exactly-the-references', 'reference_writes_are(reference_paths)')])
_wrfs.defaults = {'lstrip': False, 'rstrip': False}


# ---------------------------------------------------------------------------
# C19: tag decorator and loader selection
# ---------------------------------------------------------------------------

contract(RT + 'tag', props=['C19'],
         params=dict(test=T.custom(lambda it, n: SObj('function', {'__open__': False}, label=n))),
         spec_env=ENV, result=T.opaque,
         ensures=[('marks-and-returns-the-same-object', 'result is test and test._tagged is True')])


@specfn
def loader_choice(it):
    """'tagged:<check>' | 'default' for the loader handed to unittest.main (exactly one call)."""
    calls = [e for e in it.path.events if e and e[0] == 'unittest.main']
    if len(calls) != 1:
        return 'calls=%d' % len(calls)
    ld = calls[0][2].get('testLoader')
    if isinstance(ld, SObj) and ld.cls == 'TaggedTestLoader':
        return ('tagged', ld.attrs.get('check'))
    if isinstance(ld, SObj) and ld.cls == 'unittest.defaultTestLoader':
        return ('default', None)
    return ('other', None)


@specfn
def main_argv(it):
    calls = [e for e in it.path.events if e and e[0] == 'unittest.main']
    return calls[0][2].get('argv') if calls else None


contract(RTC + '_run_tests', props=['C19'],
         params=dict(module=T.union(T.none, T.opaque), argv=T.custom(lambda it, n: ['prog', it.fresh_str('a1')]),
                     tagged=T.bool, check=T.bool),
         spec_env=dict(ENV, loader_choice=loader_choice, main_argv=main_argv),
         inline=[RTC + 'TaggedTestLoader.__init__'],
         ensures=[('tagged-loader-iff-tagged-or-check',
                   "loader_choice()[0] == ('tagged' if (tagged or check) else 'default')"),
                  ('loader-knows-whether-listing',
                   "loader_choice()[0] != 'tagged' or loader_choice()[1] is check"),
                  ('argv-passed-through', 'main_argv() is argv')])


# ---------------------------------------------------------------------------
# TaggedTestLoader.getTestCaseNames (C19): under a tagged run a class offers all
# of its tests when the class itself carries the tag, otherwise exactly its
# tagged methods.  unittest's own name discovery is abstract (A-unittest).
# ---------------------------------------------------------------------------

def _gtcn_entry(it, senv):
    n = it.path.choose([True] * 4)
    names = ['test_%d' % i for i in range(n)]
    class_tagged = it.path.choose([True, True]) == 1
    tagged = [it.path.choose([True, True]) == 1 for _ in names]
    attrs = {'__open__': False}
    for nm, tg in zip(names, tagged):
        m = SObj('function', {'__open__': False}, label=nm)
        if tg:
            m.attrs['_tagged'] = True
        attrs[nm] = m
    if class_tagged:
        attrs['_tagged'] = True
    cls = SObj('TestCaseClass', attrs, label='testCaseClass')
    senv['testCaseClass'] = cls
    it.path.inputs['testCaseClass'] = cls
    it.ghost['gtcn'] = (names, class_tagged, tagged)
    loader = SObj('unittest.TestLoader', {'getTestCaseNames': Builtin(lambda it2, self, c: list(names), 'getTestCaseNames'),
                                          '__open__': False})
    it.spec_env['unittest'] = SObj('unittest', {'TestLoader': loader, '__open__': False})


@specfn
def tagged_names(it):
    names, class_tagged, tagged = it.ghost['gtcn']
    return list(names) if class_tagged else [n for n, t in zip(names, tagged) if t]


def _loader_view(it):
    o = SObj('TaggedTestLoader', {'check': it.fresh(T.bool, 'check')}, label='self')
    o.repo_class = extract.load_module('tdda/referencetest/referencetestcase.py').classes['TaggedTestLoader']
    return o


contract(RTC + 'TaggedTestLoader.getTestCaseNames', props=['C19'], params=dict(testCaseClass=None),
         self_view=_loader_view, on_entry=_gtcn_entry, spec_env=dict(ENV, tagged_names=tagged_names),
         ensures=[('all-tests-of-a-tagged-class-otherwise-exactly-the-tagged-methods', 'result == tagged_names()')])


# ---------------------------------------------------------------------------
# referencepytest.tagged (C19, the pytest route): with --tagged exactly the
# tagged tests stay collected (a test is tagged through itself or through its
# class); with --istagged nothing stays and every class / function that has a
# tagged test is printed once; with neither option the collection is untouched.
# Collected items are stubs (0..4 of them, every tagging pattern).
# ---------------------------------------------------------------------------
RPY = 'tdda/referencetest/referencepytest.py::'


def _tg_entry(it, senv):
    n = it.path.choose([True] * 5)
    mode = it.path.choose([True, True, True])          # neither / --tagged / --istagged
    items, spec = [], []
    classes = {}
    for i in range(n):
        shape = it.path.choose([True] * 4)             # plain function, tagged function, method of class A, method of class B
        if shape in (0, 1):
            fobj = SObj('function', {'__module__': 'mod', '__open__': False}, label='f%d' % i)
            if shape == 1:
                fobj.attrs['_tagged'] = True
            tagged, owner = shape == 1, ('mod.f%d' % i)
        else:
            cname = 'A' if shape == 2 else 'B'
            if cname not in classes:
                cls = SObj('type', {'__name__': cname, '__open__': False}, label=cname)
                if cname == 'B':
                    cls.attrs['_tagged'] = True             # class B carries the tag, class A does not
                classes[cname] = cls
            inst = SObj('instance', {'__class__': classes[cname], '__open__': False})
            fobj = SObj('method', {'__self__': inst, '__module__': 'mod', '__open__': False}, label='%s.m%d' % (cname, i))
            mtag = cname == 'A' and it.path.choose([True, True]) == 1
            if mtag:
                fobj.attrs['_tagged'] = True
            tagged, owner = (cname == 'B' or mtag), 'mod.' + cname
        item = SObj('Item', {'obj': fobj, 'name': 'f%d' % i, '__open__': False}, label='item%d' % i)
        items.append(item)
        spec.append((item, tagged, owner))
    opts = {'--tagged': mode == 1, '--istagged': mode == 2}
    config = SObj('Config', {'__open__': False})
    config.methods['getoption'] = Builtin(lambda it2, self, name, default=None: opts.get(name, default), 'getoption')
    printed = []
    it.spec_env['print'] = Builtin(lambda it2, *a, **k: printed.append(a[0]) if a else None, 'print')
    senv['config'], senv['items'] = config, items
    it.path.inputs['items'] = list(items)
    it.ghost['tg'] = (list(items), spec, mode, printed)


@specfn
def collection_is_as_the_options_say(it, items):
    original, spec, mode, printed = it.ghost['tg']
    if mode == 0:
        return list(items) == original and not printed
    if mode == 1:
        return list(items) == [i for i, t, o in spec if t]
    if list(items):
        return False
    owners = []
    for i, t, o in spec:
        if t and o not in owners:
            owners.append(o)
    return [p for p in printed if p is not None] == owners


contract(RPY + 'tagged', props=['C19'], params=OrderedDict([('config', None), ('items', None)]), on_entry=_tg_entry,
         spec_env=dict(ENV, collection_is_as_the_options_say=collection_is_as_the_options_say),
         ensures=[('tagged-run-keeps-exactly-the-tagged-tests-listing-keeps-none-and-names-each-owner-once',
                   'collection_is_as_the_options_say(items)')], max_paths=100000)


# ---------------------------------------------------------------------------
# _resolve_reference_path itself (the assertions use it through the assumed "function of (path, kind)" contract
# above): an absolute path, or any path when no location is configured, is returned as it is; a relative one is
# joined to the location of its kind, or to the default location when the kind has none; with neither, an exception.
# ---------------------------------------------------------------------------

_LOCATION_TABLES = ({}, {None: 'default'}, {None: 'default', 'k': 'kdir'}, {'k': 'kdir'}, {'k': 'kdir', 'j': 'jdir'})


def _resolve_view(it):
    mod = extract.load_module('tdda/referencetest/referencetest.py')
    k = it.path.choose([True] * len(_LOCATION_TABLES))
    table = {key: it.fresh_str('location_of_%s' % (key if key is not None else 'default'))
             for key in _LOCATION_TABLES[k]}
    it.ghost['locations'] = table
    o = SObj('ReferenceTest', {'reference_data_locations': table}, label='self')
    o.repo_class = mod.classes['ReferenceTest']
    return o


def _resolve_entry(it, senv):
    ospath = SObj('module', {'__open__': False}, label='os.path')
    isabs = it.fresh(T.bool, 'path_is_absolute')
    it.ghost['isabs'] = isabs
    ospath.methods['isabs'] = Builtin(lambda it2, self, p: isabs, 'os.path.isabs')

    def join(it2, self, d, p):
        r = it2.fresh_str('joined')
        it2.ghost.setdefault('joins', []).append((d, p, r))
        return r
    ospath.methods['join'] = Builtin(join, 'os.path.join')
    it.spec_env['os'] = SObj('module', {'__open__': False, 'path': ospath}, label='os')


@specfn
def resolved_as_documented(it, path, kind, result):
    table = it.ghost['locations']
    joins = it.ghost.get('joins', [])
    if not table:
        return result is path and not joins
    use = kind if kind in table else None
    if use not in table:
        # only an absolute path comes back (unchanged); for a relative one an exception is the documented outcome
        return SBool(z3.And(it.ghost['isabs'].z, z3.BoolVal(result is path and not joins)))
    joined = (len(joins) == 1 and joins[0][0] is table[use] and joins[0][1] is path and result is joins[0][2])
    return SBool(z3.If(it.ghost['isabs'].z, z3.BoolVal(result is path and not joins), z3.BoolVal(bool(joined))))


@specfn
def no_location_for(it, kind):
    table = it.ghost['locations']
    return bool(table) and kind not in table and None not in table


@specfn
def path_is_absolute(it):
    return it.ghost['isabs']


_rrp_body = Contract(RT + 'ReferenceTest._resolve_reference_path', props=['C10'], name='_resolve_reference_path[body]',
         params=dict(path=T.str, kind=T.union(T.const(None), T.const('k'), T.const('other'))),
         self_view=_resolve_view, on_entry=_resolve_entry,
         spec_env=dict(ENV, resolved_as_documented=resolved_as_documented, no_location_for=no_location_for,
                       path_is_absolute=path_is_absolute),
         result=T.none,
         allow_raise={'Exception': 'no_location_for(kind) and not path_is_absolute()'},
         ensures=[('absolute-or-unconfigured-paths-unchanged-relative-ones-joined-to-the-location-of-their-kind',
                   'resolved_as_documented(path, kind, result)')])
REGISTRY[_rrp_body.ident + '#body'] = _rrp_body
