"""
Sidecar contracts for tdda/rexpy/rexpy.py (C03 / C13 integer lemmas).
"""
import z3
from collections import OrderedDict

from pyvc.contracts import contract, Contract, LoopSpec, REGISTRY
from pyvc.sym import (T, TD, SObj, SBool, SInt, SStr, SText, SList, Sym, Unsupported, num_z)
from pyvc.ops import zbool, values_equal, truth, PyExc
from pyvc.interp import Builtin, specfn
from pyvc import extract
from specs.sym_prims import PRIMS

RX = 'tdda/rexpy/rexpy.py::'
ENV = dict(PRIMS)
INF = 10 ** 9      # stands for "no upper limit" in the integer encoding


def _extractor_view(it):
    rc = extract.load_module('tdda/rexpy/rexpy.py').classes['Extractor']
    cat = SObj('Category', {'re_string': '[A-Z]', '__open__': False})
    cats = SObj('Categories', {'__open__': False})
    cats.methods['__getitem__'] = Builtin(lambda it2, self, k: cat)
    o = SObj('Extractor', {'Cats': cats, 'OutCats': cats,
                           'dialect': it.fresh(T.union(T.none, T.const('portable')), 'dialect')}, label='self')
    o.repo_class = rc
    it.structured_text = True
    return o


def _fragment(it, name):
    m = it.fresh(T.nat, name + '.m')      # run-length minimum: always a number (to_vrles, expand_or_falsify_vrle)
    M = it.fresh(T.union(T.none, T.nat), name + '.M')
    fixed = it.path.choose([True, True]) == 1
    c = 'x' if fixed else 'C'
    return (c, m, M, 'fixed') if fixed else (c, m, M)


@specfn
def rendered_range(it, result, regex_len1):
    """(lo, hi) of the quantifier rendered after the class / literal; hi = INF for no limit."""
    r = result
    if isinstance(r, str):
        parts = [r]
    elif isinstance(r, SText):
        parts = r.parts
    else:
        raise Unsupported('rendered text is not structured: %r' % (r,))
    # strip a capture group
    flat = []
    for p in parts:
        flat.append(p)
    text = [p for p in flat]
    # expected shapes: [regex] | [regex+suffix-string] | [regex, ('fmt', ...)]
    if len(text) == 1 and isinstance(text[0], str):
        s0 = text[0]
        if s0.startswith('(') and s0.endswith(')'):
            s0 = s0[1:-1]
        for base in ('[A-Z]', 'x'):
            if s0 == base:
                return (1, 1)
            if s0 == base + base:
                return (2, 2)
            if s0 == base + '*':
                return (0, INF)
            if s0 == base + '+':
                return (1, INF)
            if s0 == base + '?':
                return (0, 1)
        raise Unsupported('unrecognised rendering %r' % s0)
    fm = [p for p in text if isinstance(p, tuple)]
    if len(fm) == 1:
        _, fmt, args = fm[0]
        if fmt == '{%d}':
            return (args[0], args[0])
        if fmt == '{%d,%s}':
            return (args[0], args[1])
        if fmt == '(%s)':
            inner = args[0]
            return rendered_range.fn(it, inner, regex_len1)
    raise Unsupported('unrecognised rendering %r' % (text,))


@specfn
def covers(it, rng, m, M):
    lo, hi = rng
    mm = 0 if m is None else m
    MM = INF if M is None else M
    zlo, zhi, zm, zM = (num_z(x)[0] for x in (lo, hi, mm, MM))
    return SBool(z3.And(zlo <= zm, zM <= zhi))


@specfn
def exact(it, rng, m, M):
    lo, hi = rng
    mm = 0 if m is None else m
    MM = INF if M is None else M
    zlo, zhi, zm, zM = (num_z(x)[0] for x in (lo, hi, mm, MM))
    return SBool(z3.And(zlo == zm, zM == zhi))


contract(RX + 'Extractor.fragment2re', props=['C03', 'C13'],
         params=dict(fragment=T.custom(_fragment), tagged=T.bool, as_re=T.const(True), output=T.bool),
         self_view=_extractor_view, inline=[RX + 'capture_group'],
         spec_env=dict(ENV, rendered_range=rendered_range, covers=covers, exact=exact),
         requires=[('well-formed-range', 'fragment[1] is None or fragment[2] is None or fragment[1] <= fragment[2]'),
                   ('repeat-counts-below-the-encoding-limit',
                    '(fragment[1] is None or fragment[1] < 1000000) and (fragment[2] is None or fragment[2] < 1000000)')],
         result=T.opaque,
         ensures=[('quantifier-covers-the-run-length-range',
                   'covers(rendered_range(result, True), fragment[1], fragment[2])'),
                  ])


# ---------------------------------------------------------------------------
# C14: PRNGState saves and seeds the global generator iff a seed is given
# ---------------------------------------------------------------------------

def _random_module(it):
    log = it.ghost.setdefault('prng', [])
    m = SObj('random-module', {'__open__': False})
    token = SObj('prng-state', {'__open__': False})
    m.methods['getstate'] = Builtin(lambda it2, self: (log.append(('getstate',)), token)[1])
    m.methods['seed'] = Builtin(lambda it2, self, n=None: log.append(('seed', n)))
    m.methods['setstate'] = Builtin(lambda it2, self, s: log.append(('setstate', s)))
    m.methods['sample'] = Builtin(lambda it2, self, pop, k: (log.append(('sample',)), pop)[1])
    it.ghost['prng_token'] = token
    return m


def _prng_setup(it, senv):
    it.spec_env['random'] = _random_module(it)


@specfn
def prng_log(it):
    return [e[0] for e in it.ghost.get('prng', [])]


@specfn
def seeded_with(it, n):
    ev = [e for e in it.ghost.get('prng', []) if e[0] == 'seed']
    return len(ev) == 1 and ev[0][1] is n


@specfn
def restored_saved_state(it):
    ev = [e for e in it.ghost.get('prng', []) if e[0] == 'setstate']
    return len(ev) == 1 and ev[0][1] is it.ghost.get('prng_token')


def _prng_self(it):
    rc = extract.load_module('tdda/rexpy/rexpy.py').classes['PRNGState']
    o = SObj('PRNGState', {}, label='self')
    o.repo_class = rc
    return o


_PENV = dict(ENV, prng_log=prng_log, seeded_with=seeded_with, restored_saved_state=restored_saved_state)
contract(RX + 'PRNGState.__init__', props=['C14'],
         params=dict(n=T.union(T.none, T.int)), self_view=_prng_self, on_entry=_prng_setup, spec_env=_PENV,
         ensures=[('saves-then-seeds-iff-a-seed-is-given',
                   "prng_log() == (['getstate', 'seed'] if n is not None else [])"),
                  ('seeds-with-the-given-seed', 'n is None or seeded_with(n)')])


def _prng_self_saved(it):
    o = _prng_self(it)
    if it.path.choose([True, True]) == 0:
        o.attrs['saved'] = it.ghost.setdefault('prng_token', SObj('prng-state', {'__open__': False}))
    return o


def _prng_setup_restore(it, senv):
    tok = it.ghost.get('prng_token')
    it.spec_env['random'] = _random_module(it)
    if tok is not None:
        it.ghost['prng_token'] = tok


contract(RX + 'PRNGState.restore', props=['C14'],
         params={}, self_view=_prng_self_saved, on_entry=_prng_setup_restore, spec_env=_PENV,
         ensures=[('restores-the-saved-state-iff-one-was-saved',
                   "(prng_log() == ['setstate'] and restored_saved_state()) if hasattr(self, 'saved') "
                   "else prng_log() == []")])


# ---------------------------------------------------------------------------
# C03: the run-length range helpers only ever widen ranges
# ---------------------------------------------------------------------------

def _vrle_elem(it, name, fixed):
    c = it.fresh(T.enum('C', '.'), name + '.cat')
    m = it.fresh(T.nat, name + '.m')
    M = it.fresh(T.nat, name + '.M')
    it.path.assume(num_z(m)[0] <= num_z(M)[0])
    return (c, m, M, 'fixed') if fixed else (c, m, M)


def _plusify_arg(it, name):
    fixed = it.path.choose([True, True]) == 1
    c = 'C'
    m = it.fresh(T.nat, name + '.m')
    M = it.fresh(T.union(T.none, T.nat), name + '.M')
    if M is not None:
        it.path.assume(num_z(m)[0] <= num_z(M)[0])
    return (c, m, M, 'fixed') if fixed else (c, m, M)


@specfn
def range_covers(it, new, old):
    """new = (cat, m', M'[, fixed]) covers old = (cat, m, M[, fixed]); None = no upper limit."""
    if new[0] != old[0] or len(new) != len(old) or new[3:] != old[3:]:
        return False
    zs = [num_z(new[1])[0] <= num_z(old[1])[0]]
    if new[2] is None:
        pass
    elif old[2] is None:
        return False
    else:
        zs.append(num_z(old[2])[0] <= num_z(new[2])[0])
    return SBool(z3.And(*zs))


@specfn
def max_vrle_range(it):
    return extract.load_module('tdda/rexpy/rexpy.py').resolve('MAX_VRLE_RANGE')


contract(RX + 'plusify_vrle', props=['C03'],
         params=dict(vrle=T.custom(_plusify_arg)),
         spec_env=dict(ENV, range_covers=range_covers, max_vrle_range=max_vrle_range), result=T.opaque,
         ensures=[('covers-the-input-range', 'range_covers(result, vrle)'),
                  ('narrow-ranges-kept-exactly',
                   'vrle[2] is None or (vrle[2] - vrle[1]) > max_vrle_range() or result == vrle')])


def _rle_arg(it, name):
    k = 1 + it.path.choose([True, True])
    out = []
    for i in range(k):
        c = it.fresh(T.enum('C', '.'), '%s%d.cat' % (name, i))
        n = it.fresh(T.nat, '%s%d.n' % (name, i))
        it.path.assume(num_z(n)[0] >= 1)
        out.append((c, n))
    return out


def _vrle_arg(it, name):
    which = it.path.choose([True, True, True, True])
    if which == 0:
        return None
    if which == 1:
        return False
    fixed = it.ghost.get('expand_fixed', False)
    return [_vrle_elem(it, '%s%d' % (name, i), fixed and False) for i in range(which - 1)]


@specfn
def expanded_ok(it, rle, vrle, result, variableLength):
    """Every run of rle lies in the corresponding range of the result, and each result range
    covers the old one (ranges only widen); extra fragments become optional (minimum 0)."""
    if result is False:
        return True
    if vrle is None:
        return (len(result) == len(rle)
                and all(r[0] == o[0] and o[1] is r[1] and o[2] is r[1] for r, o in zip(rle, result)))
    zs = []
    lc = min(len(rle), len(vrle))
    if len(result) != max(len(rle), len(vrle)):
        return False
    for i in range(lc):
        r, v, o = rle[i], vrle[i], result[i]
        if o[0] != r[0] or o[0] != v[0]:
            return False
        zs += [num_z(o[1])[0] <= num_z(r[1])[0], num_z(r[1])[0] <= num_z(o[2])[0],
               num_z(o[1])[0] <= num_z(v[1])[0], num_z(v[2])[0] <= num_z(o[2])[0]]
    for i in range(lc, len(result)):
        o = result[i]
        src = rle[i] if i < len(rle) else vrle[i]
        top = src[1] if i < len(rle) else src[2]
        if o[0] != src[0]:
            return False
        zs += [num_z(o[1])[0] == 0, num_z(top)[0] <= num_z(o[2])[0]]
    return SBool(z3.And(*zs)) if zs else True


@specfn
def falsified_only_when_inconsistent(it, rle, vrle, result, variableLength):
    """False is returned only for a different category sequence (or a different length without
    variable-length fragments), or when a counter-example had already been found."""
    if result is not False:
        return True
    if vrle is False:
        return True
    if vrle is None:
        return False
    lc = min(len(rle), len(vrle))
    cats_differ = any(rle[i][0] != vrle[i][0] for i in range(lc))
    if len(rle) != len(vrle):
        vl = truth(it, variableLength)
        if isinstance(vl, bool):
            return cats_differ or not vl
        return SBool(z3.Or(z3.BoolVal(cats_differ), z3.Not(vl)))
    return cats_differ


contract(RX + 'expand_or_falsify_vrle', props=['C03'],
         params=dict(rle=T.custom(_rle_arg), vrle=T.custom(_vrle_arg), fixed=T.bool,
                     variableLength=T.bool),
         spec_env=dict(ENV, expanded_ok=expanded_ok,
                       falsified_only_when_inconsistent=falsified_only_when_inconsistent),
         result=T.opaque,
         ensures=[('ranges-contain-the-new-runs-and-only-widen', 'expanded_ok(rle, vrle, result, variableLength)'),
                  ('falsified-only-when-inconsistent',
                   'falsified_only_when_inconsistent(rle, vrle, result, variableLength)')])


# ---------------------------------------------------------------------------
# C13: pattern pruning keeps the most frequent patterns and the result lists aligned
# ---------------------------------------------------------------------------

def _freqs(it, name):
    k = it.path.choose([True] * 5)
    out = []
    for i in range(k):
        n = it.fresh(T.nat, '%s%d' % (name, i))
        out.append(n)
    return out


def _pruner_view(it):
    rc = extract.load_module('tdda/rexpy/rexpy.py').classes['Extractor']
    o = SObj('Extractor', {'max_patterns': it.fresh(T.union(T.none, T.const(0), T.const(1), T.const(2), T.const(3)),
                                                   'max_patterns'),
                           'min_strings_per_pattern': it.fresh(T.union(T.const(1), T.const(2), T.nat), 'min_strings')},
             label='self')
    o.repo_class = rc
    return o


@specfn
def pruning_ok(it, selfobj, freqs, result):
    """result = indices to delete.  With max_patterns = M: at most M survive the count rule and no
    deleted pattern is strictly more frequent than a kept one; with min_strings_per_pattern = m > 1
    every pattern with fewer than m strings is deleted; nothing else is deleted."""
    if not isinstance(result, (set, frozenset)):
        return False
    n = len(freqs)
    if not all(isinstance(i, int) and 0 <= i < n for i in result):
        return False
    M = selfobj.attrs['max_patterns']
    m = selfobj.attrs['min_strings_per_pattern']
    zs = []
    fz = [num_z(f)[0] for f in freqs]
    mz = num_z(m)[0]
    low = [z3.And(mz > 1, fz[i] < mz) for i in range(n)]           # deleted by the frequency rule
    by_count = [i for i in result]                                  # candidates deleted by the count rule
    kept = [i for i in range(n) if i not in result]
    # every low-frequency pattern is deleted
    for i in kept:
        zs.append(z3.Not(low[i]))
    if M is None or n <= M:
        # no count rule in force: only low-frequency patterns may be deleted
        for i in result:
            zs.append(low[i])
    else:
        # count rule: a deleted pattern that is not low-frequency is no more frequent than any kept one,
        # and at most M patterns survive
        if len(kept) > M:
            return False
        for i in result:
            for k in kept:
                zs.append(z3.Or(low[i], fz[i] <= fz[k]))
        # exactly the n - M least frequent are removed by the count rule: anything deleted beyond that is low
        if len(result) > n - M:
            extra_low = z3.Sum([z3.If(low[i], 1, 0) for i in result])
            zs.append(extra_low >= len(result) - (n - M))
    return SBool(z3.And(*zs)) if zs else True


contract(RX + 'Extractor.find_bad_patterns', props=['C13'],
         params=dict(freqs=T.custom(_freqs)), self_view=_pruner_view,
         spec_env=dict(ENV, pruning_ok=pruning_ok), result=T.opaque,
         ensures=[('keeps-the-most-frequent-and-drops-the-rare', 'pruning_ok(self, freqs, result)')])


def _summary_view(it):
    rc = extract.load_module('tdda/rexpy/rexpy.py').classes['ResultsSummary']
    n = 3
    rex = [it.fresh_str('rex%d' % i) for i in range(n)]
    vr = [it.fresh_opaque('vrle%d' % i) for i in range(n)]
    rf = [it.fresh_opaque('refrag%d' % i) for i in range(n)]
    o = SObj('ResultsSummary', {'rex': list(rex), 'refined_vrles': list(vr), 'refrags': list(rf),
                                'extractor': SObj('Extractor', {'__open__': False})}, label='self')
    o.repo_class = rc
    it.ghost['orig'] = (rex, vr, rf)
    return o


@specfn
def removed_ok(it, selfobj, indexes):
    rex, vr, rf = it.ghost['orig']
    keep = [i for i in range(len(rex)) if i not in indexes]
    a = selfobj.attrs
    return (len(a['rex']) == len(keep) and all(x is rex[i] for x, i in zip(a['rex'], keep))
            and len(a['refined_vrles']) == len(keep) and all(x is vr[i] for x, i in zip(a['refined_vrles'], keep))
            and len(a['refrags']) == len(keep) and all(x is rf[i] for x, i in zip(a['refrags'], keep)))


import itertools as _it
_INDEX_SETS = [set(c) for r in range(0, 4) for c in _it.combinations(range(3), r)]
contract(RX + 'ResultsSummary.remove', props=['C13'],
         params=dict(indexes=T.enum(*_INDEX_SETS), add_dot_star=T.const(False)), self_view=_summary_view,
         spec_env=dict(ENV, removed_ok=removed_ok), result=T.opaque,
         ensures=[('removes-exactly-those-indexes-from-all-three-lists', 'removed_ok(self, indexes)')])


# ---------------------------------------------------------------------------
# C18: rex_coverage and the Extractor's coverage methods
#
# re.compile / re.match enter as A-re: matches(pattern text, flags, string) is an
# uninterpreted predicate.  The example store is two symbolic lists of any
# length (strings, frequencies); the pattern list has an enumerated length
# 0..3 (the loop over patterns carries no state but the result list).
# ---------------------------------------------------------------------------
from pyvc.ops import strz
from pyvc.sym import StrS

_MATCHES = z3.Function('re_match', StrS, z3.IntSort(), StrS, z3.BoolSort())
_RE_UNICODE, _RE_DOTALL = 32, 16


def _flatten_text(it, v):
    """A structured text made of '%s' slots and concatenation, as one string value ('' parts vanish)."""
    from pyvc.sym import str_cat
    if not isinstance(v, SText):
        return v
    parts = []
    for p in v.parts:
        if isinstance(p, tuple) and p and p[0] == 'fmt':
            fmt, args = p[1], p[2]
            if fmt.replace('%s', '') != '' or fmt.count('%s') != len(args):
                raise Unsupported('format %r in a pattern' % fmt)
            parts.extend(args)
        else:
            parts.append(p)
    parts = [x for x in parts if not (isinstance(x, str) and x == '')]
    if not parts:
        return ''
    if not all(isinstance(x, (str, SStr)) for x in parts):
        raise Unsupported('non-string part in a pattern')
    r = parts[0]
    for x in parts[1:]:
        r = SStr(str_cat(strz(it, r), strz(it, x)))
    return r


def _re_module(it):
    def compile_(it2, pattern, flags=0):
        return SObj('regex', {'pattern': _flatten_text(it2, pattern), 'flags': flags, '__open__': False})

    def match(it2, r, s, flags=0):
        if isinstance(r, SObj) and r.cls == 'regex':
            pat, fl = r.attrs['pattern'], r.attrs['flags']
        else:
            pat, fl = r, flags
        flz = fl.z if isinstance(fl, SInt) else z3.IntVal(int(fl))
        return SBool(_MATCHES(strz(it2, pat), flz, strz(it2, s)))

    def unsupported(name):
        def f(it2, *a, **k):
            raise Unsupported('re.%s in a coverage function' % name)
        return Builtin(f, 're.' + name)
    return SObj('re-module', {'compile': Builtin(compile_, 're.compile'), 'match': Builtin(match, 're.match'),
                              'search': unsupported('search'), 'fullmatch': unsupported('fullmatch'),
                              'UNICODE': _RE_UNICODE, 'DOTALL': _RE_DOTALL, 'U': _RE_UNICODE, 'S': _RE_DOTALL,
                              '__open__': False})


def _examples_view(it, name):
    strings = it.fresh(T.list(T.str), 'example_strings')
    freqs = it.fresh(T.list(T.nat), 'example_freqs')
    it.path.assume(strings.n == freqs.n)
    return SObj('Examples', {'strings': strings, 'freqs': freqs, 'n_uniqs': SInt(strings.n),
                             '__open__': False}, label=name)


def _patterns(it, name):
    k = it.path.choose([True] * 4)
    out = []
    for i in range(k):
        p = it.fresh_str('pattern%d' % i)
        out.append(p)
    return out


def _cov_entry(it, senv):
    it.spec_env['re'] = _re_module(it)
    it.spec_env['RE_FLAGS'] = _RE_UNICODE | _RE_DOTALL
    it.structured_text = True


@specfn
def true_match_count(it, pattern, examples, dedup):
    """Number of examples (repeats counted unless dedup) that re.match(compile(pattern, UNICODE|DOTALL), .) accepts."""
    from pyvc.builtins import sum_symbolic
    strings, freqs = examples.attrs['strings'], examples.attrs['freqs']
    pz = strz(it, pattern)
    fl = z3.IntVal(_RE_UNICODE | _RE_DOTALL)

    def term(i):
        w = z3.IntVal(1) if dedup is True else freqs.get(i).z
        return SInt(z3.If(_MATCHES(pz, fl, strz(it, strings.get(i))), w, 0))
    return sum_symbolic(it, SList(strings.n, term, T.int, 'list'))


@specfn
def anchored(it, patterns):
    from pyvc.sym import str_startswith, str_endswith
    conj = []
    for p in patterns:
        pz = strz(it, p)
        conj.append(str_startswith(pz, it.strlit('^')))
        conj.append(str_endswith(pz, it.strlit('$')))
    return SBool(z3.And(*conj)) if conj else True


contract(RX + 'rex_coverage', props=['C18'],
         params=dict(patterns=T.custom(_patterns), examples=T.custom(_examples_view), dedup=T.union(T.const(False), T.const(True))),
         on_entry=_cov_entry, spec_env=dict(ENV, true_match_count=true_match_count, anchored=anchored),
         requires=[('expressions-are-anchored', 'anchored(patterns)')],
         ensures=[('one-figure-per-expression', 'len(result) == len(patterns)'),
                  ('each-figure-is-the-true-match-count',
                   'all(result[i] == true_match_count(patterns[i], examples, dedup) for i in range(len(patterns)))')])


# -- the example store and the Extractor's reporting methods (C18) --------------------------------------

def _examples_self(it):
    o = _examples_view(it, 'self')
    o.attrs['__open__'] = True
    o.repo_class = extract.load_module('tdda/rexpy/rexpy.py').classes['Examples']
    return o


@specfn
def total_frequency(it, freqs):
    from pyvc.builtins import sum_symbolic
    return sum_symbolic(it, freqs)


contract(RX + 'Examples.update', props=['C18'], params={}, self_view=_examples_self,
         spec_env=dict(ENV, total_frequency=total_frequency),
         ensures=[('distinct-count-is-the-number-of-stored-strings', 'self.n_uniqs == len(self.strings)'),
                  ('example-count-is-the-sum-of-the-stored-frequencies', 'self.n_strings == total_frequency(self.freqs)')])


def _reporting_extractor(it):
    rc = extract.load_module('tdda/rexpy/rexpy.py').classes['Extractor']
    ex = _examples_view(it, 'examples')
    ex.attrs['n_strings'] = it.fresh(T.nat, 'n_strings')
    ex.attrs['n_uniqs'] = it.fresh(T.nat, 'n_uniqs')
    results = SObj('ResultsSummary', {'rex': it.fresh(T.list(T.str), 'rex'), '__open__': False})
    o = SObj('Extractor', {'examples': ex, 'results': results, 'all_examples': _examples_view(it, 'all_examples')},
             label='self')
    o.repo_class = rc
    return o


def _record_call(name):
    def eff(it, env):
        it.ghost.setdefault('reporting_calls', []).append((name, dict(env)))
        r = it.fresh_opaque(name + '_result')
        it.ghost['reporting_result'] = r
        return r
    return eff


for _n, _ps in (('rex_coverage', ['patterns', 'examples', 'dedup']),
                ('rex_incremental_coverage', ['patterns', 'examples', 'sort_on_deduped', 'debug']),
                ('rex_full_incremental_coverage', ['patterns', 'examples', 'sort_on_deduped', 'debug'])):
    _c = Contract(RX + _n, params={p: None for p in _ps}, effects=_record_call(_n), result=T.none, assumed=True,
                  name=_n + '(callee)', trusted_note='callee of the Extractor reporting methods: its own contract / bounded checks decide it')
    _c.defaults = {'dedup': False, 'sort_on_deduped': False, 'debug': False}
    REGISTRY[RX + _n + '#callee'] = _c


@specfn
def delegated(it, fn, self, flag, result):
    calls = it.ghost.get('reporting_calls', [])
    if len(calls) != 1:
        return False
    name, env = calls[0]
    flagname = 'dedup' if fn == 'rex_coverage' else 'sort_on_deduped'
    return (name == fn and env['patterns'] is self.attrs['results'].attrs['rex']
            and env['examples'] is self.attrs['examples'] and env[flagname] is flag
            and result is it.ghost.get('reporting_result'))


class _ReportingContract(Contract):
    def verify(self, registry=None, quick=False):
        reg = dict(REGISTRY if registry is None else registry)
        for n in ('rex_coverage', 'rex_incremental_coverage', 'rex_full_incremental_coverage'):
            reg[RX + n] = REGISTRY[RX + n + '#callee']
        return Contract.verify(self, reg, quick)


for _m, _fn in (('coverage', 'rex_coverage'), ('incremental_coverage', 'rex_incremental_coverage'),
                ('full_incremental_coverage', 'rex_full_incremental_coverage')):
    _params = OrderedDict([('dedup', T.union(T.const(False), T.const(True)))])
    if _m != 'coverage':
        _params['debug'] = T.const(False)
    _c = _ReportingContract(RX + 'Extractor.' + _m, props=['C18'], params=_params, self_view=_reporting_extractor,
                            spec_env=dict(ENV, delegated=delegated),
                            ensures=[('figures-are-computed-over-the-result-expressions-and-the-stored-examples',
                                      'delegated(%r, self, dedup, result)' % _fn)])
    REGISTRY[_c.ident] = _c

contract(RX + 'Extractor.n_examples', props=['C18'], params=dict(dedup=T.union(T.const(False), T.const(True))),
         self_view=_reporting_extractor, spec_env=ENV,
         ensures=[('number-of-examples-stored', 'result == (self.examples.n_uniqs if dedup else self.examples.n_strings)')])


# ---------------------------------------------------------------------------
# C14: Extractor.extract brackets everything it does between PRNGState(seed)
# and restore(), however it ends (normal return, early return, exception in
# any callee), and draws from the global generator only inside the bracket.
#
# The callees (batch_extract, check_fn, clean, add_warnings, find_bad_patterns,
# results.remove, convert_rex_to_dialect, examples.update, random.sample) are
# abstracted: each may return an arbitrary value or raise.  PRNGState itself is
# replaced by a ghost that counts save / restore events; its own behaviour is
# proved separately (PRNGState.__init__ / restore above).
# ---------------------------------------------------------------------------

def _prng(it):
    return it.ghost.setdefault('prng', {'saved': 0, 'restored': 0, 'outside': False, 'seed': Ellipsis})


def _may_raise(it, name):
    if it.path.choose([True, True]) == 1:
        raise PyExc('CalleeError', 'exception in ' + name)


def _extract_self(it):
    rc = extract.load_module('tdda/rexpy/rexpy.py').classes['Extractor']

    def liststub(name):
        member = z3.Function('member_of_' + name.replace('.', '_'), StrS, z3.BoolSort())
        from pyvc.sym import SSet
        o = SObj('list', {'__open__': False,
                          '__as_set__': SSet(lambda x: member(strz(it, x)), None, T.str)}, label=name)
        o.methods['extend'] = Builtin(lambda it2, self, other: None, 'list.extend')
        return o

    def examples_obj(it2, name, n_uniqs=None):
        strings = it2.fresh(T.list(T.str), name + '.strings')
        freqs = it2.fresh(T.list(T.nat), name + '.freqs')
        return SObj('Examples', {'strings': strings, 'freqs': freqs, '__open__': False}, label=name)

    ex = SObj('Examples', {'strings': liststub('examples.strings'), 'freqs': liststub('examples.freqs'),
                           'n_uniqs': it.fresh(T.nat, 'n_uniqs'), '__open__': False}, label='examples')

    def update(it2, self):
        _may_raise(it2, 'examples.update')
        return None
    ex.methods['update'] = Builtin(update, 'Examples.update')
    results = SObj('ResultsSummary', {'rex': it.fresh(T.list(T.str), 'rex'), '__open__': False}, label='results')

    def remove(it2, self, idx):
        _may_raise(it2, 'results.remove')
        return None
    results.methods['remove'] = Builtin(remove, 'ResultsSummary.remove')
    it.ghost['results_stub'] = results
    size = SObj('Size', {'max_sampled_attempts': it.fresh(T.nat, 'max_sampled_attempts'),
                         'do_all_exceptions': it.fresh(T.nat, 'do_all_exceptions'), '__open__': False})

    def check_fn(it2, rexes, maxN):
        _may_raise(it2, 'check_fn')
        f = examples_obj(it2, 'failures')
        it2.ghost['last_failures'] = f
        return (f, it2.fresh_opaque('re_freqs'))
    o = SObj('Extractor', {'seed': it.fresh(T.union(T.none, T.int), 'seed'), 'size': size, 'examples': ex,
                           'verbose': False, 'results': None, 'check_fn': Builtin(check_fn, 'check_fn')},
             label='self')
    o.repo_class = rc

    def method(name, ret):
        def m(it2, self, *a):
            _may_raise(it2, name)
            return ret(it2)
        o.methods[name] = Builtin(m, 'Extractor.' + name)
    method('batch_extract', lambda it2: results)
    def clean(it2, self, examples):
        # (C18) the unmatched examples go back into the working set with the counts check_fn reported for them:
        # what is cleaned is the Examples object itself, not a bare list of its strings
        it2.path.oblige('Extractor.extract.post.unmatched-examples-are-merged-with-their-counts',
                        z3.BoolVal(examples is it2.ghost.get('last_failures')))
        _may_raise(it2, 'clean')
        return examples_obj(it2, 'cleaned')
    o.methods['clean'] = Builtin(clean, 'Extractor.clean')
    method('add_warnings', lambda it2: None)
    method('find_bad_patterns', lambda it2: it2.fresh_opaque('bad_patterns'))
    method('convert_rex_to_dialect', lambda it2: None)
    return o


def _extract_entry(it, senv):
    g = _prng(it)

    def ctor(it2, seed=None):
        g['saved'] += 1
        g['seed'] = seed
        if g['restored']:
            g['outside'] = True
        st = SObj('PRNGState', {'__open__': False})

        def restore(it3, self):
            if g['saved'] != 1:
                g['outside'] = True
            g['restored'] += 1
            return None
        st.methods['restore'] = Builtin(restore, 'PRNGState.restore')
        return st
    it.spec_env['PRNGState'] = Builtin(ctor, 'PRNGState')

    def sample(it2, population, k):
        if not (g['saved'] == 1 and g['restored'] == 0):
            g['outside'] = True
        g['draws'] = g.get('draws', 0) + 1
        _may_raise(it2, 'random.sample')
        return it2.fresh(T.list(T.opaque), 'sampled') if False else population
    it.spec_env['random'] = SObj('random-module', {'sample': Builtin(sample, 'random.sample'), '__open__': False})


@specfn
def prng_bracket_open(it):
    g = _prng(it)
    return g['saved'] == 1 and g['restored'] == 0 and not g['outside']


@specfn
def prng_bracket_closed(it, self):
    g = _prng(it)
    return g['saved'] == 1 and g['restored'] == 1 and not g['outside'] and g['seed'] is self.attrs['seed']


contract(RX + 'Extractor.extract', props=['C14', 'C18'], params={}, self_view=_extract_self, on_entry=_extract_entry,
         spec_env=dict(ENV, prng_bracket_open=prng_bracket_open, prng_bracket_closed=prng_bracket_closed),
         allow_raise={'CalleeError': 'True'},
         loops={1: LoopSpec([('generator-state-saved-and-not-yet-restored', 'prng_bracket_open()'),
                             ('attempt-positive', 'attempt >= 1')],
                            havoc={'attempt': T.int, 're_freqs': T.opaque, 'maxN': 'unbound', 'failex': 'unbound',
                                   'z': 'unbound', 'sampled': 'unbound', 'strings': 'unbound',
                                   'self.examples': 'keep',
                                   'self.results': T.custom(lambda it, name: it.ghost['results_stub'])})},
         always=[('global-generator-saved-once-restored-once-and-used-only-in-between', 'prng_bracket_closed(self)')])


# ---------------------------------------------------------------------------
# Extractor.clean (C18 / C03 / C13): the stored examples are exactly the kept
# examples - not null, count not 0, not an empty string when empties are
# removed - after optional stripping, each with the total of its counts; the
# null / empty / stripped tallies are the totals of the corresponding counts.
# Inputs: a list, a frequency dictionary or an Examples object of 0..3 entries
# with symbolic strings and counts; str.strip is an uninterpreted function.
# ---------------------------------------------------------------------------
from pyvc.sym import SymKeyDict, slen

_STRIP = z3.Function('str.strip', StrS, StrS)


def _clean_items(it, senv):
    k = it.path.choose([True] * 4)                   # 0..3 entries
    form = ('list', 'dict', 'examples')[it.path.choose([True] * 3)]
    strings, counts = [], []
    for i in range(k):
        isnull = form != 'examples' and it.path.choose([True, True]) == 1
        strings.append(None if isnull else it.fresh_str('example%d' % i))
        counts.append(1 if form == 'list' else it.fresh(T.nat, 'count%d' % i))
    if form != 'list':
        # dictionary keys / stored examples are pairwise different
        for a in range(k):
            for b in range(a + 1, k):
                if strings[a] is not None and strings[b] is not None:
                    it.path.assume(strings[a].z != strings[b].z)
                elif strings[a] is None and strings[b] is None:
                    it.path.assume(z3.BoolVal(False))
    if form == 'list':
        ex = list(strings)
    elif form == 'dict':
        ex = OrderedDict(zip(strings, counts))
    else:
        ex = SObj('Examples', {'strings': list(strings), 'freqs': list(counts), '__open__': False}, label='examples')
        ex.repo_class = extract.load_module('tdda/rexpy/rexpy.py').classes['Examples']
    senv['examples'] = ex
    it.path.inputs['examples'] = ex
    it.ghost['clean_in'] = (strings, counts)

    def counter(it2):
        d = SymKeyDict()
        d.default = 0
        return d
    it.spec_env['Counter'] = Builtin(counter, 'Counter')
    it.spec_env['ilist'] = Builtin(lambda it2, L=None: list(L or []), 'ilist')


def _clean_self(it):
    o = SObj('Extractor', {'strip': it.fresh(T.bool, 'strip'), 'remove_empties': it.fresh(T.bool, 'remove_empties'),
                           'verbose': 0, 'n_nulls': it.fresh(T.nat, 'n_nulls0'), 'n_empties': it.fresh(T.nat, 'n_empties0'),
                           'n_stripped': it.fresh(T.nat, 'n_stripped0')}, label='self')
    o.repo_class = extract.load_module('tdda/rexpy/rexpy.py').classes['Extractor']
    it.ghost['clean_old'] = {k: o.attrs[k] for k in ('n_nulls', 'n_empties', 'n_stripped')}
    return o


def _clean_terms(it, self):
    """Per input entry: (is kept, stored form, count, strips something, is null, is dropped empty)."""
    strings, counts = it.ghost['clean_in']
    strip = self.attrs['strip']
    rem = self.attrs['remove_empties']
    sz = strip.z if isinstance(strip, SBool) else z3.BoolVal(bool(strip))
    rz = rem.z if isinstance(rem, SBool) else z3.BoolVal(bool(rem))
    out = []
    for s, n in zip(strings, counts):
        nz = n.z if isinstance(n, SInt) else z3.IntVal(n)
        if s is None:
            out.append(dict(kept=z3.BoolVal(False), form=None, n=nz, null=True))
            continue
        form = z3.If(sz, _STRIP(s.z), s.z)
        empty = slen(form) == 0
        kept = z3.And(nz != 0, z3.Not(z3.And(rz, empty)))
        out.append(dict(kept=kept, form=form, n=nz, null=False, dropped_empty=z3.And(nz != 0, rz, empty),
                        stripped=z3.And(kept, slen(form) != slen(s.z))))
    return out


@specfn
def stored_examples_are_the_kept_ones(it, self, result):
    terms = _clean_terms(it, self)
    strings, freqs = result.attrs['strings'], result.attrs['freqs']
    if isinstance(strings, SList) or isinstance(freqs, SList):
        raise Unsupported('symbolic result list')
    if len(strings) != len(freqs):
        return False
    conj = []
    keys = [strz(it, k) for k in strings]
    fz = [f.z if isinstance(f, SInt) else z3.IntVal(int(f)) for f in freqs]
    # stored strings pairwise different
    for a in range(len(keys)):
        for b in range(a + 1, len(keys)):
            conj.append(keys[a] != keys[b])
    live = [t for t in terms if not t['null']]
    # every kept entry is stored, with the total count of the kept entries of the same stored form
    for t in live:
        total = z3.Sum([z3.If(z3.And(u['kept'], u['form'] == t['form']), u['n'], 0) for u in live])
        conj.append(z3.Implies(t['kept'], z3.Or(*[z3.And(k == t['form'], f == total) for k, f in zip(keys, fz)])
                               if keys else z3.BoolVal(False)))
    # nothing else is stored
    for k in keys:
        conj.append(z3.Or(*[z3.And(t['kept'], t['form'] == k) for t in live]) if live else z3.BoolVal(False))
    return SBool(z3.And(*conj)) if conj else True


@specfn
def tallies_are_the_totals(it, self):
    terms = _clean_terms(it, self)
    old = it.ghost['clean_old']
    nulls = z3.Sum([t['n'] for t in terms if t['null']] + [z3.IntVal(0)])
    empties = z3.Sum([z3.If(t['dropped_empty'], t['n'], 0) for t in terms if not t['null']] + [z3.IntVal(0)])
    stripped = z3.Sum([z3.If(t['stripped'], t['n'], 0) for t in terms if not t['null']] + [z3.IntVal(0)])

    def z(v):
        return v.z if isinstance(v, SInt) else z3.IntVal(int(v))
    return SBool(z3.And(z(self.attrs['n_nulls']) == z(old['n_nulls']) + nulls,
                        z(self.attrs['n_empties']) == z(old['n_empties']) + empties,
                        z(self.attrs['n_stripped']) == z(old['n_stripped']) + stripped))


@specfn
def pairwise_different(it, strings):
    if isinstance(strings, SList):
        raise Unsupported('symbolic list of strings')
    ks = [strz(it, k) for k in strings]
    conj = [ks[a] != ks[b] for a in range(len(ks)) for b in range(a + 1, len(ks))]
    return SBool(z3.And(*conj)) if conj else True


def _examples_ctor(it, env):
    o = SObj('Examples', {'strings': env['strings'], 'freqs': env['freqs'], '__open__': False})
    o.repo_class = extract.load_module('tdda/rexpy/rexpy.py').classes['Examples']
    return o


class _CleanContract(Contract):
    def verify(self, registry=None, quick=False):
        reg = dict(REGISTRY if registry is None else registry)
        c = Contract(RX + 'Examples', params=dict(strings=None, freqs=None), effects=_examples_ctor, result=T.none,
                     assumed=True, name='Examples(...)', spec_env=dict(ENV, pairwise_different=pairwise_different),
                     requires=[('strings-pairwise-different', 'pairwise_different(strings)')],
                     trusted_note='Examples.__init__ stores the two lists (its assert is the precondition checked at the call site); '
                                  'update() is proved separately')
        c.defaults = {'freqs': None}
        reg[RX + 'Examples'] = c
        return Contract.verify(self, reg, quick)


_cc = _CleanContract(RX + 'Extractor.clean', props=['C18', 'C03', 'C13'], params=dict(examples=None), self_view=_clean_self,
         on_entry=_clean_items,
         spec_env=dict(ENV, stored_examples_are_the_kept_ones=stored_examples_are_the_kept_ones,
                       tallies_are_the_totals=tallies_are_the_totals),
         ensures=[('stored-examples-are-exactly-the-kept-ones-with-their-total-counts',
                   'stored_examples_are_the_kept_ones(self, result)'),
                  ('null-empty-and-stripped-tallies-are-the-totals', 'tallies_are_the_totals(self)')],
         max_paths=200000)
REGISTRY[_cc.ident] = _cc


# ---------------------------------------------------------------------------
# matrices2incremental_coverage (C18): the greedy crediting loop, for every
# match matrix of up to 3 expressions x 3 examples (quick tier: 3 x 2 and 2 x 3) with SYMBOLIC frequencies
# (>= 1) and symbolic match bits.  The loop runs at most one pass per
# expression, so it is unrolled; all comparisons fork.
# ---------------------------------------------------------------------------

def _mic_entry(it, senv):
    import os
    thorough = os.environ.get('VERIF_TIER', 'quick') != 'quick'
    np_ = 1 + it.path.choose([True] * 3)
    ne = it.path.choose([True] * (4 if (thorough or np_ < 3) else 3))      # quick: up to 3 x 2 and 2 x 3; thorough: 3 x 3
    freqs = []
    for i in range(ne):
        f = it.fresh(T.nat, 'freq%d' % i)
        it.path.assume(f.z >= 1)
        freqs.append(f)
    m = [[z3.Bool(it.path.fresh_name('match_%d_%d' % (i, r))) for r in range(np_)] for i in range(ne)]
    from pyvc.ops import simp_val
    senv['patterns'] = ['^p%d$' % r for r in range(np_)]
    senv['matrix'] = [[SInt(z3.If(m[i][r], freqs[i].z, 0)) for r in range(np_)] for i in range(ne)]
    senv['deduped'] = [[SInt(z3.If(m[i][r], 1, 0)) for r in range(np_)] for i in range(ne)]
    senv['indexes'] = list(range(np_))
    senv['examples'] = SObj('Examples', {'strings': ['e%d' % i for i in range(ne)], 'freqs': list(freqs),
                                         'n_uniqs': ne, '__open__': False}, label='examples')
    it.ghost['mic'] = dict(np=np_, ne=ne, freqs=freqs, m=m)
    for k in ('patterns', 'matrix', 'deduped', 'indexes', 'examples'):
        it.path.inputs[k] = senv[k]
    it.spec_env['Coverage'] = Builtin(lambda it2, n=None, n_uniq=None, incr=None, incr_uniq=None, index=None:
                                      SObj('Coverage', {'n': n, 'n_uniq': n_uniq, 'incr': incr, 'incr_uniq': incr_uniq,
                                                        'index': index, '__open__': False}), 'Coverage')


def _z(v):
    if isinstance(v, SInt):
        return v.z
    if isinstance(v, bool):
        return z3.IntVal(int(v))
    return z3.IntVal(int(v))


@specfn
def incremental_coverage_ok(it, result, sort_on_deduped):
    g = it.ghost['mic']
    np_, ne, freqs, m = g['np'], g['ne'], g['freqs'], g['m']
    if not isinstance(result, (dict, OrderedDict)):
        raise Unsupported('result is not a dictionary')
    keys = list(result.keys())
    conj = []
    # no expression is listed twice (one that explains nothing new may be left out: the counts below cover that)
    conj.append(z3.BoolVal(len(set(keys)) == len(keys) and all(k in ['^p%d$' % r for r in range(np_)] for k in keys)))
    vals = [result[k] for k in keys]
    incr = [_z(v.attrs['incr']) for v in vals]
    incr_u = [_z(v.attrs['incr_uniq']) for v in vals]
    order = incr_u if sort_on_deduped is True else incr
    # non-increasing in the order requested
    for a, b in zip(order, order[1:]):
        conj.append(a >= b)
    # the counts sum to the number of examples matched by some expression (all of them, when each is matched)
    matched = [z3.Or(*m[i]) if np_ else z3.BoolVal(False) for i in range(ne)]
    conj.append(z3.Sum(incr + [z3.IntVal(0)]) == z3.Sum([z3.If(matched[i], freqs[i].z, 0) for i in range(ne)] + [z3.IntVal(0)]))
    conj.append(z3.Sum(incr_u + [z3.IntVal(0)]) == z3.Sum([z3.If(matched[i], 1, 0) for i in range(ne)] + [z3.IntVal(0)]))
    # each example is credited to exactly one expression: the first listed expression that matches it
    for pos, k in enumerate(keys):
        r = int(k[2:-1])
        earlier = [int(x[2:-1]) for x in keys[:pos]]
        credit = [z3.And(m[i][r], *[z3.Not(m[i][q]) for q in earlier]) for i in range(ne)]
        conj.append(incr[pos] == z3.Sum([z3.If(credit[i], freqs[i].z, 0) for i in range(ne)] + [z3.IntVal(0)]))
        conj.append(incr_u[pos] == z3.Sum([z3.If(credit[i], 1, 0) for i in range(ne)] + [z3.IntVal(0)]))
        # n / n_uniq are the expression's own totals
        conj.append(_z(vals[pos].attrs['n']) == z3.Sum([z3.If(m[i][r], freqs[i].z, 0) for i in range(ne)] + [z3.IntVal(0)]))
        conj.append(_z(vals[pos].attrs['n_uniq']) == z3.Sum([z3.If(m[i][r], 1, 0) for i in range(ne)] + [z3.IntVal(0)]))
    return SBool(z3.And(*conj))


@specfn
def none_earlier(it, totals, p, target):
    pz, tz = _z(p), _z(target)
    return SBool(z3.And(*[z3.Implies(z3.IntVal(q) < pz, _z(t) < tz) for q, t in enumerate(totals)]))


contract(RX + 'matrices2incremental_coverage', props=['C18'],
         params=OrderedDict([('patterns', None), ('matrix', None), ('deduped', None), ('indexes', None), ('examples', None),
                             ('sort_on_deduped', T.union(T.const(False), T.const(True)))]),
         on_entry=_mic_entry, spec_env=dict(ENV, incremental_coverage_ok=incremental_coverage_ok, none_earlier=none_earlier),
         loops={2: LoopSpec([('cursor-in-range', '0 <= p and p < np'),
                             ('no-earlier-expression-reaches-the-target', 'none_earlier(sort_totals, p, target)')],
                            havoc={'p': T.int})},
         ensures=[('greedy-crediting-is-exact', 'incremental_coverage_ok(result, sort_on_deduped)')],
         max_paths=400000).max_unroll = 4          # one pass per expression (<= 3), plus the pass that finds nothing left


# -- coverage_matrices and the incremental wrapper (C18) --------------------------------------------------

def _cm_entry(it, senv):
    _cov_entry(it, senv)
    np_ = it.path.choose([True] * 3)
    ne = it.path.choose([True] * 3)
    pats = [it.fresh_str('pattern%d' % r) for r in range(np_)]
    strings = [it.fresh_str('example%d' % i) for i in range(ne)]
    freqs = [it.fresh(T.nat, 'freq%d' % i) for i in range(ne)]
    senv['patterns'] = pats
    senv['examples'] = SObj('Examples', {'strings': strings, 'freqs': freqs, '__open__': False}, label='examples')
    it.path.inputs['patterns'], it.path.inputs['examples'] = pats, senv['examples']
    it.ghost['cm'] = (pats, strings, freqs)


@specfn
def matrices_ok(it, result):
    pats, strings, freqs = it.ghost['cm']
    matrix, deduped = result
    fl = z3.IntVal(_RE_UNICODE | _RE_DOTALL)
    if len(matrix) != len(strings) or len(deduped) != len(strings):
        return False
    conj = []
    for i, s in enumerate(strings):
        if len(matrix[i]) != len(pats) or len(deduped[i]) != len(pats):
            return False
        for r, p in enumerate(pats):
            mt = _MATCHES(strz(it, p), fl, strz(it, s))
            conj.append(_z(matrix[i][r]) == z3.If(mt, freqs[i].z, 0))
            conj.append(_z(deduped[i][r]) == z3.If(z3.And(mt, freqs[i].z != 0), 1, 0))
    return SBool(z3.And(*conj)) if conj else True


contract(RX + 'coverage_matrices', props=['C18'], params=OrderedDict([('patterns', None), ('examples', None)]),
         on_entry=_cm_entry, spec_env=dict(ENV, matrices_ok=matrices_ok),
         ensures=[('one-row-per-example-holding-its-frequency-where-the-expression-matches', 'matrices_ok(result)')])


def _full_cov(it, env):
    keys = ['^p0$', '^p1$']
    d = OrderedDict()
    for k in keys:
        d[k] = SObj('Coverage', {'n': it.fresh(T.nat, 'n'), 'n_uniq': it.fresh(T.nat, 'n_uniq'),
                                 'incr': it.fresh(T.nat, 'incr'), 'incr_uniq': it.fresh(T.nat, 'incr_uniq'),
                                 'index': 0, '__open__': False})
    it.ghost['full_cov'] = (d, dict(env))
    return d


@specfn
def picks_the_requested_counts(it, result, patterns, examples, sort_on_deduped):
    d, env = it.ghost['full_cov']
    if list(result.keys()) != list(d.keys()):
        return False
    if not (env['patterns'] is patterns and env['examples'] is examples and env['sort_on_deduped'] is sort_on_deduped):
        return False
    field = 'incr_uniq' if sort_on_deduped is True else 'incr'
    return SBool(z3.And(*[_z(result[k]) == _z(d[k].attrs[field]) for k in d]))


class _IncrWrapper(Contract):
    def verify(self, registry=None, quick=False):
        reg = dict(REGISTRY if registry is None else registry)
        c = Contract(RX + 'rex_full_incremental_coverage',
                     params=dict(patterns=None, examples=None, sort_on_deduped=None, debug=None), effects=_full_cov,
                     result=T.none, assumed=True, name='rex_full_incremental_coverage(callee)')
        c.defaults = {'sort_on_deduped': False, 'debug': False}
        reg[RX + 'rex_full_incremental_coverage'] = c
        return Contract.verify(self, reg, quick)


_iw = _IncrWrapper(RX + 'rex_incremental_coverage', props=['C18'],
                   params=OrderedDict([('patterns', T.opaque), ('examples', T.opaque),
                                       ('sort_on_deduped', T.union(T.const(False), T.const(True))), ('debug', T.const(False))]),
                   spec_env=dict(ENV, picks_the_requested_counts=picks_the_requested_counts),
                   ensures=[('newly-explained-counts-with-or-without-repeats-as-requested',
                             'picks_the_requested_counts(result, patterns, examples, sort_on_deduped)')])
REGISTRY[_iw.ident] = _iw

REGISTRY[RX + 'Extractor.extract'].abstraction = 'callees (batch_extract, check_fn, clean, add_warnings, find_bad_patterns, results.remove, convert_rex_to_dialect, examples.update, random.sample) are stubs that return anything or raise; PRNGState is a ghost counting save/restore; the sampling loop is cut at an invariant'

REGISTRY[RX + 'Extractor.clean'].abstraction = 'inputs of 0..3 entries (list / dict / Examples) with symbolic strings and counts; str.strip is an uninterpreted function; collections.Counter is a symbolic-key dictionary with default 0'

REGISTRY[RX + 'matrices2incremental_coverage'].abstraction = 'match matrices of <= 3 expressions x 3 examples (quick: 3x2 / 2x3) with symbolic frequencies >= 1 and symbolic match bits; Coverage is a record stub'

REGISTRY[RX + 'rex_coverage'].abstraction = 'expression lists of length 0..3; re.compile / re.match are an uninterpreted predicate of (pattern text, flags, string); sums over the example lists are shared partial-sum functions'


# -- sampling keeps every string with its own frequency (C14 / C18) ------------------------------------
# Extractor.sample_examples / Extractor.sample.  random.sample is an assumed contract: k positions of the population,
# pairwise different (Skolem function sample_pos); its choice is otherwise arbitrary, so the postcondition holds for
# every draw of the generator.

def _sampler_self(it):
    rc = extract.load_module('tdda/rexpy/rexpy.py').classes['Extractor']
    o = SObj('Extractor', {'all_examples': _examples_view(it, 'all_examples'), 'examples': _examples_view(it, 'examples'),
                           '__open__': False}, label='self')
    o.repo_class = rc
    return o


def _sample_result(it, name):
    return (it.fresh(T.list(T.str), name + '_strings'), it.fresh(T.list(T.nat), name + '_freqs'))


def _sampler_entry(it, senv):
    pos = z3.Function(it.path.fresh_name('sample_pos'), z3.IntSort(), z3.IntSort())
    it.ghost['sample_pos'] = pos
    it.ghost['sample_calls'] = 0

    def sample(it2, population, k):
        if not isinstance(population, SList):
            raise Unsupported('random.sample over a non-symbolic population')
        it2.ghost['sample_calls'] += 1
        if it2.ghost['sample_calls'] > 1:
            raise Unsupported('second random.sample call')
        kz = num_z(k)[0]
        # random.sample raises ValueError for k outside 0..len(population)
        if it2.branch(z3.Or(kz < 0, kz > population.n)):
            raise PyExc('ValueError', 'Sample larger than population or is negative')
        i, j = it2.bound_var('sp'), it2.bound_var('sq')
        it2.path.assume(z3.ForAll([i], z3.Implies(z3.And(i >= 0, i < kz), z3.And(pos(i) >= 0, pos(i) < population.n))))
        it2.path.assume(z3.ForAll([i, j], z3.Implies(z3.And(i >= 0, i < j, j < kz), pos(i) != pos(j))))
        it2.ghost['sample_k'] = kz
        return SList(kz, lambda q, population=population: population.get(pos(q)), population.elt, 'list')
    it.spec_env['random'] = SObj('random-module', {'sample': Builtin(sample, 'random.sample'), '__open__': False})


@specfn
def sampled_pairs_are_stored_pairs(it, examples, n, result):
    """result == (strings', freqs'), both of length n, and there are n pairwise different positions p(0..n-1) of the
    stored examples with strings'[i] == strings[p(i)] and freqs'[i] == freqs[p(i)]: each sampled string carries its
    own frequency, and no stored example is drawn twice."""
    if not (isinstance(result, tuple) and len(result) == 2):
        return False
    rs, rf = result
    if not (isinstance(rs, SList) and isinstance(rf, SList)):
        return False
    pos = it.ghost['sample_pos']
    nz = num_z(n)[0]
    st, fq = examples.attrs['strings'], examples.attrs['freqs']
    i = it.bound_var('sr')
    body = z3.And(zbool(values_equal(it, rs.get(i), st.get(pos(i)))),
                  zbool(values_equal(it, rf.get(i), fq.get(pos(i)))))
    return SBool(z3.And(rs.n == nz, rf.n == nz,
                        z3.ForAll([i], z3.Implies(z3.And(i >= 0, i < nz), body))))


_SENV = dict(ENV, sampled_pairs_are_stored_pairs=sampled_pairs_are_stored_pairs)
contract(RX + 'Extractor.sample_examples', props=['C14', 'C18'],
         params=OrderedDict([('examples', T.custom(_examples_view)), ('n', T.nat)]),
         self_view=_sampler_self, on_entry=_sampler_entry, spec_env=_SENV, result=T.custom(_sample_result),
         requires=[('no-more-than-stored', 'n <= len(examples.strings)')],
         ensures=[('each-sampled-string-keeps-its-own-frequency', 'sampled_pairs_are_stored_pairs(examples, n, result)')])

contract(RX + 'Extractor.sample', props=['C14', 'C18'], params=OrderedDict([('n', T.nat)]),
         self_view=_sampler_self, on_entry=_sampler_entry, spec_env=_SENV, result=T.custom(_sample_result),
         requires=[('no-more-than-stored', 'n <= len(self.all_examples.strings)')],
         ensures=[('samples-the-full-example-store', 'sampled_pairs_are_stored_pairs(self.all_examples, n, result)')])

REGISTRY[RX + 'Extractor.sample_examples'].abstraction = 'example store of any length (uninterpreted element functions); random.sample is an assumed contract (n pairwise different positions of the population, otherwise arbitrary)'
REGISTRY[RX + 'Extractor.sample'].abstraction = REGISTRY[RX + 'Extractor.sample_examples'].abstraction
