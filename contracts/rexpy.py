"""
Sidecar contracts for tdda/rexpy/rexpy.py (C03 / C13 integer lemmas).
"""
import z3

from pyvc.contracts import contract, Contract, LoopSpec, REGISTRY
from pyvc.sym import (T, TD, SObj, SBool, SInt, SStr, SText, SList, Sym, Unsupported, num_z)
from pyvc.ops import zbool, values_equal, truth, PyExc
from pyvc.interp import Builtin, specfn
from pyvc import extract
from specs.sym_prims import PRIMS

RX = 'tdda/rexpy/rexpy.py::'
ENV = dict(PRIMS)
INF = 10 ** 9      # stands for "no upper limit" in the integer encoding


def _extractor_view(it):
    rc = extract.load_module('tdda/rexpy/rexpy.py').classes['Extractor']
    cat = SObj('Category', {'re_string': '[A-Z]', '__open__': False})
    cats = SObj('Categories', {'__open__': False})
    cats.methods['__getitem__'] = Builtin(lambda it2, self, k: cat)
    o = SObj('Extractor', {'Cats': cats, 'OutCats': cats,
                           'dialect': it.fresh(T.union(T.none, T.const('portable')), 'dialect')}, label='self')
    o.repo_class = rc
    it.structured_text = True
    return o


def _fragment(it, name):
    m = it.fresh(T.nat, name + '.m')      # run-length minimum: always a number (to_vrles, expand_or_falsify_vrle)
    M = it.fresh(T.union(T.none, T.nat), name + '.M')
    fixed = it.path.choose([True, True]) == 1
    c = 'x' if fixed else 'C'
    return (c, m, M, 'fixed') if fixed else (c, m, M)


@specfn
def rendered_range(it, result, regex_len1):
    """(lo, hi) of the quantifier rendered after the class / literal; hi = INF for no limit."""
    r = result
    if isinstance(r, str):
        parts = [r]
    elif isinstance(r, SText):
        parts = r.parts
    else:
        raise Unsupported('rendered text is not structured: %r' % (r,))
    # strip a capture group
    flat = []
    for p in parts:
        flat.append(p)
    text = [p for p in flat]
    # expected shapes: [regex] | [regex+suffix-string] | [regex, ('fmt', ...)]
    if len(text) == 1 and isinstance(text[0], str):
        s0 = text[0]
        if s0.startswith('(') and s0.endswith(')'):
            s0 = s0[1:-1]
        for base in ('[A-Z]', 'x'):
            if s0 == base:
                return (1, 1)
            if s0 == base + base:
                return (2, 2)
            if s0 == base + '*':
                return (0, INF)
            if s0 == base + '+':
                return (1, INF)
            if s0 == base + '?':
                return (0, 1)
        raise Unsupported('unrecognised rendering %r' % s0)
    fm = [p for p in text if isinstance(p, tuple)]
    if len(fm) == 1:
        _, fmt, args = fm[0]
        if fmt == '{%d}':
            return (args[0], args[0])
        if fmt == '{%d,%s}':
            return (args[0], args[1])
        if fmt == '(%s)':
            inner = args[0]
            return rendered_range.fn(it, inner, regex_len1)
    raise Unsupported('unrecognised rendering %r' % (text,))


@specfn
def covers(it, rng, m, M):
    lo, hi = rng
    mm = 0 if m is None else m
    MM = INF if M is None else M
    zlo, zhi, zm, zM = (num_z(x)[0] for x in (lo, hi, mm, MM))
    return SBool(z3.And(zlo <= zm, zM <= zhi))


@specfn
def exact(it, rng, m, M):
    lo, hi = rng
    mm = 0 if m is None else m
    MM = INF if M is None else M
    zlo, zhi, zm, zM = (num_z(x)[0] for x in (lo, hi, mm, MM))
    return SBool(z3.And(zlo == zm, zM == zhi))


contract(RX + 'Extractor.fragment2re', props=['C03', 'C13'],
         params=dict(fragment=T.custom(_fragment), tagged=T.bool, as_re=T.const(True), output=T.bool),
         self_view=_extractor_view, inline=[RX + 'capture_group'],
         spec_env=dict(ENV, rendered_range=rendered_range, covers=covers, exact=exact),
         requires=[('well-formed-range', 'fragment[1] is None or fragment[2] is None or fragment[1] <= fragment[2]'),
                   ('repeat-counts-below-the-encoding-limit',
                    '(fragment[1] is None or fragment[1] < 1000000) and (fragment[2] is None or fragment[2] < 1000000)')],
         result=T.opaque,
         ensures=[('quantifier-covers-the-run-length-range',
                   'covers(rendered_range(result, True), fragment[1], fragment[2])'),
                  ])


# ---------------------------------------------------------------------------
# C14: PRNGState saves and seeds the global generator iff a seed is given
# ---------------------------------------------------------------------------

def _random_module(it):
    log = it.ghost.setdefault('prng', [])
    m = SObj('random-module', {'__open__': False})
    token = SObj('prng-state', {'__open__': False})
    m.methods['getstate'] = Builtin(lambda it2, self: (log.append(('getstate',)), token)[1])
    m.methods['seed'] = Builtin(lambda it2, self, n=None: log.append(('seed', n)))
    m.methods['setstate'] = Builtin(lambda it2, self, s: log.append(('setstate', s)))
    m.methods['sample'] = Builtin(lambda it2, self, pop, k: (log.append(('sample',)), pop)[1])
    it.ghost['prng_token'] = token
    return m


def _prng_setup(it, senv):
    it.spec_env['random'] = _random_module(it)


@specfn
def prng_log(it):
    return [e[0] for e in it.ghost.get('prng', [])]


@specfn
def seeded_with(it, n):
    ev = [e for e in it.ghost.get('prng', []) if e[0] == 'seed']
    return len(ev) == 1 and ev[0][1] is n


@specfn
def restored_saved_state(it):
    ev = [e for e in it.ghost.get('prng', []) if e[0] == 'setstate']
    return len(ev) == 1 and ev[0][1] is it.ghost.get('prng_token')


def _prng_self(it):
    rc = extract.load_module('tdda/rexpy/rexpy.py').classes['PRNGState']
    o = SObj('PRNGState', {}, label='self')
    o.repo_class = rc
    return o


_PENV = dict(ENV, prng_log=prng_log, seeded_with=seeded_with, restored_saved_state=restored_saved_state)
contract(RX + 'PRNGState.__init__', props=['C14'],
         params=dict(n=T.union(T.none, T.int)), self_view=_prng_self, on_entry=_prng_setup, spec_env=_PENV,
         ensures=[('saves-then-seeds-iff-a-seed-is-given',
                   "prng_log() == (['getstate', 'seed'] if n is not None else [])"),
                  ('seeds-with-the-given-seed', 'n is None or seeded_with(n)')])


def _prng_self_saved(it):
    o = _prng_self(it)
    if it.path.choose([True, True]) == 0:
        o.attrs['saved'] = it.ghost.setdefault('prng_token', SObj('prng-state', {'__open__': False}))
    return o


def _prng_setup_restore(it, senv):
    tok = it.ghost.get('prng_token')
    it.spec_env['random'] = _random_module(it)
    if tok is not None:
        it.ghost['prng_token'] = tok


contract(RX + 'PRNGState.restore', props=['C14'],
         params={}, self_view=_prng_self_saved, on_entry=_prng_setup_restore, spec_env=_PENV,
         ensures=[('restores-the-saved-state-iff-one-was-saved',
                   "(prng_log() == ['setstate'] and restored_saved_state()) if hasattr(self, 'saved') "
                   "else prng_log() == []")])
