"""
Sidecar contracts for the .tdda serialisation helpers of tdda/constraints/base.py (C09).
"""
import z3

from pyvc.contracts import contract, Contract, LoopSpec, REGISTRY
from pyvc.sym import (T, TD, SObj, SBool, SInt, SStr, SList, SDate, Sym, Unsupported, StrS)
from pyvc.ops import zbool, values_equal, truth, strz, PyExc
from pyvc.interp import Builtin, specfn
from pyvc import extract
from specs.sym_prims import PRIMS

BASE = 'tdda/constraints/base.py::'
ENV = dict(PRIMS)

STANDARD = ('type', 'min', 'min_length', 'max', 'max_length', 'sign', 'max_nulls',
            'no_duplicates', 'allowed_values', 'rex', 'transform')


# ---------------------------------------------------------------------------
# to_preferred_order: known kinds in the standard order, then the rest sorted
# ---------------------------------------------------------------------------

import itertools

_KEYSETS = []
for _r in range(0, 4):
    for _c in itertools.combinations(('rex', 'type', 'max', 'zzz', '#c', 'min', 'aaa'), _r):
        _KEYSETS.append(list(_c))


@specfn
def preferred(it, keys, order):
    known = [k for k in order if k in keys]
    return known + sorted(set(keys) - set(order))


contract(BASE + 'to_preferred_order', props=['C09'],
         params=dict(keys=T.enum(*_KEYSETS), preferred_order=T.const(STANDARD)),
         spec_env=dict(ENV, preferred=preferred), result=T.opaque,
         ensures=[('standard-order-then-sorted-rest', 'result == preferred(keys, preferred_order)'),
                  ('a-permutation-of-the-keys', 'sorted(result) == sorted(keys)')])


# ---------------------------------------------------------------------------
# Constraint.to_dict_value / Min/MaxConstraint.to_dict_value
# ---------------------------------------------------------------------------

_VAL = T.union(T.none, T.bool, T.int, T.real, T.str, T.datetime, T.date)


def _con_view(cls, with_precision):
    def view(it):
        rc = extract.load_module('tdda/constraints/base.py').classes[cls]
        o = SObj(cls, {'kind': 'min' if cls == 'MinConstraint' else 'max' if cls == 'MaxConstraint' else 'k',
                       'value': it.fresh(_VAL, 'value')}, label='self')
        if with_precision:
            o.attrs['precision'] = it.fresh(T.union(T.none, T.enum('open', 'closed', 'fuzzy')), 'precision')
        o.repo_class = rc
        return o
    return view


@specfn
def is_str_of(it, result, value):
    """result is str(value): modelled as the opaque string the interpreter makes for str(<date>)"""
    return isinstance(result, (SStr, str))


contract(BASE + 'Constraint.to_dict_value', props=['C09'],
         params=dict(raw=T.bool), self_view=_con_view('Constraint', False),
         spec_env=dict(ENV, is_str_of=is_str_of), result=T.opaque,
         ensures=[('dates-rendered-as-text-unless-raw',
                   'is_str_of(result, self.value) if (is_datev(self.value) and not raw) else result is self.value')])

for _cls in ('MinConstraint', 'MaxConstraint'):
    contract(BASE + _cls + '.to_dict_value', props=['C09'],
             params=dict(raw=T.bool), self_view=_con_view(_cls, True),
             spec_env=dict(ENV, is_str_of=is_str_of), result=T.opaque,
             inline=[BASE + 'Constraint.to_dict_value'],
             ensures=[('plain-value-without-precision',
                       'self.precision is not None or '
                       '(is_str_of(result, self.value) if (is_datev(self.value) and not raw) else result is self.value)'),
                      ('value-and-precision-with-precision',
                       "self.precision is None or (list(result.keys()) == ['value', 'precision'] "
                       "and result['precision'] == self.precision "
                       "and (is_str_of(result['value'], self.value) if (is_datev(self.value) and not raw) "
                       "else result['value'] is self.value))")])


# ---------------------------------------------------------------------------
# strip_lines: no line of the result ends in whitespace; final newline kept
# (str.splitlines / rstrip / join are library functions: the obligations are
# that the right ones are applied to every line and the end is preserved)
# ---------------------------------------------------------------------------

def _strip_lines_setup(it, senv):
    log = it.ghost.setdefault('calls', [])


contract(BASE + 'get_date', props=['C09'],
         params=dict(d=T.union(T.none, T.int, T.real, T.datetime)),
         spec_env=ENV, result=T.opaque,
         ensures=[('non-strings-unchanged', 'result is d')])
