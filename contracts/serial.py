"""
Sidecar contracts for the .tdda serialisation helpers of tdda/constraints/base.py (C09).
"""
import z3

from pyvc.contracts import contract, Contract, LoopSpec, REGISTRY
from pyvc.sym import (T, TD, SObj, SBool, SInt, SStr, SList, SDate, Sym, Unsupported, StrS)
from pyvc.ops import zbool, values_equal, truth, strz, PyExc
from pyvc.interp import Builtin, specfn
from pyvc import extract
from specs.sym_prims import PRIMS

BASE = 'tdda/constraints/base.py::'
ENV = dict(PRIMS)

STANDARD = ('type', 'min', 'min_length', 'max', 'max_length', 'sign', 'max_nulls',
            'no_duplicates', 'allowed_values', 'rex', 'transform')


# ---------------------------------------------------------------------------
# to_preferred_order: known kinds in the standard order, then the rest sorted
# ---------------------------------------------------------------------------

import itertools

_KEYSETS = []
for _r in range(0, 4):
    for _c in itertools.combinations(('rex', 'type', 'max', 'zzz', '#c', 'min', 'aaa'), _r):
        _KEYSETS.append(list(_c))


@specfn
def preferred(it, keys, order):
    known = [k for k in order if k in keys]
    return known + sorted(set(keys) - set(order))


contract(BASE + 'to_preferred_order', props=['C09'],
         params=dict(keys=T.enum(*_KEYSETS), preferred_order=T.const(STANDARD)),
         spec_env=dict(ENV, preferred=preferred), result=T.opaque,
         ensures=[('standard-order-then-sorted-rest', 'result == preferred(keys, preferred_order)'),
                  ('a-permutation-of-the-keys', 'sorted(result) == sorted(keys)')])


# ---------------------------------------------------------------------------
# Constraint.to_dict_value / Min/MaxConstraint.to_dict_value
# ---------------------------------------------------------------------------

_VAL = T.union(T.none, T.bool, T.int, T.real, T.str, T.datetime, T.date)


def _con_view(cls, with_precision):
    def view(it):
        rc = extract.load_module('tdda/constraints/base.py').classes[cls]
        o = SObj(cls, {'kind': 'min' if cls == 'MinConstraint' else 'max' if cls == 'MaxConstraint' else 'k',
                       'value': it.fresh(_VAL, 'value')}, label='self')
        if with_precision:
            o.attrs['precision'] = it.fresh(T.union(T.none, T.enum('open', 'closed', 'fuzzy')), 'precision')
        o.repo_class = rc
        return o
    return view


@specfn
def is_str_of(it, result, value):
    """result is str(value): modelled as the opaque string the interpreter makes for str(<date>)"""
    return isinstance(result, (SStr, str))


contract(BASE + 'Constraint.to_dict_value', props=['C09'],
         params=dict(raw=T.bool), self_view=_con_view('Constraint', False),
         spec_env=dict(ENV, is_str_of=is_str_of), result=T.opaque,
         ensures=[('dates-rendered-as-text-unless-raw',
                   'is_str_of(result, self.value) if (is_datev(self.value) and not raw) else result is self.value')])

for _cls in ('MinConstraint', 'MaxConstraint'):
    contract(BASE + _cls + '.to_dict_value', props=['C09'],
             params=dict(raw=T.bool), self_view=_con_view(_cls, True),
             spec_env=dict(ENV, is_str_of=is_str_of), result=T.opaque,
             inline=[BASE + 'Constraint.to_dict_value'],
             ensures=[('plain-value-without-precision',
                       'self.precision is not None or '
                       '(is_str_of(result, self.value) if (is_datev(self.value) and not raw) else result is self.value)'),
                      ('value-and-precision-with-precision',
                       "self.precision is None or (list(result.keys()) == ['value', 'precision'] "
                       "and result['precision'] == self.precision "
                       "and (is_str_of(result['value'], self.value) if (is_datev(self.value) and not raw) "
                       "else result['value'] is self.value))")])


# ---------------------------------------------------------------------------
# strip_lines: no line of the result ends in whitespace; final newline kept
# (str.splitlines / rstrip / join are library functions: the obligations are
# that the right ones are applied to every line and the end is preserved)
# ---------------------------------------------------------------------------

def _strip_lines_setup(it, senv):
    log = it.ghost.setdefault('calls', [])


contract(BASE + 'get_date', props=['C09'],
         params=dict(d=T.union(T.none, T.int, T.real, T.datetime)),
         spec_env=ENV, result=T.opaque,
         ensures=[('non-strings-unchanged', 'result is d')])


# ---------------------------------------------------------------------------
# initialize_from_dict: one constraint per known kind, date bounds re-parsed in
# BOTH the plain and the {value, precision} form, # / unknown kinds ignored,
# no key affects another (C09)
# ---------------------------------------------------------------------------

_parsed = z3.Function('get_date.parsed', StrS, z3.IntSort())
_parses = z3.Function('get_date.parses', StrS, z3.BoolSort())


def _get_date_effect(it, env):
    d = env['d']
    if not isinstance(d, (str, SStr)):
        return d
    dz = strz(it, d)
    if it.branch(_parses(dz)):
        return SDate(_parsed(dz), 'datetime')
    return d


_gd_callee = Contract(BASE + 'get_date', params=dict(d=None), effects=_get_date_effect, result=T.none,
                      assumed=True, spec_env=ENV, name='get_date',
                      trusted_note='as a callee: a deterministic function of the text (the parsed instant, or the text itself)')


@specfn
def is_parsed_form_of(it, loaded, text):
    """loaded == get_date(text): the parsed instant when the text parses, else the text itself."""
    if not isinstance(text, (str, SStr)):
        return loaded is text
    tz = strz(it, text)
    if isinstance(loaded, SDate):
        return SBool(z3.And(_parses(tz), loaded.z == _parsed(tz)))
    if isinstance(loaded, (str, SStr)):
        return SBool(z3.And(z3.Not(_parses(tz)), strz(it, loaded) == tz))
    return False


_KNOWN = ('type', 'min', 'min_length', 'max', 'max_length', 'sign', 'max_nulls', 'no_duplicates',
          'allowed_values', 'rex', 'transform')


def _ifd_view(it):
    rc = extract.load_module('tdda/constraints/base.py').classes['DatasetConstraints']
    o = SObj('DatasetConstraints', {'fields': __import__('collections').OrderedDict()}, label='self')
    o.repo_class = rc
    return o


def _ifd_setup(it, senv):
    mod = extract.load_module('tdda/constraints/base.py')
    fmap = {}
    for kind in _KNOWN:
        cname = ''.join(p.title() for p in kind.split('_')) + 'Constraint'
        if cname in mod.classes:
            fmap[kind] = mod.classes[cname]
    it.spec_env['FIELD_CONSTRAINTS_MAP'] = fmap


def _in_constraints(it, name):
    """A field with a date or int type, a min in plain or {value, precision} form, an unrelated known
    kind, a comment key and an unknown kind - in symbolic positions of value."""
    is_date = it.path.choose([True, True]) == 0
    form = it.path.choose([True, True, True])
    bound = it.fresh_str('bound_text') if is_date else it.fresh(T.int, 'bound_int')
    prec = it.fresh(T.enum('open', 'closed', 'fuzzy'), 'precision')
    from collections import OrderedDict as OD
    f = OD()
    f['type'] = 'date' if is_date else 'int'
    if form == 0:
        f['min'] = bound
    elif form == 1:
        f['min'] = OD((('value', bound), ('precision', prec)))
    else:
        f['min'] = None
    f['#note'] = it.fresh_str('comment')
    f['max_nulls'] = it.fresh(T.int, 'max_nulls')
    f['frobnicate'] = it.fresh(T.int, 'unknown_value')
    # creation metadata: a count that may be 0, a text that may be empty, a null entry and a key the format
    # does not know
    md = OD((('n_records', it.fresh(T.nat, 'n_records')), ('user', it.fresh_str('user')), ('host', None),
             ('favourite_colour', it.fresh_str('unknown_metadata'))))
    it.ghost['ifd'] = dict(is_date=is_date, form=form, bound=bound, prec=prec, max_nulls=f['max_nulls'],
                           n_records=md['n_records'], user=md['user'])
    # a second field whose name begins with '#': field names are data, only constraint kinds can be comments
    g = OD((('type', 'int'), ('max_nulls', it.fresh(T.int, 'hash_field_max_nulls'))))
    it.ghost['ifd']['hash_max_nulls'] = g['max_nulls']
    return OD((('fields', OD((('fld', f), ('#fld', g)))), ('creation_metadata', md)))


@specfn
def ifd(it, key):
    return it.ghost['ifd'][key]


@specfn
def stored(it, obj, name):
    """The value the object holds under this attribute name (None when it holds none)."""
    return obj.attrs.get(name)


contract(BASE + 'DatasetConstraints.initialize_from_dict', props=['C09'],
         params=dict(in_constraints=T.custom(_in_constraints)), self_view=_ifd_view, on_entry=_ifd_setup,
         spec_env=dict(ENV, ifd=ifd, stored=stored, is_parsed_form_of=is_parsed_form_of),
         inline=[BASE + n for n in ('Constraint.__init__', 'Constraint.check_validity', 'constraint_class',
                                    'MinConstraint.__init__', 'MaxNullsConstraint.__init__',
                                    'TypeConstraint.__init__', 'FieldConstraints.__init__',
                                    'DatasetConstraints.add_field', 'warn')],
         ensures=[('one-constraint-per-known-kind-in-order',
                   "list(self.fields['fld'].constraints.keys()) == ['type', 'min', 'max_nulls']"),
                  ('comment-and-unknown-kinds-ignored',
                   "'#note' not in self.fields['fld'].constraints and 'frobnicate' not in self.fields['fld'].constraints"),
                  ('other-constraints-unaffected',
                   "self.fields['fld'].constraints['max_nulls'].value is ifd('max_nulls') "
                   "and self.fields['fld'].constraints['type'].value == ('date' if ifd('is_date') else 'int')"),
                  ('date-bound-reparsed-in-plain-and-precision-form',
                   "ifd('form') == 2 or not ifd('is_date') or "
                   "is_parsed_form_of(self.fields['fld'].constraints['min'].value, ifd('bound'))"),
                  ('non-date-bound-kept',
                   "ifd('form') == 2 or ifd('is_date') or self.fields['fld'].constraints['min'].value is ifd('bound')"),
                  ('null-bound-kept-null',
                   "ifd('form') != 2 or self.fields['fld'].constraints['min'].value is None"),
                  ('precision-kept',
                   "self.fields['fld'].constraints['min'].precision == (ifd('prec') if ifd('form') == 1 else None)"),
                  ('known-creation-metadata-kept-whatever-its-value-zero-and-empty-included',
                   "stored(self, 'n_records') == ifd('n_records') and stored(self, 'user') == ifd('user')"),
                  ('a-field-is-kept-whatever-its-name-begins-with',
                   "list(self.fields.keys()) == ['fld', '#fld'] and "
                   "self.fields['#fld'].constraints['max_nulls'].value is ifd('hash_max_nulls')"),
                  ('null-and-unknown-metadata-not-stored',
                   "not hasattr(self, 'host') and not hasattr(self, 'favourite_colour')")])


class _IFD(Contract):
    pass


_c = REGISTRY[BASE + 'DatasetConstraints.initialize_from_dict']
_orig_verify = _c.verify


def _ifd_verify(registry=None, quick=False):
    reg = dict(REGISTRY if registry is None else registry)
    reg[BASE + 'get_date'] = _gd_callee
    return _orig_verify(reg, quick)


_c.verify = _ifd_verify


# ---------------------------------------------------------------------------
# FieldConstraints.to_dict_value / DatasetConstraints.to_dict (C09): what is written is, per field, one entry
# per constraint kind in the standard order (then the rest sorted), each rendered by that constraint's own
# to_dict_value with the same `raw` flag; fields in their stored order; creation metadata first when present.
# ---------------------------------------------------------------------------
from collections import OrderedDict as _OD

_FC_KEYSETS = []
for _r in range(0, 4):
    for _c in itertools.permutations(('rex', 'type', 'max', 'zzz', 'min', 'allowed_values'), _r):
        _FC_KEYSETS.append(list(_c))
_FC_KEYSETS = _FC_KEYSETS[::3]         # every third insertion order: 0..3 kinds of 6, in varying stored orders


def _fc_view(it):
    rc = extract.load_module('tdda/constraints/base.py').classes['FieldConstraints']
    keys = _FC_KEYSETS[it.path.choose([True] * len(_FC_KEYSETS))]
    cons = _OD()
    rendered = {}
    for k in keys:
        c = SObj('Constraint', {'kind': k, '__open__': False}, label='constraint:' + k)

        def tdv(it2, self, raw=False, k=k):
            rendered[k] = (it2.fresh_opaque('rendered_' + k), raw)
            return rendered[k][0]
        c.methods['to_dict_value'] = Builtin(tdv, 'Constraint.to_dict_value')
        cons[k] = c
    o = SObj('FieldConstraints', {'name': it.fresh_str('name'), 'constraints': cons}, label='self')
    o.repo_class = rc
    it.ghost['fc'] = (keys, rendered)
    return o


@specfn
def field_entry_ok(it, result, raw):
    keys, rendered = it.ghost['fc']
    want = [k for k in STANDARD if k in keys] + sorted(set(keys) - set(STANDARD))
    if list(result.keys()) != want:
        return False
    return all(k in rendered and result[k] is rendered[k][0] and rendered[k][1] is raw for k in want)


contract(BASE + 'FieldConstraints.to_dict_value', props=['C09'],
         params=dict(raw=T.union(T.const(False), T.const(True))), self_view=_fc_view,
         inline=[BASE + 'to_preferred_order'], spec_env=dict(ENV, field_entry_ok=field_entry_ok),
         ensures=[('one-entry-per-kind-in-the-standard-order-rendered-by-the-constraint-itself',
                   'field_entry_ok(result, raw)')])


def _dc_view(it):
    rc = extract.load_module('tdda/constraints/base.py').classes['DatasetConstraints']
    names = [['b', 'a'], ['a'], [], ['x y', 'é', 'a']][it.path.choose([True] * 4)]
    fields = _OD()
    rendered = {}
    for n in names:
        f = SObj('FieldConstraints', {'name': n, '__open__': False}, label='field:' + n)

        def tdv(it2, self, raw=False, n=n):
            rendered[n] = it2.fresh_opaque('entry_' + n)
            return rendered[n]
        f.methods['to_dict_value'] = Builtin(tdv, 'FieldConstraints.to_dict_value')
        fields[n] = f
    has_md = it.path.choose([True, True]) == 1
    md = {'tdda': 'x'} if has_md else None
    o = SObj('DatasetConstraints', {'fields': fields}, label='self')
    o.repo_class = rc
    o.methods['get_metadata'] = Builtin(lambda it2, self, tddafile=None: md, 'get_metadata')

    def hook(it2, self, d):
        if it2.path.choose([True, True]) == 1:
            raise PyExc('AttributeError', 'no postdicthook')
        return None
    o.methods['postdicthook'] = Builtin(hook, 'postdicthook')
    it.ghost['dc'] = (names, rendered, md)
    return o


@specfn
def dataset_dict_ok(it, result):
    names, rendered, md = it.ghost['dc']
    want = (['creation_metadata'] if md else []) + ['fields']
    if list(result.keys()) != want:
        return False
    if md and result['creation_metadata'] is not md:
        return False
    f = result['fields']
    return list(f.keys()) == list(names) and all(f[n] is rendered[n] for n in names)


contract(BASE + 'DatasetConstraints.to_dict', props=['C09'], params=dict(tddafile=T.union(T.none, T.str)),
         self_view=_dc_view, spec_env=dict(ENV, dataset_dict_ok=dataset_dict_ok),
         ensures=[('fields-in-stored-order-each-rendered-by-the-field-metadata-first', 'dataset_dict_ok(result)')])
