"""
Bounded layer for C04 (text comparison verdicts) and C15 (artefacts of failed
assertions): runtime contracts on the real checkfiles / referencetest code.
The verdict oracle is an independent statement of the comparison rule (C04's
sentence); pattern equivalence is decided by dynamic programming.
"""
import io
import itertools
import multiprocessing
import os
import random
import re
import shutil
import sys
import tempfile
import contextlib
from functools import lru_cache

from bounded.core import Bounded


@contextlib.contextmanager
def quiet():
    so, se = sys.stdout, sys.stderr
    sys.stdout = sys.stderr = io.StringIO()
    try:
        yield
    finally:
        sys.stdout, sys.stderr = so, se


# ---------------------------------------------------------------------------
# oracle
# ---------------------------------------------------------------------------

def norm_fn(lstrip, rstrip):
    if lstrip and rstrip:
        return lambda s: s.strip()
    if lstrip:
        return lambda s: s.lstrip()
    if rstrip:
        return lambda s: s.rstrip()
    return lambda s: s


def pattern_equiv(a, e, patterns):
    """
    Most permissive reading of "differ only in parts matched by an
    ignore-pattern": the two lines can be cut into the same number of pieces,
    each pair of pieces either equal or both matched in full by one pattern
    (a pattern anchored with ^ / $ only at the start / end of the line).
    """
    pats = []
    for p in patterns or []:
        core = p
        start = core.startswith('^')
        end = core.endswith('$') and not core.endswith('\\$')
        if start:
            core = core[1:]
        if end:
            core = core[:-1]
        try:
            pats.append((re.compile(core), start, end))
        except re.error:
            return None
    la, le = len(a), len(e)

    @lru_cache(maxsize=None)
    def go(i, j):
        if i == la and j == le:
            return True
        # equal next character
        if i < la and j < le and a[i] == e[j] and go(i + 1, j + 1):
            return True
        for rx, start, end in pats:
            if start and (i != 0 or j != 0):
                continue
            for i2 in range(i, la + 1):
                if not rx.fullmatch(a, i, i2):
                    continue
                for j2 in range(j, le + 1):
                    if i2 == i and j2 == j:
                        continue
                    if end and (i2 != la or j2 != le):
                        continue
                    if rx.fullmatch(e, j, j2) and go(i2, j2):
                        return True
        return False
    return go(0, 0)


def strict_pattern_equiv(a, e, patterns):
    """Sufficient condition: same prefix and suffix, one differing region each, both fully matched."""
    if a == e:
        return True
    for p in patterns or []:
        start = p.startswith('^')
        end = p.endswith('$') and not p.endswith('\\$')
        if start or end:
            # a pattern tied to the start / end of the line: the tied match on each side, the rest identical,
            # and no second way of matching (sufficient, not necessary)
            core = p[1:] if start else p
            core = core[:-1] if end else core
            try:
                rx = re.compile(core)
            except re.error:
                continue
            for ma in rx.finditer(a):
                for me in rx.finditer(e):
                    if start and (ma.start() != 0 or me.start() != 0):
                        continue
                    if end and (ma.end() != len(a) or me.end() != len(e)):
                        continue
                    if (a[:ma.start()] == e[:me.start()] and a[ma.end():] == e[me.end():]
                            and ma.end() > ma.start() and me.end() > me.start()
                            and len(rx.findall(a)) == 1 and len(rx.findall(e)) == 1):
                        return True
            continue
        rx = re.compile(p)
        for ma in rx.finditer(a):
            for me in rx.finditer(e):
                if (a[:ma.start()] == e[:me.start()] and a[ma.end():] == e[me.end():]
                        and ma.end() > ma.start() and me.end() > me.start()):
                    # the real matcher is leftmost/greedy: require this to be the only match
                    if len(rx.findall(a)) == 1 and len(rx.findall(e)) == 1:
                        return True
    return False


def oracle(A, E, o):
    """
    (must_pass, must_fail): verdict the property fixes; both False when the
    documents leave the case open.
    """
    pre = o.get('preprocess')
    if pre:
        A, E = pre(list(A)), pre(list(E))
    A, E = list(A), list(E)
    if A and A[-1] == '':
        A = A[:-1]
    if E and E[-1] == '':
        E = E[:-1]
    rem = o.get('remove_lines') or []
    A2 = [l for l in A if not any(r in l for r in rem)]
    E2 = [l for l in E if not any(r in l for r in rem)]
    if len(A2) != len(E2):
        return (False, True, [])
    n = norm_fn(o.get('lstrip'), o.get('rstrip'))
    subs = o.get('ignore_substrings') or []
    pats = o.get('ignore_patterns') or []
    bad_perm, bad_strict = [], []
    open_case = False
    for i, (a, e) in enumerate(zip(A2, E2)):
        if n(a) == n(e):
            continue
        if any(s in e for s in subs):
            continue
        loose = pattern_equiv(a, e, pats) or pattern_equiv(n(a), n(e), pats)
        strict = strict_pattern_equiv(a, e, pats)
        if strict:
            continue
        if loose:
            open_case = True        # excusable under some reading only
            continue
        bad_strict.append(i)
    if open_case:
        # cannot demand a pass; can demand a fail only if definite differences remain
        # beyond what permutations could excuse
        if bad_strict and len(bad_strict) > o.get('max_permutation_cases', 0):
            return (False, True, bad_strict)
        return (False, False, bad_strict)
    if not bad_strict:
        return (True, False, [])
    mpc = o.get('max_permutation_cases', 0)
    if len(bad_strict) <= mpc:
        raw = sorted(A2[i] for i in bad_strict) == sorted(E2[i] for i in bad_strict)
        nrm = sorted(n(A2[i]) for i in bad_strict) == sorted(n(E2[i]) for i in bad_strict)
        if raw and nrm:
            return (True, False, bad_strict)
        if not raw and not nrm:
            return (False, True, bad_strict)
        return (False, False, bad_strict)
    return (False, True, bad_strict)


# ---------------------------------------------------------------------------
# generators
# ---------------------------------------------------------------------------

LINES = ['a', 'b', 'a b', ' a', 'a ', 'x1', 'x22', 'id=7 ok', 'id=42 ok', 'skip me', 'a x1', 'b x1', 'x2', 'id=8 ok', 'é', '']


def drop_first(lines):
    return lines[1:]


OPTION_SETS = [
    {}, {'lstrip': True}, {'rstrip': True}, {'lstrip': True, 'rstrip': True},
    {'ignore_substrings': ['skip']}, {'ignore_substrings': ['id=']},
    {'ignore_patterns': [r'\d+']}, {'ignore_patterns': [r'id=\d+']},
    {'ignore_patterns': [r'x\d+$']}, {'ignore_patterns': [r'^id=\d+']},
    {'ignore_patterns': [r'\d+'], 'rstrip': True},
    # several patterns: one that matches the reference line only comes before the one that excuses the difference
    {'ignore_patterns': [r'7', r'id=\d+']}, {'ignore_patterns': [r'x1$', r'x\d$']}, {'ignore_patterns': [r'x\d$', r'x1$']},
    {'remove_lines': ['skip']}, {'remove_lines': ['skip'], 'ignore_substrings': ['id=']},
    {'remove_lines': ['skip'], 'ignore_patterns': [r'id=\d+']}, {'remove_lines': ['skip'], 'ignore_patterns': [r'x\d+$']},
    {'remove_lines': ['a']},
    {'preprocess': drop_first}, {'preprocess': drop_first, 'remove_lines': ['skip']},
    {'max_permutation_cases': 1}, {'max_permutation_cases': 2}, {'max_permutation_cases': 3},
    {'max_permutation_cases': 4},
    {'max_permutation_cases': 2, 'lstrip': True},
    {'max_permutation_cases': 2, 'ignore_patterns': [r'\d+']},
    {'max_permutation_cases': 1, 'ignore_patterns': [r'\d+']},
    {'max_permutation_cases': 2, 'ignore_substrings': ['id=']},
    {'max_permutation_cases': 3, 'ignore_substrings': ['id='], 'ignore_patterns': [r'x\d']},
    {'remove_lines': ['skip'], 'ignore_patterns': [r'\d+'], 'lstrip': True, 'rstrip': True,
     'ignore_substrings': ['é'], 'max_permutation_cases': 2},
]


def variants(E, rnd, pool):
    """Near-miss actuals for a reference text E."""
    yield list(E)
    for i in range(len(E)):
        for l in pool:
            if l != E[i]:
                yield E[:i] + [l] + E[i + 1:]
        yield E[:i] + E[i + 1:]
    for i in range(len(E) + 1):
        for l in ('skip me', 'b', 'x1'):
            yield E[:i] + [l] + E[i:]
    for i in range(len(E)):
        for j in range(i + 1, len(E)):
            if E[i] != E[j]:
                F = list(E)
                F[i], F[j] = F[j], F[i]
                yield F
    if len(E) >= 3:
        yield E[1:] + E[:1]
    # compound differences: an excusable (same-length, pattern / substring) difference together with
    # real differences or a swap, in every relative order
    sib = {'x1': 'x2', 'x2': 'x1', 'id=7 ok': 'id=8 ok', 'id=8 ok': 'id=7 ok'}
    for i in range(len(E)):
        if E[i] in sib:
            F = list(E)
            F[i] = sib[E[i]]
            for j in range(len(E)):
                for k in range(j + 1, len(E)):
                    if i not in (j, k) and E[j] != E[k]:
                        G = list(F)
                        G[j], G[k] = G[k], G[j]
                        yield G
            for j in range(len(E)):
                if j != i:
                    G = list(F)
                    G[j] = G[j] + '!'
                    yield G
                    # ... and a removable line present on one side only, at every position
                    for p in range(len(G) + 1):
                        yield G[:p] + ['skip me'] + G[p:]
                    for k in range(len(E)):
                        if k not in (i, j):
                            H = list(G)
                            H[k] = H[k] + '?'
                            yield H
    # same distinct lines, different multiplicities (not a permutation)
    ds = sorted(set(E))
    if len(ds) >= 2 and len(E) >= 3:
        x, y = ds[0], ds[1]
        yield [y if l == x else x if l == y else l for l in E]


def desc_opts(o):
    return {k: (v.__name__ if callable(v) else v) for k, v in o.items()}


# ---------------------------------------------------------------------------
# checks
# ---------------------------------------------------------------------------

def tree_snapshot(root):
    out = {}
    for d, _, files in os.walk(root):
        for f in files:
            p = os.path.join(d, f)
            try:
                with open(p, 'rb') as fh:
                    out[p] = fh.read()
            except OSError:
                pass
    return out


def check_pair(b, fc, A, E, o, sandbox, props):
    """One (actual, expected, options) case through FilesComparison.check_strings."""
    tmpdir = fc.tmp_dir
    w = {'actual': A, 'expected': E, 'options': desc_opts(o)}
    b.case(('text', tuple(A), tuple(E), repr(desc_opts(o))))
    for f in os.listdir(tmpdir):
        os.unlink(os.path.join(tmpdir, f))
    before = tree_snapshot(sandbox)
    with quiet():
        ok, r = b.guarded('C04.check_strings.noraise',
                          lambda: fc.check_strings(list(A), list(E), **o), w)
    if not ok:
        return
    failures, msgs = r
    must_pass, must_fail, bad = oracle(A, E, o)
    if 'C04' in props:
        if must_pass:
            b.check('C04.verdict.pass-required', failures == 0, w,
                    'the texts agree modulo the declared exclusions but the comparison failed')
        if must_fail:
            b.check('C04.verdict.fail-required', failures != 0, w,
                    'a difference no option excuses (lines %r) passed' % (bad,))
    if 'C15' in props:
        after = tree_snapshot(sandbox)
        new = sorted(set(after) - set(before))
        changed = sorted(p for p in before if p in after and after[p] != before[p])
        gone = sorted(set(before) - set(after))
        b.check('C15.nothing-written-outside-tmp_dir',
                all(p.startswith(tmpdir + os.sep) for p in new) and not changed and not gone, w,
                'new %r changed %r removed %r' % (new, changed, gone))
        if failures == 0:
            b.check('C15.passing-writes-nothing', not new, w, 'written: %r' % new)
        else:
            text = msgs.message() if hasattr(msgs, 'message') else str(msgs)
            check_artefacts(b, text, A, E, o, tmpdir, w, bad, must_fail)


CMD = re.compile(r'^\s+(?:diff|fc|cp|copy) (\S+) (\S+)\s*$', re.M)


def check_artefacts(b, text, A, E, o, tmpdir, w, bad, must_fail):
    cmds = CMD.findall(text)
    b.check('C15.failure-names-a-comparison-command', bool(cmds), w, 'message: %r' % text[:300])
    for a_path, e_path in cmds:
        b.check('C15.named-files-exist', os.path.exists(a_path) and os.path.exists(e_path), w,
                'command names %s %s' % (a_path, e_path))
    raw = [c for c in cmds if os.path.basename(c[0]).startswith('actual-raw-')]
    if raw:
        a_path, e_path = raw[0]
        if os.path.exists(a_path):
            with open(a_path, encoding='utf-8') as f:
                got = f.read()
            A2 = list(A)

            def trim(lines):
                # trailing empty lines are not significant under the line-based comparison rule (C04)
                lines = list(lines)
                while lines and lines[-1] == '':
                    lines.pop()
                return lines
            b.check('C15.raw-actual-holds-the-actual-content', trim(got.split('\n')) == trim(A2), w,
                    'actual was %r, file holds %r' % (A2, got))
    exclusions = any(o.get(k) for k in ('ignore_substrings', 'ignore_patterns', 'remove_lines', 'preprocess'))
    post = [c for c in cmds if os.path.basename(c[0]).startswith('actual-')
            and not os.path.basename(c[0]).startswith('actual-raw-')]
    if exclusions and must_fail and not o.get('preprocess'):
        b.check('C15.post-processed-pair-written', bool(post), w, 'commands: %r' % (cmds,))
    for a_path, e_path in post:
        if not (os.path.exists(a_path) and os.path.exists(e_path)):
            continue
        with open(a_path, encoding='utf-8') as f:
            pa = f.read().split('\n')
        with open(e_path, encoding='utf-8') as f:
            pe = f.read().split('\n')
        # drop the echoed '***' header block if present
        def strip_header(lines):
            if lines and lines[0] == '***':
                k = lines.index('***', 1) if '***' in lines[1:] else 0
                return lines[k + 2:] if k else lines
            return lines
        pa, pe = strip_header(pa), strip_header(pe)
        rem = o.get('remove_lines') or []
        A1, E1 = list(A), list(E)
        if A1 and A1[-1] == '':
            A1 = A1[:-1]
        if E1 and E1[-1] == '':
            E1 = E1[:-1]
        A2 = [l for l in A1 if not any(r in l for r in rem)]
        E2 = [l for l in E1 if not any(r in l for r in rem)]
        if len(A2) != len(E2) and not o.get('preprocess') and not rem:
            # different numbers of lines: the comparison walks the two texts side by side, so the pair differs on the
            # side-by-side lines that carry an unexcused difference and on the lines one text has beyond the other
            n0 = min(len(A2), len(E2))
            nrm = norm_fn(o.get('lstrip'), o.get('rstrip'))
            subs, pats = o.get('ignore_substrings') or [], o.get('ignore_patterns') or []
            unexc, undecided = 0, False
            for a, e in zip(A2[:n0], E2[:n0]):
                if nrm(a) == nrm(e) or any(x in e for x in subs):
                    continue
                if strict_pattern_equiv(a, e, pats):
                    if len(a) != len(e):
                        undecided = True      # the recorded C04 finding (matched parts of unequal length): not judged again here
                    continue
                if pattern_equiv(a, e, pats) or pattern_equiv(nrm(a), nrm(e), pats):
                    undecided = True
                    continue
                unexc += 1
            if not undecided:
                # (an empty file reads as one empty line; trailing empty lines are not significant, as in C04)
                ta, te = list(pa), list(pe)
                while ta and ta[-1] == '':
                    ta.pop()
                while te and te[-1] == '':
                    te.pop()
                ua, ue = list(A2), list(E2)
                while ua and ua[-1] == '':
                    ua.pop()
                while ue and ue[-1] == '':
                    ue.pop()
                got = sum(1 for x, y in zip(ta, te) if x != y) + abs(len(ta) - len(te))
                want = unexc + abs(len(ua) - len(ue))
                if ua != list(A2) or ue != list(E2) or not ua or not ue:
                    want = got        # texts ending in blank lines / empty texts: how many lines they have is not judged
                b.check('C15.post-processed-pair-differs-exactly-on-unexcused-lines', got == want,
                        dict(w, post_actual=pa, post_expected=pe),
                        'texts of %d and %d lines: the post-processed files differ at %d places; %d side-by-side lines '
                        'carry an unexcused difference and %d lines have no counterpart'
                        % (len(A2), len(E2), got, unexc, abs(len(A2) - len(E2))))
        if len(A2) == len(E2) and not o.get('preprocess') and len(pa) == len(pe):
            ndiff = sum(1 for x, y in zip(pa, pe) if x != y)
            n = norm_fn(o.get('lstrip'), o.get('rstrip'))
            # "the lines where unexcused differences were found": the comparison's own count
            m = re.search(r'(\d+) lines? (?:is|are) different', text)
            if m:
                bad = list(range(int(m.group(1))))
            # lines the comparison itself counted as real differences
            b.check('C15.post-processed-pair-differs-exactly-on-unexcused-lines',
                    ndiff == len(bad) or not must_fail, dict(w, post_actual=pa, post_expected=pe),
                    'post-processed files differ on %d lines, unexcused differences on %d (%r)'
                    % (ndiff, len(bad), bad))


def _work(args):
    chunk, props, seed = args
    from tdda.referencetest.checkfiles import FilesComparison
    b = Bounded('', '')
    sandbox = tempfile.mkdtemp(prefix='verif-c04-')
    cwd = os.getcwd()
    try:
        tmpdir = os.path.join(sandbox, 'tmp')
        work = os.path.join(sandbox, 'work')
        os.makedirs(tmpdir)
        os.makedirs(work)
        with open(os.path.join(work, 'bystander.txt'), 'w') as f:
            f.write('untouched\n')
        os.chdir(work)
        fc = FilesComparison(print_fn=None, verbose=False, tmp_dir=tmpdir)
        for A, E, oi in chunk:
            b.case_guard(props[0], {'actual': A, 'expected': E, 'options': desc_opts(OPTION_SETS[oi])},
                         lambda: check_pair(b, fc, A, E, OPTION_SETS[oi], sandbox, props))
    finally:
        os.chdir(cwd)
        shutil.rmtree(sandbox, ignore_errors=True)
    return (b.evaluations, b.distinct, b.samples, b.failures, b.contracts)


def permutation_family():
    """Every pair of texts of 2..4 lines over {p, q} x max_permutation_cases 0..4 (complete for that alphabet)."""
    out = []
    for n in (2, 3, 4):
        for A in itertools.product(('p', 'q'), repeat=n):
            for E in itertools.product(('p', 'q'), repeat=n):
                for mpc in (0, 2, 3, 4):
                    out.append((list(A), list(E), mpc))
    return out


def gen_cases(tier, seed):
    rnd = random.Random(seed)
    pool = LINES if tier != 'quick' else LINES[:14]
    max_len = 3
    cases = []
    bases = []
    for n in range(0, max_len + 1):
        for E in itertools.product(pool[:7] if n == 3 else pool, repeat=n):
            bases.append(list(E))
    if tier == 'quick':
        rnd.shuffle(bases)
        bases = bases[:260]
    for A, E, mpc in permutation_family():
        oi = {0: 0, 2: OPTION_SETS.index({'max_permutation_cases': 2}),
              3: OPTION_SETS.index({'max_permutation_cases': 3}),
              4: OPTION_SETS.index({'max_permutation_cases': 4})}[mpc]
        cases.append((A, E, oi))
    for extra in (['a', 'x1', 'b'], ['x1', 'a', 'b'], ['a', 'b', 'x1'], ['id=7 ok', 'a', 'b', 'é'],
                  ['a', 'id=7 ok', 'b'], ['a', 'b', 'a b', 'x1']):
        vs = list(variants(extra, rnd, pool))
        for A in vs:
            for oi in range(len(OPTION_SETS)):
                if 'max_permutation_cases' in OPTION_SETS[oi] or 'ignore_patterns' in OPTION_SETS[oi] \
                        or 'ignore_substrings' in OPTION_SETS[oi] or oi == 0:
                    cases.append((A, extra, oi))
    for E in bases:
        vs = list(variants(E, rnd, pool))
        if tier == 'quick' and len(vs) > 14:
            vs = [vs[0]] + rnd.sample(vs[1:], 13)
        for A in vs:
            ois = range(len(OPTION_SETS)) if tier != 'quick' else \
                [0] + rnd.sample(range(1, len(OPTION_SETS)), 6)
            for oi in ois:
                cases.append((A, E, oi))
    return cases


def run_entry_points(b, tier, seed, props):
    """String / file / list-of-files assertions on generated texts (readers, newlines, unicode)."""
    from tdda.referencetest.referencetest import ReferenceTest
    texts = ['', 'a', 'a\n', 'a\nb', 'a\nb\n', 'a\r\nb\r\n', 'é£\n', ' a \n\tb\n', 'x\n\n', 'id=7 ok\nskip me\n',
             'id=7 ok\n', 'skip this\nid=8 ok\n',      # the same text up to a removable line / an excusable number
             'a\x0cb\n', 'p\u2028q\x85r\x1ds\n']      # line boundaries other than \n: both sides must be split alike
    saved = dict(ReferenceTest.regenerate)
    top = tempfile.mkdtemp(prefix='verif-c04e-')
    cwd = os.getcwd()

    class Failed(Exception):
        pass

    def af(ok, msg=''):
        if not ok:
            raise Failed(msg)
    try:
        refdir, tmpdir, actdir = (os.path.join(top, d) for d in ('ref', 'tmp', 'act'))
        for d in (refdir, tmpdir, actdir):
            os.makedirs(d)
        os.chdir(actdir)
        ReferenceTest.regenerate.clear()
        ReferenceTest.set_defaults(tmp_dir=tmpdir, verbose=False)
        rt = ReferenceTest(af)
        rt.set_data_location(refdir)
        optsets = [{}, {'lstrip': True, 'rstrip': True}, {'ignore_substrings': ['skip']},
                   {'ignore_patterns': [r'\d+']}, {'remove_lines': ['skip']},
                   {'max_permutation_cases': 2}]
        for ref_text in texts:
            refp = os.path.join(refdir, 'r.txt')
            with open(refp, 'w', encoding='utf-8', newline='') as f:
                f.write(ref_text)
            for act_text in texts:
                for o in optsets:
                    A, E = act_text.splitlines(), ref_text.splitlines()
                    must_pass, must_fail, bad = oracle(A, E, o)
                    for entry in ('string', 'file', 'files'):
                        w = {'entry': entry, 'actual': act_text, 'reference': ref_text, 'options': desc_opts(o)}
                        b.case(('entry', entry, act_text, ref_text, repr(desc_opts(o))))
                        for f in os.listdir(tmpdir):
                            os.unlink(os.path.join(tmpdir, f))
                        ap = os.path.join(actdir, 'a.txt')
                        with open(ap, 'w', encoding='utf-8', newline='') as f:
                            f.write(act_text)
                        before = tree_snapshot(top)
                        outcome = 'pass'
                        msg = ''
                        try:
                            with quiet():
                                if entry == 'string':
                                    rt.assertStringCorrect(act_text, 'r.txt', **o)
                                elif entry == 'file':
                                    rt.assertTextFileCorrect(ap, 'r.txt', **o)
                                else:
                                    rt.assertTextFilesCorrect([ap, ap], ['r.txt', 'r.txt'], **o)
                        except Failed as e:
                            outcome, msg = 'fail', str(e)
                        except Exception as e:
                            outcome = 'error %s: %s' % (type(e).__name__, e)
                        b.check('C04.entry.noraise', not outcome.startswith('error'), w, outcome)
                        if outcome.startswith('error'):
                            continue
                        if 'C04' in props:
                            if must_pass:
                                b.check('C04.entry.pass-required', outcome == 'pass', w, msg[:200])
                            if must_fail:
                                b.check('C04.entry.fail-required', outcome == 'fail', w)
                        if 'C15' in props:
                            after = tree_snapshot(top)
                            new = sorted(set(after) - set(before))
                            changed = sorted(p for p in before if after.get(p) != before[p])
                            b.check('C15.nothing-written-outside-tmp_dir',
                                    all(p.startswith(tmpdir + os.sep) for p in new) and not changed, w,
                                    'new %r changed %r' % (new, changed))
                            if outcome == 'pass':
                                b.check('C15.passing-writes-nothing', not new, w, repr(new))
                            else:
                                cmds = CMD.findall(msg)
                                b.check('C15.failure-names-a-comparison-command', bool(cmds), w, msg[:300])
                                for a_path, e_path in cmds:
                                    b.check('C15.named-files-exist',
                                            os.path.exists(a_path) and os.path.exists(e_path), w,
                                            '%s %s' % (a_path, e_path))
                                    if entry == 'string' and os.path.basename(a_path).startswith('actual-raw-'):
                                        with open(a_path, encoding='utf-8', newline='') as f:
                                            got = f.read()
                                        b.check('C15.raw-actual-holds-the-actual-content',
                                                got == act_text, w,
                                                'actual %r, file holds %r' % (act_text, got))
        # binary files
        blobs = [b'', b'\x00', b'abc', b'abd', b'ab', b'abcd', b'\xff\xfe\x00a', b'xbc']
        # a single differing byte at every offset 0..6 of a 7-byte file, and a longer file with a late difference
        base7 = b'0123456'
        blobs += [base7] + [base7[:i] + b'X' + base7[i + 1:] for i in range(7)] + [base7 * 40, base7 * 39 + b'012345Y']
        # one file is the tail (not the head) of the other: the first difference is at offset 0, not at the shorter length
        blobs += [base7[3:], base7[6:], (base7 * 40)[101:]]
        for eb in blobs:
            for ab in blobs:
                refp = os.path.join(refdir, 'r.bin')
                ap = os.path.join(actdir, 'a.bin')
                with open(refp, 'wb') as f:
                    f.write(eb)
                with open(ap, 'wb') as f:
                    f.write(ab)
                for f in os.listdir(tmpdir):
                    os.unlink(os.path.join(tmpdir, f))
                w = {'entry': 'binary', 'actual': repr(ab), 'reference': repr(eb)}
                b.case(('binary', ab, eb))
                before = tree_snapshot(top)
                outcome, msg = 'pass', ''
                try:
                    with quiet():
                        rt.assertBinaryFileCorrect(ap, 'r.bin')
                except Failed as e:
                    outcome, msg = 'fail', str(e)
                except Exception as e:
                    outcome = 'error %s: %s' % (type(e).__name__, e)
                b.check('C15.binary.noraise', not outcome.startswith('error'), w, outcome)
                b.check('C15.binary.verdict', (outcome == 'pass') == (ab == eb), w, outcome)
                after = tree_snapshot(top)
                b.check('C15.nothing-written-outside-tmp_dir',
                        all(p.startswith(tmpdir + os.sep) for p in set(after) - set(before)), w)
                if outcome == 'fail':
                    m = re.search(r'First difference at byte offset (\d+), (.*)\.', msg)
                    b.check('C15.binary.reports-offset', bool(m), w, msg[:300])
                    if m:
                        off = next((i for i, (x, y) in enumerate(zip(ab, eb)) if x != y),
                                   min(len(ab), len(eb)))
                        b.check('C15.binary.offset-exact', int(m.group(1)) == off, w,
                                'reported %s, first difference at %d' % (m.group(1), off))
                        if len(ab) == len(eb):
                            okl = ('both files have length %d' % len(ab)) in m.group(2)
                        else:
                            okl = ('actual length %d, expected length %d' % (len(ab), len(eb))) in m.group(2)
                        b.check('C15.binary.lengths-exact', okl, w, m.group(2))
        if 'C15' in props:
            run_file_pairs(b, rt, Failed, refdir, tmpdir, actdir, top)
    finally:
        os.chdir(cwd)
        ReferenceTest.regenerate.clear()
        ReferenceTest.regenerate.update(saved)
        ReferenceTest.set_defaults(verbose=True)
        shutil.rmtree(top, ignore_errors=True)


POST = re.compile(r'Compare post-processed with:\n\s+\S+ (\S+) (\S+)')
RAW = re.compile(r'Compare (?:raw )?with:\n\s+\S+ (\S+) (\S+)')


def run_file_pairs(b, rt, Failed, refdir, tmpdir, actdir, top):
    """
    Failing file comparisons with an exclusion in force: (a) several differently named actual files against
    references of the same name, in one assertion and in successive ones -- every comparison's post-processed
    pair must differ on that comparison's unexcused lines; (b) actual files that themselves live in tmp_dir under
    the names the library uses for its own artefacts -- the file named as 'actual' must keep the actual content.
    Numbers have equal widths throughout (the unequal-width case is the recorded C04 finding).
    """
    ref_text = 'id=1 same\nL2\nL3\nL4\n'
    acts = {'x.txt': ('id=2 same\nL2x\nL3\nL4\n', 1), 'y.txt': ('id=3 same\nL2y\nL3y\nL4\n', 2),
            'z.txt': ('id=4 same\nL2\nL3z\nL4z\n', 2), 'r.txt': ('id=5 same\nL2r\nL3r\nL4r\n', 3)}
    opts = {'ignore_patterns': [r'\d+']}

    def ndiff(pa, pe):
        with open(pa, encoding='utf-8') as f:
            la = f.read().split('\n')
        with open(pe, encoding='utf-8') as f:
            le = f.read().split('\n')
        return sum(1 for x, y in zip(la[-5:], le[-5:]) if x != y) + abs(len(la) - len(le))

    def judge(w, msg, names, where):
        posts, raws = POST.findall(msg), RAW.findall(msg)
        b.check('C15.post-processed-pair-written', len(posts) == len(names), w, msg[:400])
        if len(posts) != len(names):
            return
        b.check('C15.post-processed-pairs-are-distinct-files',
                len({p for pair in posts for p in pair}) == 2 * len(posts), w, repr(posts))
        for (pa, pe), nm in zip(posts, names):
            if os.path.exists(pa) and os.path.exists(pe):
                want = acts[nm][1]
                got = ndiff(pa, pe)
                b.check('C15.post-processed-pair-differs-exactly-on-unexcused-lines', got == want,
                        dict(w, comparison=nm), 'the pair named for %s differs on %d lines; that comparison has '
                        '%d unexcused differences' % (nm, got, want))
            else:
                b.check('C15.named-files-exist', False, dict(w, comparison=nm), '%s %s' % (pa, pe))
        for (ra, re_), nm in zip(raws, names):
            if os.path.exists(ra):
                with open(ra, encoding='utf-8', newline='') as f:
                    got = f.read()
                b.check('C15.raw-actual-holds-the-actual-content', got == acts[nm][0], dict(w, comparison=nm),
                        'file given as actual (%s) holds %r, actual content %r' % (ra, got, acts[nm][0]))
            else:
                b.check('C15.named-files-exist', False, dict(w, comparison=nm), ra)

    def attempt(w, fn):
        try:
            with quiet():
                fn()
        except Failed as e:
            return str(e)
        except Exception as e:
            b.check('C15.entry.noraise', False, w, '%s: %s' % (type(e).__name__, e))
            return None
        b.check('C15.failing-comparison-fails', False, w, 'passed')
        return None

    # removable lines on one side only (file against file): exclusions are in force, so the post-processed pair is
    # written and differs exactly on the unexcused line
    for side in ('reference', 'actual', 'both'):
        for f in os.listdir(tmpdir):
            os.unlink(os.path.join(tmpdir, f))
        rt_text = 'header\n' + ('# optional r\n' if side in ('reference', 'both') else '') + 'alpha\nbeta\ngamma\n'
        ac_text = 'header\n' + ('# optional a\n' if side in ('actual', 'both') else '') + 'alpha\nBETA\ngamma\n'
        with open(os.path.join(refdir, 'r.txt'), 'w', encoding='utf-8', newline='') as f:
            f.write(rt_text)
        pth = os.path.join(actdir, 'one-sided.txt')
        with open(pth, 'w', encoding='utf-8', newline='') as f:
            f.write(ac_text)
        w = {'case': 'removable line on one side only', 'side': side, 'actual': ac_text, 'reference': rt_text,
             'options': {'remove_lines': ['# optional']}}
        b.case(('file-pairs', 'one-sided-removal', side))
        msg = attempt(w, lambda: rt.assertTextFileCorrect(pth, 'r.txt', remove_lines=['# optional']))
        if msg is not None:
            posts = POST.findall(msg)
            b.check('C15.post-processed-pair-written', len(posts) == 1, w, msg[:400])
            for pa, pe in posts:
                if os.path.exists(pa) and os.path.exists(pe):
                    b.check('C15.post-processed-pair-differs-exactly-on-unexcused-lines', ndiff(pa, pe) == 1, w,
                            'the pair differs on %d lines; one line (beta / BETA) carries an unexcused difference'
                            % ndiff(pa, pe))
                else:
                    b.check('C15.named-files-exist', False, w, '%s %s' % (pa, pe))
    for where in ('actdir', 'tmpdir-own-names'):
        for grouping in ('one-assertion', 'successive'):
            for names in (['x.txt', 'y.txt'], ['y.txt', 'x.txt', 'z.txt'], ['r.txt', 'z.txt'], ['z.txt']):
                for f in os.listdir(tmpdir):
                    os.unlink(os.path.join(tmpdir, f))
                with open(os.path.join(refdir, 'r.txt'), 'w', encoding='utf-8', newline='') as f:
                    f.write(ref_text)
                paths = []
                for nm in names:
                    # 'tmpdir-own-names': the outputs are produced in tmp_dir, named like the library's artefacts
                    pth = os.path.join(actdir, nm) if where == 'actdir' else \
                        os.path.join(tmpdir, ('actual-r.txt' if nm == names[0] else 'actual-' + nm))
                    with open(pth, 'w', encoding='utf-8', newline='') as f:
                        f.write(acts[nm][0])
                    paths.append(pth)
                w = {'case': 'file pairs', 'where': where, 'grouping': grouping, 'actual files': paths,
                     'reference': 'r.txt for each', 'options': desc_opts(opts)}
                b.case(('file-pairs', where, grouping, tuple(names)))
                if grouping == 'one-assertion':
                    msg = attempt(w, lambda: rt.assertTextFilesCorrect(paths, ['r.txt'] * len(paths), **opts))
                    if msg is not None:
                        judge(w, msg, names, where)
                else:
                    msgs = []
                    for pth in paths:
                        m1 = attempt(w, lambda: rt.assertTextFileCorrect(pth, 'r.txt', **opts))
                        if m1 is None:
                            break
                        msgs.append(m1)
                    else:
                        judge(w, '\n'.join(msgs), names, where)


def run(props, tier, seed):
    cases = gen_cases(tier, seed)
    total = Bounded(
        'reference texts of <= 3 lines over a %d-line pool x near-miss actuals (one line changed / dropped / '
        'inserted, two swapped, rotated, identical) x option sets from a list of %d (lstrip, rstrip, '
        'ignore_substrings, ignore_patterns, remove_lines, preprocess, max_permutation_cases and '
        'combinations); entry points string/file/list-of-files on 10 texts incl. CR/LF, unicode, missing '
        'final newline; 8x8 byte strings; distinct by (actual, expected, options)'
        % (len(LINES), len(OPTION_SETS)),
        'texts <= 3 lines; %d cases this run' % len(cases))
    n = max(1, len(cases) // 48)
    jobs = [(cases[i:i + n], tuple(props), seed) for i in range(0, len(cases), n)]
    ctx = multiprocessing.get_context('fork')
    with ctx.Pool(16) as pool:
        for ev, dist, samples, failures, contracts in pool.imap_unordered(_work, jobs, chunksize=1):
            total.evaluations += ev
            total.distinct |= dist
            total.samples.extend(samples[:1])
            total.failures.extend(failures)
            for k2, v in contracts.items():
                total.contracts[k2] = total.contracts.get(k2, 0) + v
    total.samples = total.samples[:6]
    run_entry_points(total, tier, seed, props)
    return total
