"""
Bounded layer for C05: DataFrame comparison on generated frame pairs (runtime
contracts on the real checkpandas / referencetest code), plus the exhaustive
type-matching laws.
"""
import datetime
import io
import itertools
import os
import random
import shutil
import sys
import tempfile
import contextlib

from bounded.core import Bounded


@contextlib.contextmanager
def quiet():
    so, se = sys.stdout, sys.stderr
    sys.stdout = sys.stderr = io.StringIO()
    try:
        yield
    finally:
        sys.stdout, sys.stderr = so, se


def dtype_names():
    import numpy as np
    import pandas as pd
    names = set()
    for t in ('int8', 'int16', 'int32', 'int64', 'uint8', 'uint16', 'uint32', 'uint64', 'float16', 'float32',
              'float64', 'bool', 'object', 'datetime64[ns]', 'datetime64[us]', 'datetime64[ms]', 'datetime64[s]',
              'timedelta64[ns]', 'complex128'):
        names.add(np.dtype(t).name)
    for t in ('Int8', 'Int16', 'Int32', 'Int64', 'UInt8', 'UInt16', 'UInt32', 'UInt64', 'Float32', 'Float64',
              'boolean', 'string', 'category'):
        names.add(pd.api.types.pandas_dtype(t).name)
    names.add(pd.Series(['a']).dtype.name)
    names.add(pd.Series(pd.to_datetime(['2020-01-01'], utc=True)).dtype.name)
    return sorted(names)


class _DT(object):
    def __init__(self, name):
        self.name = name


def type_laws():
    """types_match over every pair of dtype names x 3 levels: laws from the property."""
    from tdda.referencetest.checkpandas import types_match
    names = dtype_names()
    bad = []
    n = 0
    for a, c in itertools.product(names, repeat=2):
        r = {}
        for level in (None, 'strict', 'medium', 'permissive'):
            n += 1
            r[level] = bool(types_match(_DT(a), _DT(c), level))
            if r[level] != bool(types_match(_DT(c), _DT(a), level)):
                bad.append({'law': 'symmetric', 'types': [a, c], 'level': level})
        if r['strict'] != (a == c) or r[None] != (a == c):
            bad.append({'law': 'strict-iff-names-equal', 'types': [a, c]})
        if r['strict'] and not r['medium'] or r['medium'] and not r['permissive']:
            bad.append({'law': 'strict<=medium<=permissive', 'types': [a, c]})
        if a == c and not all(r.values()):
            bad.append({'law': 'reflexive', 'types': [a, c]})
        # what the levels mean (the families the library's own documentation / test suite names): medium accepts the same
        # family at another width or unit, and object against string / boolean / datetime; permissive also any two of
        # int / float / bool.  Families are decided here by pandas' own dtype predicates, not by the library.
        fa, fc = family(a), family(c)
        if fa and fc and a != c:
            medium = fa == fc or (fa == 'object' and fc in ('string', 'bool', 'datetime')) \
                or (fc == 'object' and fa in ('string', 'bool', 'datetime'))
            permissive = medium or (fa in ('int', 'float', 'bool') and fc in ('int', 'float', 'bool'))
            if r['medium'] != medium:
                bad.append({'law': 'medium-level-families', 'types': [a, c], 'families': [fa, fc], 'got': r['medium']})
            if r['permissive'] != permissive:
                bad.append({'law': 'permissive-level-families', 'types': [a, c], 'families': [fa, fc], 'got': r['permissive']})
    return n, bad


def family(name):
    import pandas as pd
    from pandas.api import types as pt
    if name == 'str':
        return None          # pandas 3's default string dtype: not among the documented families (see known findings)
    try:
        dt = pd.api.types.pandas_dtype(name)
    except Exception:
        return None
    if pt.is_bool_dtype(dt):
        return 'bool'
    if pt.is_unsigned_integer_dtype(dt):
        return None          # unsigned widths are not among the documented families
    if pt.is_integer_dtype(dt):
        return 'int'
    if pt.is_float_dtype(dt):
        return 'float'
    if pt.is_datetime64_any_dtype(dt):
        return 'datetime'
    if name == 'string' or isinstance(dt, pd.StringDtype):
        return 'string'
    if name == 'object':
        return 'object'
    return None


def columns():
    import pandas as pd
    import numpy as np
    D = datetime.datetime
    return {
        'int64': pd.Series([1, 2, 3], dtype='int64'),
        'float64': pd.Series([0.5, 1.25, np.nan], dtype='float64'),
        'bool': pd.Series([True, False, True], dtype='bool'),
        'object-str': pd.Series(['a', 'b', None], dtype=object),
        'str': pd.Series(['a', 'b', None]),
        'string': pd.Series(['a', 'b', None], dtype='string'),
        'category': pd.Series(pd.Categorical(['a', 'b', 'a'])),
        'datetime': pd.Series(pd.to_datetime([D(2020, 1, 1), D(2021, 1, 1), None])),
        'Int64': pd.Series([1, None, 3], dtype='Int64'),
        'boolean': pd.Series([True, None, False], dtype='boolean'),
        'Float64': pd.Series([0.5, None, 2.0], dtype='Float64'),
    }


CHANGES = {
    'int64': 7, 'float64': 9.75, 'bool': None, 'object-str': 'zz', 'str': 'zz', 'string': 'zz',
    'category': 'b', 'datetime': datetime.datetime(1999, 1, 1), 'Int64': 9, 'boolean': None, 'Float64': 7.5,
}


def run(props, tier, seed):
    import pandas as pd
    import numpy as np
    from tdda.referencetest.checkpandas import PandasComparison
    from tdda.referencetest.referencetest import ReferenceTest
    rnd = random.Random(seed)
    b = Bounded('frame pairs over 11 column types (numeric, bool, object/str/string/categorical text, datetime, nullable '
                'extension types) with nulls: identical copy; one changed cell per column type; a cell changed by less / more '
                'than the precision; renamed, retyped, moved, missing, extra column; changed row count; x check_data / '
                'check_types / check_order / check_extra_cols as None / False / list / function x precision x type_matching '
                'x sortby / condition; entry points check_dataframe, assertDataFramesEqual, parquet and CSV files',
                '3-row frames; see bounded/pandas_bounded.py for the enumerated perturbations')
    top = tempfile.mkdtemp(prefix='verif-c05-')

    class Failed(Exception):
        pass

    def af(ok, msg=''):
        if not ok:
            raise Failed(msg)
    saved = dict(ReferenceTest.regenerate)
    try:
        pc = PandasComparison(print_fn=None, verbose=False, tmp_dir=top)
        ReferenceTest.regenerate.clear()
        ReferenceTest.set_defaults(tmp_dir=top, verbose=False)
        rt = ReferenceTest(af)
        cols = columns()

        def verdict(df, ref, w, **kw):
            with quiet():
                ok, r = b.guarded('C05.check_dataframe.noraise',
                                  lambda: pc.check_dataframe(df.copy(), ref.copy(), create_temporaries=False, **kw), w)
            if not ok:
                return None
            # the assertion wrapper must fail with an assertion failure carrying a description
            try:
                with quiet():
                    rt.assertDataFramesEqual(df.copy(), ref.copy(), **kw)
                a = 'pass'
            except Failed as e:
                a = 'fail' if str(e).strip() else 'fail-empty-message'
            except Exception as e:
                a = 'error %s: %s' % (type(e).__name__, e)
            b.check('C05.assertion-agrees-with-check', (a == 'pass') == (r.failures == 0) and not a.startswith('error')
                    and a != 'fail-empty-message', w, 'check_dataframe failures=%r, assertion %s' % (r.failures, a))
            return r.failures == 0

        # single-column frames: copy passes, changed cell fails
        for name, ser in cols.items():
            ref = pd.DataFrame({'k': [1, 2, 3], 'c': ser})
            w = {'column': name}
            b.case(('copy', name))
            v = verdict(ref.copy(), ref, dict(w, case='copy'))
            if v is not None:
                b.check('C05.copy-passes', v, dict(w, case='copy'))
            for level in ('strict', 'medium', 'permissive'):
                b.case(('copy', name, level))
                v = verdict(ref.copy(), ref, dict(w, case='copy', type_matching=level), type_matching=level)
                if v is not None:
                    b.check('C05.copy-passes', v, dict(w, case='copy', type_matching=level))
            # one changed value
            for row in (0, 2):
                d2 = ref.copy()
                new = CHANGES[name]
                try:
                    if name == 'bool':
                        d2.loc[row, 'c'] = not bool(d2.loc[row, 'c'])
                    elif name == 'boolean':
                        d2.loc[row, 'c'] = True if d2.loc[row, 'c'] is pd.NA or not d2.loc[row, 'c'] else False
                    else:
                        d2.loc[row, 'c'] = new
                except Exception:
                    continue
                if str(d2['c'].dtype) != str(ref['c'].dtype):
                    continue
                b.case(('changed', name, row))
                v = verdict(d2, ref, dict(w, case='changed-cell', row=row))
                if v is not None:
                    b.check('C05.changed-value-fails', not v, dict(w, case='changed-cell', row=row))
                # the change is invisible when the column is not selected for data checks
                v = verdict(d2, ref, dict(w, case='changed-cell-unchecked', row=row), check_data=['k'])
                if v is not None:
                    b.check('C05.unselected-column-ignored', v, dict(w, case='changed-cell-unchecked', row=row))
            # null vs value
            d2 = ref.copy()
            try:
                d2.loc[1, 'c'] = None
                if str(d2['c'].dtype) == str(ref['c'].dtype):
                    same = bool(pd.isnull(ref.loc[1, 'c']))
                    b.case(('null', name))
                    v = verdict(d2, ref, dict(w, case='null-at-row-1'))
                    if v is not None:
                        b.check('C05.null-equals-only-null', v == same, dict(w, case='null-at-row-1'),
                                'reference cell null=%r verdict pass=%r' % (same, v))
            except Exception:
                pass
        # precision
        ref = pd.DataFrame({'x': [1.0, 2.0, 3.0]})
        for prec in (0, 2, 6, 10):
            for delta, should_pass in ((10 ** -(prec + 2), True), (2 * 10 ** -prec, False)):
                if prec == 10 and should_pass and delta < 1e-12:
                    pass
                d2 = ref.copy()
                d2.loc[1, 'x'] = 2.0 + delta
                w = {'case': 'precision', 'precision': prec, 'delta': delta}
                b.case(('precision', prec, delta))
                v = verdict(d2, ref, w, precision=prec)
                if v is not None:
                    b.check('C05.precision', v == should_pass, w, 'pass=%r expected %r' % (v, should_pass))
        # structure
        base = pd.DataFrame({'a': [1, 2, 3], 'b': [0.5, 1.5, 2.5], 'c': pd.Series(['x', 'y', 'z'], dtype=object)})
        perturb = {
            'renamed': base.rename(columns={'b': 'B'}),
            'retyped': base.assign(a=base['a'].astype('float64')),
            'moved': base[['b', 'a', 'c']],
            'missing': base[['a', 'c']],
            'extra': base.assign(z=[1, 1, 1]),
            'fewer-rows': base.iloc[:2],
            'more-rows': pd.concat([base, base.iloc[:1]], ignore_index=True),
        }
        for pname, d2 in perturb.items():
            w = {'case': pname}
            b.case(('structure', pname))
            v = verdict(d2, base, w)
            if v is not None:
                if pname == 'extra':
                    # extra columns are only an error when check_extra_cols selects them
                    with quiet():
                        r2 = pc.check_dataframe(d2.copy(), base.copy(), create_temporaries=False,
                                                check_extra_cols=None)
                    b.check('C05.structure-change-fails', r2.failures != 0, w)
                else:
                    b.check('C05.structure-change-fails', not v, w)
        # option flags: None / False / list / function agree on their meaning
        d2 = base.assign(b=[9.5, 1.5, 2.5])
        for flag, expect in ((None, False), (False, True), (['a', 'c'], True), (['b'], False),
                             (lambda df: ['a'], True), (lambda df: list(df), False)):
            w = {'case': 'check_data flag', 'flag': repr(flag) if not callable(flag) else 'function'}
            b.case(('flag', w['flag'], expect))
            v = verdict(d2, base, w, check_data=flag)
            if v is not None:
                b.check('C05.check_data-flag', v == expect, w, 'pass=%r expected %r' % (v, expect))
        moved = base[['b', 'a', 'c']]
        for flag, expect in ((None, False), (False, True), (['a', 'c'], True), (['a', 'b'], False)):
            w = {'case': 'check_order flag', 'flag': repr(flag)}
            b.case(('order-flag', repr(flag)))
            v = verdict(moved, base, w, check_order=flag)
            if v is not None:
                b.check('C05.check_order-flag', v == expect, w, 'pass=%r expected %r' % (v, expect))
        # the order of the names inside the option is irrelevant: only the frames' own orders are compared
        swapped = base[['c', 'b', 'a']]
        for flag in (['c', 'a'], ['c', 'b', 'a'], ['a', 'c'], (lambda df: list(df)[::-1]), (lambda df: ['c', 'a'])):
            fl = repr(flag) if not callable(flag) else 'function'
            for frame, fname, expect in ((base.copy(), 'identical', True), (swapped, 'a and c swapped', False)):
                w = {'case': 'check_order names in another order than the frame', 'flag': fl, 'frame': fname}
                b.case(('order-flag-order', fl, fname))
                v = verdict(frame, base, w, check_order=flag)
                if v is not None:
                    b.check('C05.check_order-flag', v == expect, w, 'pass=%r expected %r' % (v, expect))
        retyped = base.assign(a=base['a'].astype('float64'))
        for flag, level, expect in ((None, None, False), (False, None, True), (['b', 'c'], None, True),
                                    (None, 'permissive', True), (None, 'medium', False)):
            w = {'case': 'check_types flag', 'flag': repr(flag), 'type_matching': level}
            b.case(('types-flag', repr(flag), level))
            v = verdict(retyped, base, w, check_types=flag, type_matching=level)
            if v is not None:
                b.check('C05.check_types-flag', v == expect, w, 'pass=%r expected %r' % (v, expect))
        # sortby / condition
        shuffled = base.iloc[[2, 0, 1]].reset_index(drop=True)
        for kw, expect in (({}, False), ({'sortby': ['a']}, True), ({'condition': lambda df: df['a'] > 5}, True)):
            w = {'case': 'sortby/condition', 'options': sorted(kw)}
            b.case(('sort', tuple(sorted(kw))))
            v = verdict(shuffled, base, w, **kw)
            if v is not None:
                b.check('C05.sortby-condition', v == expect, w, 'pass=%r expected %r' % (v, expect))
        # a column dropped or renamed while the type check does not cover it: a described failure, not an internal error
        for kw in ({'check_types': False}, {'check_types': ['a']}, {'check_types': False, 'check_order': False},
                   {'check_types': ['a'], 'check_data': ['a', 'b']}):
            for how, frame in (('dropped', base[[c for c in base if c != 'b']]),
                               ('renamed', base.rename(columns={'b': 'b_renamed'}))):
                w = {'case': 'column %s, type check not covering it' % how, 'options': {k: repr(v) for k, v in kw.items()}}
                b.case(('structure-untyped', how, repr(sorted(kw.items()))))
                v = verdict(frame, base, w, **kw)
                if v is not None:
                    b.check('C05.column-change-fails', v is False, w, 'passed')
        # both frames out of key order, each in its own order: sortby must bring both into the same order
        shuffled2 = base.iloc[[1, 2, 0]].reset_index(drop=True)
        for kw, expect in (({}, False), ({'sortby': ['a']}, True)):
            w = {'case': 'sortby, both frames unsorted', 'options': sorted(kw)}
            b.case(('sort-both', tuple(sorted(kw))))
            v = verdict(shuffled.copy(), shuffled2.copy(), w, **kw)
            if v is not None:
                b.check('C05.sortby-condition', v == expect, w, 'pass=%r expected %r' % (v, expect))
        # files
        for ext in ('parquet', 'csv', 'csv-dates'):
            refp = os.path.join(top, 'ref.' + ext.split('-')[0])
            fbase = pd.DataFrame({'a': [1, 2, 3], 'b': [0.5, 1.5, 2.5]})
            if ext == 'csv-dates':
                # a reference CSV with string and boolean columns, loaded with the default CSV loader (date columns
                # are not tried: a CSV carries no types, so they need the caller's own loader arguments)
                fbase = pd.DataFrame({'a': [1, 2, 3], 's': ['x', 'y z', 'é'], 't': [True, False, True]})
                ext = 'csv'
            (fbase.to_parquet(refp) if ext == 'parquet' else fbase.to_csv(refp, index=False))
            if 'b' in fbase:
                variants = [(fbase.copy(), 'pass'), (fbase.assign(b=[0.5, 9.0, 2.5]), 'fail')]
            else:
                variants = [(fbase.copy(), 'pass'), (fbase.assign(s=['x', 'y  z', 'é']), 'fail'),
                            (fbase.assign(t=[True, True, True]), 'fail')]
            for d2, expect in variants:
                w = {'case': 'file', 'format': ext, 'columns': list(fbase), 'expect': expect}
                b.case(('file', ext, tuple(fbase), expect, repr(d2.iloc[1].tolist())))
                try:
                    with quiet():
                        rt.assertDataFrameCorrect(d2, refp)
                    a = 'pass'
                except Failed:
                    a = 'fail'
                except Exception as e:
                    a = 'error %s: %s' % (type(e).__name__, e)
                b.check('C05.file-entry-point', a == expect, w, a)
                # both frames on disk: the single-file and the several-files assertions
                actp = os.path.join(top, 'actual-on-disk.' + ext)
                (d2.to_parquet(actp) if ext == 'parquet' else d2.to_csv(actp, index=False))
                for entry, call in (('assertOnDiskDataFrameCorrect', lambda: rt.assertOnDiskDataFrameCorrect(actp, refp)),
                                    ('assertOnDiskDataFramesCorrect',
                                     lambda: rt.assertOnDiskDataFramesCorrect([actp, actp], [refp, refp]))):
                    w3 = dict(w, entry=entry)
                    b.case(('file-on-disk', entry, ext, tuple(fbase), expect, repr(d2.iloc[1].tolist())))
                    try:
                        with quiet():
                            call()
                        a = 'pass'
                    except Failed:
                        a = 'fail'
                    except Exception as e:
                        a = 'error %s: %s' % (type(e).__name__, e)
                    b.check('C05.file-entry-point', a == expect, w3, a)
    finally:
        ReferenceTest.regenerate.clear()
        ReferenceTest.regenerate.update(saved)
        ReferenceTest.set_defaults(verbose=True)
        shutil.rmtree(top, ignore_errors=True)
    return b
