"""
Bounded layer for C17: the tdda command line (in-process main_with_argv, plus a
small subprocess sample) against the library on generated CSV / parquet files.
"""
import datetime
import io
import json
import os
import random
import shutil
import subprocess
import sys
import tempfile
import contextlib

from bounded.core import Bounded


def run_cli(argv, stdin_text=None):
    """Run tdda's console entry point in-process; returns (exit code or None, stdout, stderr)."""
    from tdda.constraints.console import main_with_argv
    so, se, si = sys.stdout, sys.stderr, sys.stdin
    out, err = io.StringIO(), io.StringIO()
    sys.stdout, sys.stderr = out, err
    if stdin_text is not None:
        sys.stdin = io.StringIO(stdin_text)
    code = None
    exc = None
    try:
        try:
            main_with_argv(['tdda'] + argv, verbose=True)
        except SystemExit as e:
            code = e.code if e.code is not None else 0
        except Exception as e:
            exc = '%s: %s' % (type(e).__name__, e)
    finally:
        sys.stdout, sys.stderr, sys.stdin = so, se, si
    return code, out.getvalue(), err.getvalue(), exc


def tables(rnd):
    import pandas as pd
    import numpy as np
    D = datetime.datetime
    yield 'nums', pd.DataFrame({'i': [1, 2, 3, 4], 'x': [0.5, -1.25, 3.0, 8.5]})
    yield 'nulls', pd.DataFrame({'i': [1, 2, 3, 4], 'x': [0.5, None, 3.0, None]})
    yield 'dates', pd.DataFrame({'i': [1, 2], 'd': pd.to_datetime([D(2020, 1, 1), D(2021, 6, 15, 12, 30)])})
    yield 'strs', pd.DataFrame({'i': [1, 2, 3], 's': pd.Series(['a', 'bb', 'é£'], dtype=object)})
    yield 'neg', pd.DataFrame({'x': [-1.5, -2.5, -0.25], 'z': [0, 0, 0]})
    n = rnd.randint(3, 8)
    yield 'rand', pd.DataFrame({'i': [rnd.randint(-5, 50) for _ in range(n)],
                                'x': [rnd.choice([0.5, 1.25, -3.0, 100.0]) for _ in range(n)]})


def fields_of(text_or_dict):
    d = json.loads(text_or_dict) if isinstance(text_or_dict, str) else text_or_dict
    return d.get('fields')


def run(props, tier, seed):
    import pandas as pd
    from tdda.constraints import discover_df, verify_df, detect_df
    from tdda.constraints.pd.constraints import load_df
    rnd = random.Random(seed)
    b = Bounded('6 tables (ints, floats with nulls, datetimes, unicode strings, negatives, seeded random) written as CSV and '
                'parquet x discover (plain, --rex) / verify (plain, --fields, -7, -t strict, --epsilon) / detect (plain, '
                '--write-all, --per-constraint, --no-per-constraint, --output-fields, --index, --int) run in-process and '
                'compared with the library on load_df(file); error invocations (missing input, missing constraints, '
                'unknown flag, contradictory flags) must exit non-zero and leave no output; 3 subprocess runs',
                '6 tables x 2 formats x ~20 invocations')
    top = tempfile.mkdtemp(prefix='verif-c17-')
    cwd = os.getcwd()
    try:
        os.chdir(top)
        case_done = set()
        for name, df in tables(rnd):
            for fmt in ('csv', 'parquet'):
                path = os.path.join(top, '%s.%s' % (name, fmt))
                if fmt == 'csv':
                    df.to_csv(path, index=False)
                else:
                    df.to_parquet(path)
                w0 = {'table': name, 'format': fmt}
                try:
                    lib_df = load_df(path)
                except Exception as e:
                    b.check('C17.load_df.noraise', False, w0, repr(e)[:200])
                    continue
                # ---------------- discover ----------------
                for extra, kw in (([], {}), (['--rex'], {'inc_rex': True})):
                    tdda = os.path.join(top, '%s_%s%s.tdda' % (name, fmt, '_r' if extra else ''))
                    argv = ['discover'] + extra + [path, tdda]
                    w = dict(w0, argv=argv)
                    b.case(('cli', name, fmt, tuple(argv[:-2])))
                    code, out, err, exc = run_cli(argv)
                    b.check('C17.discover.noraise', exc is None and code in (None, 0), w, '%r %r %s' % (code, exc, err[-300:]))
                    if exc is not None or code not in (None, 0):
                        continue
                    b.check('C17.discover.writes-constraints-file', os.path.exists(tdda), w)
                    if not os.path.exists(tdda):
                        continue
                    with open(tdda) as f:
                        cli_fields = fields_of(f.read())
                    try:
                        lib = discover_df(load_df(path), **kw)
                        lib_fields = fields_of(lib.to_dict()) if lib is not None else None
                        lib_fields = json.loads(json.dumps(lib_fields, default=str))
                    except Exception as e:
                        b.check('C17.library.discover.noraise', False, w, repr(e)[:200])
                        continue
                    b.check('C17.discover.same-constraints-as-library', cli_fields == lib_fields, w,
                            'cli %r, library %r' % (cli_fields, lib_fields))
                    # discovered constraints verify against the same file with no failures
                    code, out, err, exc = run_cli(['verify', path, tdda])
                    v = verify_df(load_df(path), tdda)
                    b.check('C17.verify.discovered-constraints-hold', exc is None and v.failures == 0, w,
                            'failures=%d %r' % (v.failures, exc))
                base_tdda = os.path.join(top, '%s_%s.tdda' % (name, fmt))
                if not os.path.exists(base_tdda):
                    continue
                # a constraint set with failures: tighten numeric bounds
                cons = json.load(open(base_tdda))
                for fname, fc in cons['fields'].items():
                    if isinstance(fc.get('max'), (int, float)) and not isinstance(fc.get('max'), bool):
                        fc['max'] = fc['max'] - 1
                    if 'max_nulls' in fc:
                        fc['max_nulls'] = 0
                tight = os.path.join(top, '%s_%s_tight.tdda' % (name, fmt))
                json.dump(cons, open(tight, 'w'))
                # ---------------- verify ----------------
                for extra, kw in (([], {}), (['--fields'], {}), (['-7'], {}), (['-t', 'strict'], {'type_checking': 'strict'}),
                                  (['--epsilon', '0.5'], {'epsilon': 0.5})):
                    for cpath in (base_tdda, tight):
                        argv = ['verify'] + extra + [path, cpath]
                        w = dict(w0, argv=argv)
                        b.case(('cli', name, fmt, tuple(extra), os.path.basename(cpath)))
                        code, out, err, exc = run_cli(argv)
                        try:
                            v = verify_df(load_df(path), cpath, **kw)
                        except Exception as e:
                            b.check('C17.library.verify.noraise', False, w, repr(e)[:200])
                            continue
                        b.check('C17.verify.noraise', exc is None, w, '%r %s' % (exc, err[-300:]))
                        if exc is None:
                            okc = ('Constraints passing: %d' % v.passes) in out and ('Constraints failing: %d' % v.failures) in out
                            b.check('C17.verify.same-counts-as-library', okc, w,
                                    'library passes=%d failures=%d; cli output %r' % (v.passes, v.failures, out[-200:]))
                # ---------------- the same file under an upper-case / mixed-case extension ----------------
                for variant in ((fmt.upper(), fmt.capitalize()) if fmt not in case_done else ()):
                    vpath = os.path.join(top, '%s_case.%s' % (name, variant))
                    shutil.copy(path, vpath)
                    vout = os.path.join(top, '%s_case_%s.tdda' % (name, variant))
                    argv = ['discover', vpath, vout]
                    w = dict(w0, argv=argv)
                    b.case(('cli-extension-case', name, variant))
                    code, out, err, exc = run_cli(argv)
                    b.check('C17.discover.noraise', exc is None and code in (None, 0), w, '%r %r %s' % (code, exc, err[-300:]))
                    if exc is None and os.path.exists(vout):
                        with open(vout) as f:
                            got = fields_of(f.read())
                        lib = discover_df(load_df(path))
                        want = json.loads(json.dumps(fields_of(lib.to_dict()), default=str))
                        b.check('C17.discover.same-constraints-as-library', got == want, w,
                                'cli (file named %s) %r, library %r' % (os.path.basename(vpath), got, want))
                    elif exc is None:
                        b.check('C17.discover.writes-constraints-file', False, w)
                case_done.add(fmt)
                # ---------------- standard input as the data ('-') ----------------
                if fmt == 'csv':
                    with open(path, encoding='utf-8') as fh:
                        text = fh.read()
                    sout = os.path.join(top, '%s_stdin.tdda' % name)
                    if os.path.exists(sout):
                        os.unlink(sout)
                    for argv in (['discover', '-', sout], ['discover', '-', '-']):
                        w = dict(w0, argv=argv, stdin='the CSV text')
                        b.case(('cli-stdin', name, tuple(argv)))
                        code, out, err, exc = run_cli(argv, stdin_text=text)
                        b.check('C17.discover.noraise', exc is None and code in (None, 0), w, '%r %r %s' % (code, exc, err[-300:]))
                        if exc is not None:
                            continue
                        produced = out if argv[-1] == '-' else (open(sout).read() if os.path.exists(sout) else '')
                        try:
                            got = fields_of(produced[produced.index('{'):]) if '{' in produced else None
                        except Exception:
                            got = None
                        try:
                            lib = discover_df(load_df(path))
                            want = json.loads(json.dumps(fields_of(lib.to_dict()), default=str))
                        except Exception as e:
                            b.check('C17.library.discover.noraise', False, w, repr(e)[:200])
                            continue
                        b.check('C17.discover.same-constraints-as-library', got == want, w,
                                'cli (data on stdin) %r, library %r' % (got, want))
                    for cpath in (base_tdda, tight):
                        argv = ['verify', '-', cpath]
                        w = dict(w0, argv=argv, stdin='the CSV text')
                        b.case(('cli-stdin', name, 'verify', os.path.basename(cpath)))
                        code, out, err, exc = run_cli(argv, stdin_text=text)
                        try:
                            v = verify_df(load_df(path), cpath)
                        except Exception as e:
                            continue
                        b.check('C17.verify.noraise', exc is None, w, '%r %s' % (exc, err[-300:]))
                        if exc is None:
                            okc = ('Constraints passing: %d' % v.passes) in out and ('Constraints failing: %d' % v.failures) in out
                            b.check('C17.verify.same-counts-as-library', okc, w,
                                    'library passes=%d failures=%d; cli (data on stdin) output %r' % (v.passes, v.failures, out[-200:]))
                # ---------------- detect ----------------
                for extra, kw in (([], {}), (['--write-all'], {'write_all': True}),
                                  (['--per-constraint'], {}), (['--no-per-constraint'], {'per_constraint': False}),
                                  (['--output-fields'], {}), (['--index'], {'index': True}), (['--int'], {'boolean_ints': True})):
                    outp = os.path.join(top, 'det.csv')
                    libp = os.path.join(top, 'det_lib.csv')
                    for p in (outp, libp):
                        if os.path.exists(p):
                            os.unlink(p)
                    argv = ['detect', path, tight, outp] + extra      # nargs='*' options go last
                    w = dict(w0, argv=argv)
                    b.case(('cli', name, fmt, 'detect', tuple(extra)))
                    code, out, err, exc = run_cli(argv)
                    b.check('C17.detect.noraise', exc is None, w, '%r %s' % (exc, err[-300:]))
                    lkw = dict(per_constraint=True, output_fields=[], in_place=False, report='records',
                               rownumber_is_index=False)
                    lkw.update(kw)
                    if extra == ['--output-fields']:
                        lkw['output_fields'] = []
                    try:
                        lv = detect_df(load_df(path), tight, outpath=libp, **lkw)
                    except Exception as e:
                        b.check('C17.library.detect.noraise', False, w, repr(e)[:200])
                        continue
                    if exc is None:
                        b.check('C17.detect.output-file-iff-library', os.path.exists(outp) == os.path.exists(libp), w)
                        if os.path.exists(outp) and os.path.exists(libp):
                            a, l = open(outp).read(), open(libp).read()
                            b.check('C17.detect.same-output-as-library', a == l, w, 'cli %r library %r' % (a[:200], l[:200]))
                        if os.path.exists(outp) and extra == ['--index']:
                            # independent of the writer: the row numbers in the file are the (1-based) positions, in the
                            # input file, of the records the library's in-memory detection reports as failing
                            try:
                                mem = detect_df(load_df(path), tight, per_constraint=True, output_fields=[], report='records')
                                det = mem.detected()
                                want = [int(i) + 1 for i in det.index] if det is not None else []
                                got = pd.read_csv(outp)
                                rn = [c for c in got.columns if c in ('RowNumber', 'Index')]
                                have = [int(x) for x in got[rn[0]]] if rn else None
                                b.check('C17.detect.same-output-as-library', have == want, w,
                                        'row numbers written %r; failing records are at rows %r of the input' % (have, want))
                            except Exception as e:
                                b.check('C17.library.detect.noraise', False, w, repr(e)[:200])
                # ---------------- detect to standard output ('-' as the output file, as documented) ----------------
                argv = ['detect', path, tight, '-']
                w = dict(w0, argv=argv)
                b.case(('cli', name, fmt, 'detect-to-stdout'))
                libp = os.path.join(top, 'det_lib.csv')
                if os.path.exists(libp):
                    os.unlink(libp)
                code, out, err, exc = run_cli(argv)
                b.check('C17.detect.noraise', exc is None, w, '%r %s' % (exc, err[-300:]))
                try:
                    detect_df(load_df(path), tight, outpath=libp, per_constraint=True, output_fields=[], in_place=False,
                              report='records', rownumber_is_index=False)
                    lib_text = open(libp).read() if os.path.exists(libp) else None
                except Exception as e:
                    b.check('C17.library.detect.noraise', False, w, repr(e)[:200])
                    lib_text = None
                if exc is None and lib_text is not None:
                    b.check('C17.detect.same-output-as-library', lib_text.strip() in out.replace('\r\n', '\n'), w,
                            'stdout %r, library file %r' % (out[-300:], lib_text[:200]))
        # ---------------- a CSV file with its metadata file next to it ----------------
        import json as _json
        mdcsv = os.path.join(top, 'withmd.csv')
        pd.DataFrame({'k': [1, 2, 3], 'v': [0.5, 1.5, 2.5]}).to_csv(mdcsv, index=False)
        plain = os.path.join(top, 'plainmd.csv')
        shutil.copy(mdcsv, plain)
        with open(os.path.join(top, 'withmd.csv-metadata.json'), 'w') as fh:
            _json.dump({'@context': 'http://www.w3.org/ns/csvw', 'url': 'withmd.csv',
                        'tableSchema': {'columns': [{'name': 'k', 'datatype': 'integer'},
                                                    {'name': 'v', 'datatype': 'number'}]}}, fh)
        mdt, plt = os.path.join(top, 'withmd.tdda'), os.path.join(top, 'plainmd.tdda')
        w = {'case': 'CSV file with withmd.csv-metadata.json (CSVW, same types as the plain reader infers) next to it'}
        b.case(('cli', 'associated-metadata'))
        code, out, err, exc = run_cli(['discover', mdcsv, mdt])
        b.check('C17.discover.noraise', exc is None and code in (None, 0), w, '%r %r %s' % (code, exc, err[-300:]))
        code2, _, _, exc2 = run_cli(['discover', plain, plt])
        if exc is None and exc2 is None and os.path.exists(mdt) and os.path.exists(plt):
            b.check('C17.discover.same-constraints-as-library', fields_of(open(mdt).read()) == fields_of(open(plt).read()), w,
                    'with the metadata file %r, without %r' % (fields_of(open(mdt).read()), fields_of(open(plt).read())))
        # ---------------- error invocations ----------------
        good = os.path.join(top, 'nums.csv')
        good_tdda = os.path.join(top, 'nums_csv.tdda')
        for argv, leaves in (
                (['discover', os.path.join(top, 'missing.csv'), os.path.join(top, 'e1.tdda')], 'e1.tdda'),
                (['verify', os.path.join(top, 'missing.csv'), good_tdda], None),
                (['verify', good, os.path.join(top, 'missing.tdda')], None),
                (['detect', good, os.path.join(top, 'missing.tdda'), os.path.join(top, 'e2.csv')], 'e2.csv'),
                (['detect', os.path.join(top, 'missing.csv'), good_tdda, os.path.join(top, 'e3.csv')], 'e3.csv'),
                # a missing input whose name has no extension any reader claims
                (['verify', os.path.join(top, 'missing.txt'), good_tdda], None),
                (['discover', os.path.join(top, 'missing.dat'), os.path.join(top, 'e10.tdda')], 'e10.tdda'),
                (['detect', os.path.join(top, 'missing'), good_tdda, os.path.join(top, 'e11.csv')], 'e11.csv'),
                (['discover', '--bogus', good, os.path.join(top, 'e4.tdda')], 'e4.tdda'),
                (['verify', '--bogus', good, good_tdda], None),
                (['detect', '--bogus', good, good_tdda, os.path.join(top, 'e5.csv')], 'e5.csv'),
                (['detect', '--per-constraint', '--no-per-constraint', good, good_tdda, os.path.join(top, 'e6.csv')], 'e6.csv'),
                (['detect', good, good_tdda, os.path.join(top, 'e7.csv'), '--no-output-fields', '--output-fields', 'i'], 'e7.csv'),
                # --output-fields without names means "all of them": as contradictory with --no-output-fields as a list is
                (['detect', good, good_tdda, os.path.join(top, 'e8.csv'), '--no-output-fields', '--output-fields'], 'e8.csv'),
                (['detect', good, good_tdda, os.path.join(top, 'e9.csv'), '--output-fields', '--no-output-fields'], 'e9.csv')):
            w = {'argv': argv}
            b.case(('cli-error', tuple(argv)))
            code, out, err, exc = run_cli(argv)
            b.check('C17.bad-invocation-exits-nonzero', (code not in (None, 0)) or exc is not None, w,
                    'exit %r exception %r' % (code, exc))
            if leaves:
                b.check('C17.bad-invocation-leaves-no-output', not os.path.exists(os.path.join(top, leaves)), w,
                        '%s exists' % leaves)
        # ---------------- subprocess sample ----------------
        py = sys.executable
        env = dict(os.environ)
        for argv in (['discover', good, '-'], ['verify', good, good_tdda], ['verify', good, os.path.join(top, 'missing.tdda')]):
            b.case(('subprocess', tuple(argv)))
            p = subprocess.run([py, '-m', 'tdda.constraints.console'] + argv, capture_output=True, text=True,
                               env=env, timeout=120)
            code, out, err, exc = run_cli(argv)
            w = {'argv': argv, 'mode': 'subprocess'}
            b.check('C17.subprocess.same-exit-status', (p.returncode != 0) == ((code not in (None, 0)) or exc is not None), w,
                    'subprocess %r, in-process %r %r' % (p.returncode, code, exc))
            if argv[0] == 'discover' and p.returncode == 0:
                try:
                    b.check('C17.subprocess.stdout-constraints', fields_of(p.stdout) == fields_of(out), w)
                except Exception as e:
                    b.check('C17.subprocess.stdout-constraints', False, w, repr(e)[:200] + p.stdout[:200])
    finally:
        os.chdir(cwd)
        shutil.rmtree(top, ignore_errors=True)
    return b
