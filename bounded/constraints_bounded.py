"""
Bounded layer for C01 / C02 / C06 / C07: runtime contracts on the real pandas
code.  (1) audits the assumed calculator contracts A-calc the proofs lean on;
(2) checks the end-to-end sentences no contract within reach decides.
"""
import datetime
import fractions
import io
import json
import math
import os
import shutil
import sys
import tempfile
import contextlib
import multiprocessing

import numpy as np
import pandas as pd

from bounded.core import Bounded
from bounded import frames as F
from specs.native_prims import NCol, load_native_spec

SPEC = load_native_spec('constraints_spec.py')


class K(dict):
    """kind -> constraint record (value, precision) as the spec sees it."""


class Rec(object):
    def __init__(self, value, precision=None):
        self.value = value
        self.precision = precision


def exact(v):
    """Exact rational view of a float (FP-REAL: the spec is over the reals)."""
    if isinstance(v, bool):
        return v
    if isinstance(v, float):
        if math.isinf(v):
            return v
        return fractions.Fraction(v)
    return v


def ncol_of(df, name, ttype):
    vals = [F.norm(v) for v in df[name].tolist()] if name in df else []
    if ttype == 'real':
        vals = [None if v is None else exact(v) for v in vals]
    return NCol(name in df, ttype, vals)


@contextlib.contextmanager
def quiet():
    so, se = sys.stdout, sys.stderr
    sys.stdout = sys.stderr = io.StringIO()
    try:
        yield
    finally:
        sys.stdout, sys.stderr = so, se


def _tdda():
    from tdda.constraints.pd import constraints as pc
    from tdda.constraints import base
    return pc, base


# ---------------------------------------------------------------------------
# A-calc audit
# ---------------------------------------------------------------------------

def audit_calc(b, family, values, df, w, props=('C01', 'C02', 'C07')):
    pc, base = _tdda()
    calc = pc.PandasConstraintCalculator(df)
    ok, ttype = b.guarded('A-calc.calc_tdda_type.noraise', lambda: calc.calc_tdda_type('c'), w)
    if not ok:
        return None
    b.check('A-calc.calc_tdda_type', ttype == F.expected_ttype(family, values), w,
            'typed %r, expected %r' % (ttype, F.expected_ttype(family, values)))
    col = ncol_of(df, 'c', ttype)
    b.check('A-calc.get_nrecords', calc.get_nrecords() == col.N, w)
    b.check('A-calc.column_exists', calc.column_exists('c') and not calc.column_exists('nope'), w)
    ok, n0 = b.guarded('A-calc.calc_null_count.noraise', lambda: calc.calc_null_count('c'), w)
    if ok:
        b.check('A-calc.calc_null_count', n0 == col.n0, w, 'got %r' % (n0,))
    ok, nn = b.guarded('A-calc.calc_non_null_count.noraise', lambda: calc.calc_non_null_count('c'), w)
    if ok:
        b.check('A-calc.calc_non_null_count', nn == col.nn, w, 'got %r' % (nn,))
    for nm, better in (('calc_min', lambda a, x: a <= x), ('calc_max', lambda a, x: a >= x)):
        if ttype == 'string' and 'C02' not in props:
            continue    # only the verifiers (sign/min/max on a string field) ask for it
        ok, m = b.guarded('A-calc.%s.noraise' % nm, lambda: getattr(calc, nm)('c'), w)
        if not ok:
            continue
        mnull = bool(calc.is_null(m))
        b.check('A-calc.%s.null-iff-empty' % nm, mnull == (col.nn == 0), w, 'got %r' % (m,))
        if not mnull and col.nn:
            try:
                mm = exact(F.norm(m)) if ttype == 'real' else F.norm(m)
                raw = [F.norm(v) for v in df['c'].tolist() if F.norm(v) is not None]
                if ttype == 'date':
                    mm = pd.Timestamp(mm) if not isinstance(mm, datetime.date) or isinstance(mm, datetime.datetime) else mm
                    raw = [pd.Timestamp(x) if isinstance(x, datetime.datetime) else x for x in raw]
                if ttype == 'real':
                    raw = [exact(x) for x in raw]
                b.check('A-calc.%s.bound' % nm, all(better(mm, x) for x in raw), w, 'got %r' % (m,))
                b.check('A-calc.%s.attained' % nm, any(mm == x for x in raw), w, 'got %r' % (m,))
            except TypeError as e:
                b.check('A-calc.%s.comparable' % nm, False, w, str(e))
    if ttype == 'string':
        lens = [len(x) for x in col.nonnull if isinstance(x, str)]
        for nm, agg in (('calc_min_length', min), ('calc_max_length', max)):
            if not lens and 'C02' not in props:
                continue
            ok, m = b.guarded('A-calc.%s.noraise' % nm, lambda: getattr(calc, nm)('c'), w)
            if ok:
                mnull = bool(calc.is_null(m))
                b.check('A-calc.%s' % nm, mnull == (not lens) and (mnull or m == agg(lens)), w,
                        'got %r' % (m,))
    ok, nu = b.guarded('A-calc.calc_nunique.noraise', lambda: calc.calc_nunique('c'), w)
    if ok:
        b.check('A-calc.calc_nunique', nu == col.nunique, w, 'got %r expected %r' % (nu, col.nunique))
    if ttype in ('string', 'int', 'bool'):
        ok, uv = b.guarded('A-calc.calc_unique_values.noraise',
                           lambda: calc.calc_unique_values('c', include_nulls=False), w)
        if ok:
            try:
                expect = sorted(set(col.nonnull))
                b.check('A-calc.calc_unique_values', [F.norm(x) for x in uv] == expect, w,
                        'got %r' % (uv,))
            except TypeError:
                pass
    if ttype == 'real' and 'C02' in props:
        ok, c = b.guarded('A-calc.calc_non_integer_values_count.noraise',
                          lambda: calc.calc_non_integer_values_count('c'), w)
        if ok:
            finite = [x for x in col.nonnull if not (isinstance(x, float) and math.isinf(x))]
            if len(finite) == len(col.nonnull):
                b.check('A-calc.calc_non_integer_values_count',
                        (c == 0) == all(SPEC['whole'](x) for x in col.nonnull), w, 'got %r' % (c,))
    if ttype in ('string',) and 'C02' in props:
        ok, r = b.guarded('A-calc.calc_all_non_nulls_boolean.noraise',
                          lambda: calc.calc_all_non_nulls_boolean('c'), w)
        if ok:
            b.check('A-calc.calc_all_non_nulls_boolean',
                    bool(r) == all(isinstance(x, bool) for x in col.nonnull), w)
    return col


# ---------------------------------------------------------------------------
# C02: verdicts against the spec, through the real verifier methods
# ---------------------------------------------------------------------------

def bounds_for(col):
    """Constraint values on, just inside and just outside every boundary."""
    out = [None]
    if col.ttype in ('int', 'bool'):
        xs = sorted(set(int(x) for x in col.nonnull)) or [0]
        cand = {xs[0], xs[0] - 1, xs[0] + 1, xs[-1], xs[-1] - 1, xs[-1] + 1, 0, -3}
        out += sorted(cand)
    elif col.ttype == 'real':
        xs = sorted(float(x) for x in col.nonnull if not (isinstance(x, float) and math.isinf(x))) or [0.0]
        cand = {xs[0], xs[0] - 0.5, xs[0] + 0.5, xs[-1], xs[-1] - 0.5, xs[-1] + 0.5, 0.0, -4.0, 2.0}
        out += sorted(cand)
    elif col.ttype == 'date':
        xs = sorted(pd.Timestamp(x).to_pydatetime().replace(tzinfo=None)
                    if isinstance(x, datetime.datetime) else datetime.datetime(x.year, x.month, x.day)
                    for x in col.nonnull) or [F.T0]
        one = datetime.timedelta(seconds=1)
        out += [xs[0], xs[0] - one, xs[0] + one, xs[-1], xs[-1] + one, xs[-1] - one]
    return out


def check_verdicts(b, family, values, df, col, w, eps_list=(0, 0.25, 0.5), tz=False):
    pc, base = _tdda()
    for tc in ('strict', 'sloppy'):
        for eps in eps_list:
            ver = pc.PandasConstraintVerifier(df, epsilon=eps, type_checking=tc)
            col_spec = col
            if tc == 'sloppy' or eps == eps_list[0]:
                pass
            # min / max
            if col.ttype in ('int', 'bool', 'real', 'date') and tc == 'strict':
                for bound in bounds_for(col):
                    for prec in (None, 'open', 'closed', 'fuzzy'):
                        for kind, cls, spec in (('min', base.MinConstraint, SPEC['spec_min']),
                                                ('max', base.MaxConstraint, SPEC['spec_max'])):
                            con = cls(bound, precision=prec)
                            w2 = dict(w, kind=kind, value=repr(bound), precision=prec, eps=eps)
                            b.case(('verdict', family, values, kind, repr(bound), prec, eps))
                            with quiet():
                                ok, got = b.guarded('C02.verify_%s.noraise' % kind,
                                                    lambda: getattr(ver, 'verify_%s_constraint' % kind)('c', con), w2)
                            if not ok:
                                continue
                            sb = exact(bound) if col.ttype == 'real' else bound
                            scol = col
                            if col.ttype == 'date' and bound is not None:
                                scol = NCol(True, 'date', [None if x is None else _naive(x) for x in col.values])
                            if (isinstance(bound, float)
                                    and not math.isfinite(bound * (1 + eps))):
                                continue    # FP-REAL: the fuzzed threshold overflows; not judged
                            try:
                                want = spec(scol, sb, SPEC['eff_precision'](prec), exact(eps))
                            except TypeError:
                                continue
                            b.check('C02.verify_%s.verdict' % kind, bool(got) == bool(want), w2,
                                    'verifier %r, documented meaning %r' % (got, want))
            if eps != eps_list[0]:
                continue
            # sign
            for s in (None,) + tuple(base.SIGNS):
                con = base.SignConstraint(s)
                w2 = dict(w, kind='sign', value=s, type_checking=tc)
                b.case(('verdict', family, values, 'sign', s))
                with quiet():
                    ok, got = b.guarded('C02.verify_sign.noraise',
                                        lambda: ver.verify_sign_constraint('c', con), w2)
                if ok and not (col.ttype == 'real' and any(isinstance(x, float) for x in col.nonnull)):
                    b.check('C02.verify_sign.verdict', bool(got) == bool(SPEC['spec_sign'](col, s)), w2,
                            'verifier %r' % (got,))
            # type
            for tv in (None, 'bool', 'int', 'real', 'string', 'date', ['int', 'real'],
                       ['bool', 'string'], ['real', 'date'], [None]):
                try:
                    con = base.TypeConstraint(tv)
                except Exception:
                    continue
                w2 = dict(w, kind='type', value=tv, type_checking=tc)
                b.case(('verdict', family, values, 'type', repr(tv), tc))
                with quiet():
                    ok, got = b.guarded('C02.verify_type.noraise',
                                        lambda: ver.verify_tdda_type_constraint('c', con), w2)
                if ok and not (col.ttype == 'real' and any(isinstance(x, float) for x in col.nonnull)):
                    b.check('C02.verify_type.verdict',
                            bool(got) == bool(SPEC['spec_type'](col, tv, tc)), w2, 'verifier %r' % (got,))
            if tc != 'strict':
                continue
            # lengths
            lens = sorted(set(len(x) for x in col.nonnull if isinstance(x, str))) or [0]
            for L in (None, lens[0] - 1, lens[0], lens[0] + 1, lens[-1] - 1, lens[-1], lens[-1] + 1):
                for kind, cls, spec in (('min_length', base.MinLengthConstraint, SPEC['spec_min_length']),
                                        ('max_length', base.MaxLengthConstraint, SPEC['spec_max_length'])):
                    con = cls(L)
                    w2 = dict(w, kind=kind, value=L)
                    b.case(('verdict', family, values, kind, L))
                    with quiet():
                        ok, got = b.guarded('C02.verify_%s.noraise' % kind,
                                            lambda: getattr(ver, 'verify_%s_constraint' % kind)('c', con), w2)
                    if ok:
                        b.check('C02.verify_%s.verdict' % kind, bool(got) == bool(spec(col, L)), w2,
                                'verifier %r' % (got,))
            # max_nulls
            for v in (None, 0, 1, col.n0 - 1, col.n0, col.n0 + 1):
                con = base.MaxNullsConstraint(v)
                w2 = dict(w, kind='max_nulls', value=v)
                b.case(('verdict', family, values, 'max_nulls', v))
                with quiet():
                    ok, got = b.guarded('C02.verify_max_nulls.noraise',
                                        lambda: ver.verify_max_nulls_constraint('c', con), w2)
                if ok:
                    b.check('C02.verify_max_nulls.verdict',
                            bool(got) == bool(SPEC['spec_max_nulls'](col, v)), w2, 'verifier %r' % (got,))
            # no_duplicates
            for v in (None, True, False):
                con = base.NoDuplicatesConstraint(v)
                w2 = dict(w, kind='no_duplicates', value=v)
                b.case(('verdict', family, values, 'no_duplicates', v))
                with quiet():
                    ok, got = b.guarded('C02.verify_no_duplicates.noraise',
                                        lambda: ver.verify_no_duplicates_constraint('c', con), w2)
                if ok:
                    b.check('C02.verify_no_duplicates.verdict',
                            bool(got) == bool(SPEC['spec_no_duplicates'](col, v)), w2, 'verifier %r' % (got,))
            # allowed values (string fields)
            if col.ttype == 'string':
                present = sorted(set(x for x in col.nonnull if isinstance(x, str)))
                for av in (None, present, present[:-1], present + ['zz'], []):
                    con = base.AllowedValuesConstraint(av)
                    w2 = dict(w, kind='allowed_values', value=av)
                    b.case(('verdict', family, values, 'allowed', repr(av)))
                    with quiet():
                        ok, got = b.guarded('C02.verify_allowed_values.noraise',
                                            lambda: ver.verify_allowed_values_constraint('c', con), w2)
                    if ok:
                        b.check('C02.verify_allowed_values.verdict',
                                bool(got) == bool(SPEC['spec_allowed_values'](col, av)), w2,
                                'verifier %r' % (got,))
                for rx in (['^a+$'], ['^.*$'], ['^[a-z]*$', '^$'], ['^b$']):
                    con = base.RexConstraint(rx)
                    w2 = dict(w, kind='rex', value=rx)
                    b.case(('verdict', family, values, 'rex', repr(rx)))
                    with quiet():
                        ok, got = b.guarded('C02.verify_rex.noraise',
                                            lambda: ver.verify_rex_constraint('c', con), w2)
                    if ok:
                        b.check('C02.verify_rex.verdict',
                                bool(got) == bool(SPEC['spec_rex'](col, rx)), w2, 'verifier %r' % (got,))


def _naive(x):
    if isinstance(x, datetime.datetime):
        t = pd.Timestamp(x)
        if t.tzinfo is not None:
            t = t.tz_convert(None)
        return t.to_pydatetime()
    if isinstance(x, datetime.date):
        return datetime.datetime(x.year, x.month, x.day)
    return x


# ---------------------------------------------------------------------------
# C07 / C01: discovery is exact; discovered constraints verify and detect clean
# ---------------------------------------------------------------------------

def K_of(fc):
    k = K()
    for kind, c in fc.constraints.items():
        k[kind] = Rec(c.value, getattr(c, 'precision', None))
    return k


def check_discovery(b, family, values, df, col, w, tmpdir, props):
    from tdda.constraints import discover_df, verify_df, detect_df
    from tdda.constraints.base import DatasetConstraints
    for inc_rex in ((False, True) if col.ttype == 'string' else (False,)):
        w1 = dict(w, inc_rex=inc_rex)
        b.case(('discover', family, values, inc_rex))
        with quiet():
            ok, cs = b.guarded('C01.discover_df.noraise', lambda: discover_df(df, inc_rex=inc_rex), w1)
        if not ok:
            continue
        if cs is None or 'c' not in cs.fields:
            b.check('C07.discover.type', False, w1, 'nothing discovered for a recognised field')
            continue
        k = K_of(cs['c'])
        if 'C07' in props:
            # the attained extremes are compared in the column's own value space
            scol = col
            if col.ttype == 'date':
                scol = NCol(True, 'date', [None if x is None else _cmpdate(x) for x in col.values])
                for kk in ('min', 'max'):
                    if kk in k and k[kk].value is not None:
                        k[kk] = Rec(_cmpdate(k[kk].value), k[kk].precision)
            if col.ttype == 'real':
                for kk in ('min', 'max'):
                    if kk in k and isinstance(k[kk].value, float):
                        k[kk] = Rec(exact(k[kk].value), k[kk].precision)
            clauses = [('type', lambda: SPEC['disc_type'](scol, k)),
                       ('max_nulls', lambda: SPEC['disc_max_nulls'](scol, k)),
                       ('min', lambda: SPEC['disc_min'](scol, k)),
                       ('max', lambda: SPEC['disc_max'](scol, k)),
                       ('min_length', lambda: SPEC['disc_min_length'](scol, k)),
                       ('max_length', lambda: SPEC['disc_max_length'](scol, k)),
                       ('sign', lambda: SPEC['disc_sign'](scol, k)),
                       ('no_duplicates', lambda: SPEC['disc_no_duplicates'](scol, k)),
                       ('allowed_values', lambda: SPEC['disc_allowed_values'](scol, k, 20)),
                       ('rex', lambda: 'rex' in k if (col.ttype == 'string' and inc_rex) else 'rex' not in k)]
            for nm, fn in clauses:
                try:
                    okc = bool(fn())
                except TypeError as e:
                    b.check('C07.discover.%s.comparable' % nm, False, w1, str(e))
                    continue
                b.check('C07.discover.%s' % nm, okc, dict(w1, discovered=_kdesc(k)),
                        'discovered %s' % _kdesc(k))
        if 'C01' not in props:
            continue
        # closure: dict and file, verify and detect, repair on/off
        d = cs.to_dict()
        path = os.path.join(tmpdir, 'c.tdda')
        with quiet():
            okj, js = b.guarded('C01.to_json.noraise', lambda: cs.to_json(), w1)
        if okj:
            with open(path, 'w', encoding='utf-8') as fh:
                fh.write(js)
        for form, cons in (('dict', d), ('file', path if okj else None)):
            if cons is None:
                continue
            for repair in (True, False):
                w2 = dict(w1, form=form, repair=repair)
                b.case(('closure', family, values, inc_rex, form, repair))
                dfc = df.copy()
                with quiet():
                    ok, v = b.guarded('C01.verify_df.noraise',
                                      lambda: verify_df(dfc, cons, repair=repair), w2)
                if ok:
                    b.check('C01.closure.verify', v.failures == 0, w2,
                            'failures=%d: %s' % (v.failures, _failed(v)))
                dfd = df.copy()
                with quiet():
                    ok, dv = b.guarded('C01.detect_df.noraise',
                                       lambda: detect_df(dfd, cons, repair=repair), w2)
                if ok:
                    nfail = dv.detection.n_failing_records if dv.detection else 0
                    b.check('C01.closure.detect', dv.failures == 0 and nfail == 0, w2,
                            'failures=%d failing_records=%d: %s' % (dv.failures, nfail, _failed(dv)))


def _cmpdate(x):
    if isinstance(x, datetime.datetime):
        t = pd.Timestamp(x)
        return t
    if isinstance(x, datetime.date):
        return x
    return x


def _kdesc(k):
    return {kk: repr(v.value)[:80] for kk, v in k.items()}


def _failed(v):
    out = []
    for f, r in v.fields.items():
        for kind, sat in r.items():
            if sat is False:
                out.append('%s.%s' % (f, kind))
    return ','.join(out)


# ---------------------------------------------------------------------------
# driver
# ---------------------------------------------------------------------------

def _work(args):
    family, chunk, props, opts = args
    b = Bounded('', '')
    tmpdir = tempfile.mkdtemp(prefix='verif-c01-')
    try:
        for values in chunk:
            w = {'family': family, 'values': [repr(v) for v in values]}
            try:
                df = F.make_frame(family, values)
            except Exception:
                continue
            b.case(('frame', family, values))
            col = audit_calc(b, family, values, df, w, props)
            if col is None:
                continue
            if 'C02' in props:
                check_verdicts(b, family, values, df, col, w,
                               eps_list=opts.get('eps', (0, 0.25, 0.5)))
            if 'C01' in props or 'C07' in props:
                check_discovery(b, family, values, df, col, w, tmpdir, props)
    finally:
        shutil.rmtree(tmpdir, ignore_errors=True)
    return (b.evaluations, b.distinct, b.samples, b.failures, b.contracts)


def run(props, tier, seed, families=None):
    max_rows = 3 if tier == 'quick' else 4
    fams = families or (F.FAMILIES_QUICK if tier == 'quick' else F.FAMILIES_ALL)
    jobs = []
    for fam in fams:
        rows = max_rows
        if len(F.POOLS[fam]) > 4:
            rows = max_rows - 1
        cs = list(F.cases(fam, rows))
        if tier != 'quick':
            cs += list(F.random_cases(fam, 150, (5, 30), seed))
        else:
            cs += list(F.random_cases(fam, 12, (5, 26), seed))
        n = max(1, len(cs) // 8)
        for i in range(0, len(cs), n):
            jobs.append((fam, cs[i:i + n], tuple(props), {}))
    total = Bounded(
        'single-column frames: every sequence of <= %d cells from the family pool (+null) for %d column '
        'families, plus seeded longer columns (up to 30 rows, incl. > 20 categories); for C02 every '
        'constraint value on / just inside / just outside each boundary x precision x epsilon x type_checking; '
        'a case is non-trivial and distinct by its canonical (family, cells, constraint, options) key'
        % (max_rows, len(fams)),
        'rows <= %d exhaustive per family pool, seeded rows <= 30; epsilon in {0, 0.25, 0.5}' % max_rows)
    ctx = multiprocessing.get_context('fork')
    with ctx.Pool(16) as pool:
        for ev, dist, samples, failures, contracts in pool.imap_unordered(_work, jobs, chunksize=1):
            total.evaluations += ev
            total.distinct |= dist
            total.samples.extend(samples[:1])
            total.failures.extend(failures)
            for k2, v in contracts.items():
                total.contracts[k2] = total.contracts.get(k2, 0) + v
    total.samples = total.samples[:8]
    return total
