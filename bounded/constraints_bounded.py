"""
Bounded layer for C01 / C02 / C06 / C07: runtime contracts on the real pandas
code.  (1) audits the assumed calculator contracts A-calc the proofs lean on;
(2) checks the end-to-end sentences no contract within reach decides.
"""
import datetime
import fractions
import io
import json
import math
import os
import shutil
import sys
import tempfile
import contextlib
import multiprocessing

import numpy as np
import pandas as pd

from bounded.core import Bounded
from bounded import frames as F
from specs.native_prims import NCol, load_native_spec

SPEC = load_native_spec('constraints_spec.py')


class K(dict):
    """kind -> constraint record (value, precision) as the spec sees it."""


class Rec(object):
    def __init__(self, value, precision=None):
        self.value = value
        self.precision = precision


def exact(v):
    """Exact rational view of a float (FP-REAL: the spec is over the reals)."""
    if isinstance(v, bool):
        return v
    if isinstance(v, float):
        if math.isinf(v):
            return v
        return fractions.Fraction(v)
    return v


def ncol_of(df, name, ttype):
    vals = [F.norm(v) for v in df[name].tolist()] if name in df else []
    if ttype == 'real':
        vals = [None if v is None else exact(v) for v in vals]
    return NCol(name in df, ttype, vals)


@contextlib.contextmanager
def quiet():
    so, se = sys.stdout, sys.stderr
    sys.stdout = sys.stderr = io.StringIO()
    try:
        yield
    finally:
        sys.stdout, sys.stderr = so, se


def _tdda():
    from tdda.constraints.pd import constraints as pc
    from tdda.constraints import base
    return pc, base


# ---------------------------------------------------------------------------
# A-calc audit
# ---------------------------------------------------------------------------

def audit_calc(b, family, values, df, w, props=('C01', 'C02', 'C07')):
    pc, base = _tdda()
    calc = pc.PandasConstraintCalculator(df)
    ok, ttype = b.guarded('A-calc.calc_tdda_type.noraise', lambda: calc.calc_tdda_type('c'), w)
    if not ok:
        return None
    b.check('A-calc.calc_tdda_type', ttype == F.expected_ttype(family, values), w,
            'typed %r, expected %r' % (ttype, F.expected_ttype(family, values)))
    col = ncol_of(df, 'c', ttype)
    b.check('A-calc.get_nrecords', calc.get_nrecords() == col.N, w)
    b.check('A-calc.column_exists', calc.column_exists('c') and not calc.column_exists('nope'), w)
    ok, n0 = b.guarded('A-calc.calc_null_count.noraise', lambda: calc.calc_null_count('c'), w)
    if ok:
        b.check('A-calc.calc_null_count', n0 == col.n0, w, 'got %r' % (n0,))
    ok, nn = b.guarded('A-calc.calc_non_null_count.noraise', lambda: calc.calc_non_null_count('c'), w)
    if ok:
        b.check('A-calc.calc_non_null_count', nn == col.nn, w, 'got %r' % (nn,))
    for nm, better in (('calc_min', lambda a, x: a <= x), ('calc_max', lambda a, x: a >= x)):
        if ttype == 'string' and 'C02' not in props:
            continue    # only the verifiers (sign/min/max on a string field) ask for it
        ok, m = b.guarded('A-calc.%s.noraise' % nm, lambda: getattr(calc, nm)('c'), w)
        if not ok:
            continue
        mnull = bool(calc.is_null(m))
        b.check('A-calc.%s.null-iff-empty' % nm, mnull == (col.nn == 0), w, 'got %r' % (m,))
        if not mnull and col.nn:
            try:
                mm = exact(F.norm(m)) if ttype == 'real' else F.norm(m)
                raw = [F.norm(v) for v in df['c'].tolist() if F.norm(v) is not None]
                if ttype == 'date':
                    mm = pd.Timestamp(mm) if not isinstance(mm, datetime.date) or isinstance(mm, datetime.datetime) else mm
                    raw = [pd.Timestamp(x) if isinstance(x, datetime.datetime) else x for x in raw]
                if ttype == 'real':
                    raw = [exact(x) for x in raw]
                b.check('A-calc.%s.bound' % nm, all(better(mm, x) for x in raw), w, 'got %r' % (m,))
                b.check('A-calc.%s.attained' % nm, any(mm == x for x in raw), w, 'got %r' % (m,))
            except TypeError as e:
                b.check('A-calc.%s.comparable' % nm, False, w, str(e))
    if ttype == 'string':
        lens = [len(x) for x in col.nonnull if isinstance(x, str)]
        for nm, agg in (('calc_min_length', min), ('calc_max_length', max)):
            if not lens and 'C02' not in props:
                continue
            ok, m = b.guarded('A-calc.%s.noraise' % nm, lambda: getattr(calc, nm)('c'), w)
            if ok:
                mnull = bool(calc.is_null(m))
                b.check('A-calc.%s' % nm, mnull == (not lens) and (mnull or m == agg(lens)), w,
                        'got %r' % (m,))
    ok, nu = b.guarded('A-calc.calc_nunique.noraise', lambda: calc.calc_nunique('c'), w)
    if ok:
        b.check('A-calc.calc_nunique', nu == col.nunique, w, 'got %r expected %r' % (nu, col.nunique))
    if ttype in ('string', 'int', 'bool'):
        ok, uv = b.guarded('A-calc.calc_unique_values.noraise',
                           lambda: calc.calc_unique_values('c', include_nulls=False), w)
        if ok:
            try:
                expect = sorted(set(col.nonnull))
                b.check('A-calc.calc_unique_values', [F.norm(x) for x in uv] == expect, w,
                        'got %r' % (uv,))
            except TypeError:
                pass
    if ttype == 'real' and 'C02' in props:
        ok, c = b.guarded('A-calc.calc_non_integer_values_count.noraise',
                          lambda: calc.calc_non_integer_values_count('c'), w)
        if ok:
            finite = [x for x in col.nonnull if not (isinstance(x, float) and math.isinf(x))]
            if len(finite) == len(col.nonnull):
                b.check('A-calc.calc_non_integer_values_count',
                        (c == 0) == all(SPEC['whole'](x) for x in col.nonnull), w, 'got %r' % (c,))
    if ttype in ('string',) and 'C02' in props:
        ok, r = b.guarded('A-calc.calc_all_non_nulls_boolean.noraise',
                          lambda: calc.calc_all_non_nulls_boolean('c'), w)
        if ok:
            b.check('A-calc.calc_all_non_nulls_boolean',
                    bool(r) == all(isinstance(x, bool) for x in col.nonnull), w)
    return col


# ---------------------------------------------------------------------------
# C02: verdicts against the spec, through the real verifier methods
# ---------------------------------------------------------------------------

def bounds_for(col):
    """Constraint values on, just inside and just outside every boundary."""
    out = [None]
    if col.ttype in ('int', 'bool'):
        xs = sorted(set(int(x) for x in col.nonnull)) or [0]
        cand = {xs[0], xs[0] - 1, xs[0] + 1, xs[-1], xs[-1] - 1, xs[-1] + 1, 0, -3}
        out += sorted(cand)
    elif col.ttype == 'real':
        xs = sorted(float(x) for x in col.nonnull if not (isinstance(x, float) and math.isinf(x))) or [0.0]
        cand = {xs[0], xs[0] - 0.5, xs[0] + 0.5, xs[-1], xs[-1] - 0.5, xs[-1] + 0.5, 0.0, -4.0, 2.0}
        out += sorted(cand)
    elif col.ttype == 'date':
        xs = sorted(pd.Timestamp(x).to_pydatetime().replace(tzinfo=None)
                    if isinstance(x, datetime.datetime) else datetime.datetime(x.year, x.month, x.day)
                    for x in col.nonnull) or [F.T0]
        one = datetime.timedelta(seconds=1)
        out += [xs[0], xs[0] - one, xs[0] + one, xs[-1], xs[-1] + one, xs[-1] - one]
    return out


def check_verdicts(b, family, values, df, col, w, eps_list=(0, 0.25, 0.5), tz=False):
    pc, base = _tdda()
    for tc in ('strict', 'sloppy'):
        for eps in eps_list:
            ver = pc.PandasConstraintVerifier(df, epsilon=eps, type_checking=tc)
            col_spec = col
            if tc == 'sloppy' or eps == eps_list[0]:
                pass
            # min / max
            if col.ttype in ('int', 'bool', 'real', 'date') and tc == 'strict':
                for bound in bounds_for(col):
                    for prec in (None, 'open', 'closed', 'fuzzy'):
                        for kind, cls, spec in (('min', base.MinConstraint, SPEC['spec_min']),
                                                ('max', base.MaxConstraint, SPEC['spec_max'])):
                            con = cls(bound, precision=prec)
                            w2 = dict(w, kind=kind, value=repr(bound), precision=prec, eps=eps)
                            b.case(('verdict', family, values, kind, repr(bound), prec, eps))
                            with quiet():
                                ok, got = b.guarded('C02.verify_%s.noraise' % kind,
                                                    lambda: getattr(ver, 'verify_%s_constraint' % kind)('c', con), w2)
                            if not ok:
                                continue
                            sb = exact(bound) if col.ttype == 'real' else bound
                            scol = col
                            if col.ttype == 'date' and bound is not None:
                                scol = NCol(True, 'date', [None if x is None else _naive(x) for x in col.values])
                            if (isinstance(bound, float)
                                    and not math.isfinite(bound * (1 + eps))):
                                continue    # FP-REAL: the fuzzed threshold overflows; not judged
                            try:
                                want = spec(scol, sb, SPEC['eff_precision'](prec), exact(eps))
                            except TypeError:
                                continue
                            b.check('C02.verify_%s.verdict' % kind, bool(got) == bool(want), w2,
                                    'verifier %r, documented meaning %r' % (got, want))
            if eps != eps_list[0]:
                continue
            # sign
            for s in (None,) + tuple(base.SIGNS):
                con = base.SignConstraint(s)
                w2 = dict(w, kind='sign', value=s, type_checking=tc)
                b.case(('verdict', family, values, 'sign', s))
                with quiet():
                    ok, got = b.guarded('C02.verify_sign.noraise',
                                        lambda: ver.verify_sign_constraint('c', con), w2)
                if ok and not (col.ttype == 'real' and any(isinstance(x, float) for x in col.nonnull)):
                    b.check('C02.verify_sign.verdict', bool(got) == bool(SPEC['spec_sign'](col, s)), w2,
                            'verifier %r' % (got,))
            # type
            for tv in (None, 'bool', 'int', 'real', 'string', 'date', ['int', 'real'],
                       ['bool', 'string'], ['real', 'date'], [None]):
                try:
                    con = base.TypeConstraint(tv)
                except Exception:
                    continue
                w2 = dict(w, kind='type', value=tv, type_checking=tc)
                b.case(('verdict', family, values, 'type', repr(tv), tc))
                with quiet():
                    ok, got = b.guarded('C02.verify_type.noraise',
                                        lambda: ver.verify_tdda_type_constraint('c', con), w2)
                if ok and not (col.ttype == 'real' and any(isinstance(x, float) for x in col.nonnull)):
                    b.check('C02.verify_type.verdict',
                            bool(got) == bool(SPEC['spec_type'](col, tv, tc)), w2, 'verifier %r' % (got,))
            if tc != 'strict':
                continue
            # lengths
            lens = sorted(set(len(x) for x in col.nonnull if isinstance(x, str))) or [0]
            for L in (None, lens[0] - 1, lens[0], lens[0] + 1, lens[-1] - 1, lens[-1], lens[-1] + 1):
                for kind, cls, spec in (('min_length', base.MinLengthConstraint, SPEC['spec_min_length']),
                                        ('max_length', base.MaxLengthConstraint, SPEC['spec_max_length'])):
                    con = cls(L)
                    w2 = dict(w, kind=kind, value=L)
                    b.case(('verdict', family, values, kind, L))
                    with quiet():
                        ok, got = b.guarded('C02.verify_%s.noraise' % kind,
                                            lambda: getattr(ver, 'verify_%s_constraint' % kind)('c', con), w2)
                    if ok:
                        b.check('C02.verify_%s.verdict' % kind, bool(got) == bool(spec(col, L)), w2,
                                'verifier %r' % (got,))
            # max_nulls
            for v in (None, 0, 1, col.n0 - 1, col.n0, col.n0 + 1):
                con = base.MaxNullsConstraint(v)
                w2 = dict(w, kind='max_nulls', value=v)
                b.case(('verdict', family, values, 'max_nulls', v))
                with quiet():
                    ok, got = b.guarded('C02.verify_max_nulls.noraise',
                                        lambda: ver.verify_max_nulls_constraint('c', con), w2)
                if ok:
                    b.check('C02.verify_max_nulls.verdict',
                            bool(got) == bool(SPEC['spec_max_nulls'](col, v)), w2, 'verifier %r' % (got,))
            # no_duplicates
            for v in (None, True, False):
                con = base.NoDuplicatesConstraint(v)
                w2 = dict(w, kind='no_duplicates', value=v)
                b.case(('verdict', family, values, 'no_duplicates', v))
                with quiet():
                    ok, got = b.guarded('C02.verify_no_duplicates.noraise',
                                        lambda: ver.verify_no_duplicates_constraint('c', con), w2)
                if ok:
                    b.check('C02.verify_no_duplicates.verdict',
                            bool(got) == bool(SPEC['spec_no_duplicates'](col, v)), w2, 'verifier %r' % (got,))
            # a null-valued rex constraint is satisfied whatever the field's type (like every null-valued constraint)
            if col.ttype != 'string':
                w2 = dict(w, kind='rex', value=None)
                b.case(('verdict', family, values, 'rex', 'None'))
                with quiet():
                    ok, got = b.guarded('C02.verify_rex.noraise',
                                        lambda: ver.verify_rex_constraint('c', base.RexConstraint(None)), w2)
                if ok:
                    b.check('C02.verify_rex.verdict', bool(got) is True, w2, 'verifier %r for a null-valued constraint' % (got,))
            # allowed values on numeric and date fields: the non-null values must be among them
            if col.ttype in ('int', 'real', 'date') and family not in ('float64x',):
                present = sorted(set(col.nonnull))
                for av in ([F.norm(x) for x in present], [F.norm(x) for x in present[:-1]]):
                    if not all(isinstance(x, (int, float)) or hasattr(x, 'year') for x in av):
                        continue
                    con = base.AllowedValuesConstraint(av)
                    w2 = dict(w, kind='allowed_values', value=[repr(x) for x in av])
                    b.case(('verdict', family, values, 'allowed-num', repr(av)))
                    with quiet():
                        ok, got = b.guarded('C02.verify_allowed_values.noraise',
                                            lambda: ver.verify_allowed_values_constraint('c', con), w2)
                    if ok:
                        want = all(x in av for x in present)
                        b.check('C02.verify_allowed_values.verdict', bool(got) == want, w2,
                                'verifier %r, non-null values %r' % (got, present))
            # allowed values (string fields)
            if col.ttype == 'string':
                present = sorted(set(x for x in col.nonnull if isinstance(x, str)))
                for av in (None, present, present[:-1], present + ['zz'], []):
                    con = base.AllowedValuesConstraint(av)
                    w2 = dict(w, kind='allowed_values', value=av)
                    b.case(('verdict', family, values, 'allowed', repr(av)))
                    with quiet():
                        ok, got = b.guarded('C02.verify_allowed_values.noraise',
                                            lambda: ver.verify_allowed_values_constraint('c', con), w2)
                    if ok:
                        b.check('C02.verify_allowed_values.verdict',
                                bool(got) == bool(SPEC['spec_allowed_values'](col, av)), w2,
                                'verifier %r' % (got,))
                # incl. expressions not tied to the end (or the start) of the value: a rex constraint is
                # satisfied by re.match, i.e. a match starting at the first character, not a full match
                # a null-valued rex constraint is satisfied, like a null value of every other kind
                w2 = dict(w, kind='rex', value=None)
                b.case(('verdict', family, values, 'rex', 'None'))
                with quiet():
                    ok, got = b.guarded('C02.verify_rex.noraise',
                                        lambda: ver.verify_rex_constraint('c', base.RexConstraint(None)), w2)
                if ok:
                    b.check('C02.verify_rex.verdict', bool(got) is True, w2, 'verifier %r for a null-valued constraint' % (got,))
                for rx in (['^a+$'], ['^.*$'], ['^[a-z]*$', '^$'], ['^b$'], ['^a'], ['a'], ['b', '^é'], ['^.'], ['b$']):
                    con = base.RexConstraint(rx)
                    w2 = dict(w, kind='rex', value=rx)
                    b.case(('verdict', family, values, 'rex', repr(rx)))
                    with quiet():
                        ok, got = b.guarded('C02.verify_rex.noraise',
                                            lambda: ver.verify_rex_constraint('c', con), w2)
                    if ok:
                        b.check('C02.verify_rex.verdict',
                                bool(got) == bool(SPEC['spec_rex'](col, rx)), w2, 'verifier %r' % (got,))


def _naive(x):
    if isinstance(x, datetime.datetime):
        t = pd.Timestamp(x)
        if t.tzinfo is not None:
            t = t.tz_convert(None)
        return t.to_pydatetime()
    if isinstance(x, datetime.date):
        return datetime.datetime(x.year, x.month, x.day)
    return x


# ---------------------------------------------------------------------------
# C02: totals, per-field counts, tabular and text forms equal the verdict counts;
# a null-valued constraint changes no other verdict
# ---------------------------------------------------------------------------

def check_totals(b, seed):
    import random
    from tdda.constraints import verify_df
    rnd = random.Random(seed)
    df = pd.DataFrame({'i': [1, 2, 3, None], 'x': [0.5, -1.5, 2.5, 2.5],
                       's': pd.Series(['a', 'bb', None, 'a'], dtype=object), 'b': [True, False, True, True]})
    pools = {
        'i': {'type': ['real', 'int', 'string', ['int', 'real']], 'min': [0, 1, 2, None], 'max': [3, 2, None],
              'sign': ['positive', 'negative', None], 'max_nulls': [0, 1, None], 'no_duplicates': [True, None]},
        'x': {'type': ['real', 'int'], 'min': [-1.5, -1.0, {'value': -1.5, 'precision': 'open'}], 'max': [2.5, 2.0, None],
              'sign': ['positive', 'null', None], 'max_nulls': [0, None], 'no_duplicates': [True, False]},
        's': {'type': ['string', 'int'], 'min_length': [1, 2, None], 'max_length': [2, 1, None],
              'allowed_values': [['a', 'bb'], ['a'], None], 'rex': [['^a$', '^bb$'], ['^a$']], 'max_nulls': [1, 0]},
        'b': {'type': ['bool', 'int'], 'max_nulls': [0, None]},
        'missing': {'type': ['int', None], 'min': [0, None], 'max_nulls': [None, 0]},
    }
    for trial in range(120):
        cons = {'fields': {}}
        for f in rnd.sample(list(pools), rnd.randint(1, len(pools))):
            fc = {}
            for kind in rnd.sample(list(pools[f]), rnd.randint(1, len(pools[f]))):
                fc[kind] = rnd.choice(pools[f][kind])
            cons['fields'][f] = fc
        for tc in ('strict', 'sloppy'):
            for report in ('all', 'fields'):
                w = {'constraints': json.dumps(cons, default=repr), 'type_checking': tc, 'report': report}
                b.case(('totals', json.dumps(cons, sort_keys=True, default=repr), tc, report))
                with quiet():
                    ok, v = b.guarded('C02.verify_df.noraise',
                                      lambda: verify_df(df.copy(), cons, type_checking=tc, report=report, repair=False), w)
                if not ok:
                    continue
                verdicts = {f: dict(r) for f, r in v.fields.items()}
                tp = sum(1 for r in verdicts.values() for s_ in r.values() if s_ is not None and bool(s_))
                tf = sum(1 for r in verdicts.values() for s_ in r.values() if s_ is not None and not bool(s_))
                b.check('C02.totals-equal-verdict-counts', (v.passes, v.failures) == (tp, tf), w,
                        'passes/failures %r, counted %r' % ((v.passes, v.failures), (tp, tf)))
                okf = all((r.passes, r.failures) == (
                    sum(1 for s_ in dict(r).values() if s_ is not None and bool(s_)),
                    sum(1 for s_ in dict(r).values() if s_ is not None and not bool(s_))) for r in v.fields.values())
                b.check('C02.per-field-counts-equal-verdict-counts', okf, w)
                b.check('C02.every-field-and-kind-has-a-verdict',
                        {f: sorted(r) for f, r in verdicts.items()} == {f: sorted(fc) for f, fc in cons['fields'].items()}, w,
                        repr({f: sorted(r) for f, r in verdicts.items()}))
                # documented rules for missing fields and null values
                for f, r in verdicts.items():
                    for kind, sat in r.items():
                        val = cons['fields'][f][kind]
                        if f == 'missing' and val is not None:
                            b.check('C02.missing-field-fails', sat is not None and not bool(sat), dict(w, field=f, kind=kind))
                        if f != 'missing' and val is None:
                            b.check('C02.null-valued-constraint-satisfied', bool(sat), dict(w, field=f, kind=kind))
                # tabular form
                with quiet():
                    okt, fr = b.guarded('C02.to_frame.noraise', lambda: v.to_frame(), w)
                if okt:
                    rows = {row['field']: row for _, row in fr.iterrows()}
                    okr = all(int(rows[f]['passes']) == v.fields[f].passes and int(rows[f]['failures']) == v.fields[f].failures
                              for f in verdicts) and len(fr) == len(verdicts)
                    for f, r in verdicts.items():
                        for kind, sat in r.items():
                            cell = rows[f][kind]
                            if sat is None:
                                okr = okr and (cell is None or cell != cell)
                            else:
                                okr = okr and bool(cell) == bool(sat)
                    b.check('C02.tabular-form-equals-verdicts', okr, w, fr.to_string()[:300])
                    # every row, read on its own: its true cells are its passes and its false cells its failures
                    # (a kind the field has no constraint of shows no verdict)
                    kinds_cols = [c for c in fr.columns if c not in ('field', 'failures', 'passes')]
                    okc = True
                    for f in verdicts:
                        cells = [rows[f][c] for c in kinds_cols]
                        nt = sum(1 for x in cells if x is True or (isinstance(x, (bool, np.bool_)) and bool(x)))
                        nf_ = sum(1 for x in cells if x is False or (isinstance(x, (bool, np.bool_)) and not bool(x)))
                        okc = okc and nt == v.fields[f].passes and nf_ == v.fields[f].failures
                    b.check('C02.tabular-form-equals-verdicts', okc, w, fr.to_string()[:400])
                # text form
                txt = str(v)
                b.check('C02.text-form-totals', ('Constraints passing: %d' % tp) in txt and ('Constraints failing: %d' % tf) in txt, w, txt[-120:])
                # adding a null-valued constraint changes no other verdict and adds one pass
                f0 = next((f for f in cons['fields'] if f != 'missing'), None)
                free = [k for k in ('min', 'max', 'sign', 'max_nulls', 'min_length', 'max_length', 'allowed_values')
                        if f0 and k not in cons['fields'][f0]]
                if f0 and free:
                    c2 = json.loads(json.dumps(cons))
                    c2['fields'][f0][free[0]] = None
                    with quiet():
                        ok2, v2 = b.guarded('C02.verify_df.noraise',
                                            lambda: verify_df(df.copy(), c2, type_checking=tc, report=report, repair=False), w)
                    if ok2:
                        others = {f: {k: (None if s_ is None else bool(s_)) for k, s_ in dict(r).items() if not (f == f0 and k == free[0])}
                                  for f, r in v2.fields.items()}
                        base_v = {f: {k: (None if s_ is None else bool(s_)) for k, s_ in r.items()} for f, r in verdicts.items()}
                        b.check('C02.null-valued-constraint-changes-nothing-else',
                                others == base_v and v2.passes == v.passes + 1 and v2.failures == v.failures,
                                dict(w, added='%s.%s' % (f0, free[0])), '%r vs %r' % (others, base_v))


# ---------------------------------------------------------------------------
# C07 / C01: discovery is exact; discovered constraints verify and detect clean
# ---------------------------------------------------------------------------

def K_of(fc):
    k = K()
    for kind, c in fc.constraints.items():
        k[kind] = Rec(c.value, getattr(c, 'precision', None))
    return k


def check_discovery(b, family, values, df, col, w, tmpdir, props):
    from tdda.constraints import discover_df, verify_df, detect_df
    from tdda.constraints.base import DatasetConstraints
    for inc_rex in ((False, True) if col.ttype == 'string' else (False,)):
        w1 = dict(w, inc_rex=inc_rex)
        b.case(('discover', family, values, inc_rex))
        with quiet():
            ok, cs = b.guarded('C01.discover_df.noraise', lambda: discover_df(df, inc_rex=inc_rex), w1)
        if not ok:
            continue
        if cs is None or 'c' not in cs.fields:
            b.check('C07.discover.type', False, w1, 'nothing discovered for a recognised field')
            continue
        k = K_of(cs['c'])
        if 'C07' in props:
            # the attained extremes are compared in the column's own value space
            scol = col
            if col.ttype == 'date':
                scol = NCol(True, 'date', [None if x is None else _cmpdate(x) for x in col.values])
                for kk in ('min', 'max'):
                    if kk in k and k[kk].value is not None:
                        k[kk] = Rec(_cmpdate(k[kk].value), k[kk].precision)
            if col.ttype == 'real':
                for kk in ('min', 'max'):
                    if kk in k and isinstance(k[kk].value, float):
                        k[kk] = Rec(exact(k[kk].value), k[kk].precision)
            clauses = [('type', lambda: SPEC['disc_type'](scol, k)),
                       ('max_nulls', lambda: SPEC['disc_max_nulls'](scol, k)),
                       ('min', lambda: SPEC['disc_min'](scol, k)),
                       ('max', lambda: SPEC['disc_max'](scol, k)),
                       ('min_length', lambda: SPEC['disc_min_length'](scol, k)),
                       ('max_length', lambda: SPEC['disc_max_length'](scol, k)),
                       ('sign', lambda: SPEC['disc_sign'](scol, k)),
                       ('no_duplicates', lambda: SPEC['disc_no_duplicates'](scol, k)),
                       ('allowed_values', lambda: SPEC['disc_allowed_values'](scol, k, 20)),
                       ('rex', lambda: 'rex' in k if (col.ttype == 'string' and inc_rex) else 'rex' not in k)]
            for nm, fn in clauses:
                try:
                    okc = bool(fn())
                except TypeError as e:
                    b.check('C07.discover.%s.comparable' % nm, False, w1, str(e))
                    continue
                b.check('C07.discover.%s' % nm, okc, dict(w1, discovered=_kdesc(k)),
                        'discovered %s' % _kdesc(k))
        if 'C01' not in props:
            continue
        # closure: dict and file, verify and detect, repair on/off
        d = cs.to_dict()
        path = os.path.join(tmpdir, 'c.tdda')
        with quiet():
            okj, js = b.guarded('C01.to_json.noraise', lambda: cs.to_json(), w1)
        if okj:
            with open(path, 'w', encoding='utf-8') as fh:
                fh.write(js)
        for form, cons in (('dict', d), ('file', path if okj else None)):
            if cons is None:
                continue
            for repair in (True, False):
                w2 = dict(w1, form=form, repair=repair)
                b.case(('closure', family, values, inc_rex, form, repair))
                dfc = df.copy()
                with quiet():
                    ok, v = b.guarded('C01.verify_df.noraise',
                                      lambda: verify_df(dfc, cons, repair=repair), w2)
                if ok:
                    b.check('C01.closure.verify', v.failures == 0, w2,
                            'failures=%d: %s' % (v.failures, _failed(v)))
                dfd = df.copy()
                with quiet():
                    ok, dv = b.guarded('C01.detect_df.noraise',
                                       lambda: detect_df(dfd, cons, repair=repair), w2)
                if ok:
                    nfail = dv.detection.n_failing_records if dv.detection else 0
                    b.check('C01.closure.detect', dv.failures == 0 and nfail == 0, w2,
                            'failures=%d failing_records=%d: %s' % (dv.failures, nfail, _failed(dv)))


def _cmpdate(x):
    if isinstance(x, datetime.datetime):
        t = pd.Timestamp(x)
        return t
    if isinstance(x, datetime.date):
        return x
    return x


def _kdesc(k):
    return {kk: repr(v.value)[:80] for kk, v in k.items()}


def _failed(v):
    out = []
    for f, r in v.fields.items():
        for kind, sat in r.items():
            if sat is False:
                out.append('%s.%s' % (f, kind))
    return ','.join(out)


# ---------------------------------------------------------------------------
# driver
# ---------------------------------------------------------------------------

def _work(args):
    family, chunk, props, opts = args
    b = Bounded('', '')
    tmpdir = tempfile.mkdtemp(prefix='verif-c01-')
    try:
        for values in chunk:
            w = {'family': family, 'values': [repr(v) for v in values]}
            try:
                df = F.make_frame(family, values)
            except Exception:
                continue
            b.case(('frame', family, values))

            def one_frame():
                col = audit_calc(b, family, values, df, w, props)
                if col is None:
                    return
                if 'C02' in props:
                    check_verdicts(b, family, values, df, col, w,
                                   eps_list=opts.get('eps', (0, 0.25, 0.5)))
                if 'C01' in props or 'C07' in props:
                    check_discovery(b, family, values, df, col, w, tmpdir, props)
                if 'C06' in props and col.ttype in ('int', 'real', 'bool', 'string', 'date'):
                    import random as _r
                    check_detection(b, family, values, df, col, w, tmpdir,
                                    _r.Random(repr((family, values, opts.get('seed', 0)))))
            b.case_guard(props[0], w, one_frame)
    finally:
        shutil.rmtree(tmpdir, ignore_errors=True)
    return (b.evaluations, b.distinct, b.samples, b.failures, b.contracts)


def run(props, tier, seed, families=None):
    max_rows = 3 if tier == 'quick' else 4
    fams = families or (F.FAMILIES_QUICK if tier == 'quick' else F.FAMILIES_ALL)
    jobs = []
    for fam in fams:
        rows = max_rows
        if len(F.POOLS[fam]) > 4:
            rows = max_rows - 1
        cs = list(F.cases(fam, rows))
        if tier != 'quick':
            cs += list(F.random_cases(fam, 150, (5, 30), seed))
        else:
            cs += list(F.random_cases(fam, 12, (5, 26), seed))
        if fam in ('object-str', 'category') and ('C07' in props or 'C01' in props):
            # the categories threshold: exactly 19, 20 and 21 distinct strings (with a repeat and, where it may be, a null)
            for k in (19, 20, 21):
                cs.append(tuple('v%02d' % i for i in range(k)) + ('v00',) + ((None,) if fam in F.NULLABLE else ()))
        n = max(1, len(cs) // 8)
        for i in range(0, len(cs), n):
            jobs.append((fam, cs[i:i + n], tuple(props), {'seed': seed}))
    total = Bounded(
        'single-column frames: every sequence of <= %d cells from the family pool (+null) for %d column '
        'families, plus seeded longer columns (up to 30 rows, incl. > 20 categories); for C02 every '
        'constraint value on / just inside / just outside each boundary x precision x epsilon x type_checking; '
        'a case is non-trivial and distinct by its canonical (family, cells, constraint, options) key'
        % (max_rows, len(fams)),
        'rows <= %d exhaustive per family pool, seeded rows <= 30; epsilon in {0, 0.25, 0.5}' % max_rows)
    ctx = multiprocessing.get_context('fork')
    with ctx.Pool(16) as pool:
        for ev, dist, samples, failures, contracts in pool.imap_unordered(_work, jobs, chunksize=1):
            total.evaluations += ev
            total.distinct |= dist
            total.samples.extend(samples[:1])
            total.failures.extend(failures)
            for k2, v in contracts.items():
                total.contracts[k2] = total.contracts.get(k2, 0) + v
    total.samples = total.samples[:8]
    if 'C02' in props:
        check_totals(total, seed)
    if 'C06' in props:
        check_multi_field_detection(total)
    return total


def check_multi_field_detection(b):
    """C06 on frames with several constrained fields, the failing one first / in the middle / last / absent:
    detection is produced exactly when something fails, and holds exactly the failing records."""
    from tdda.constraints import detect_df, verify_df
    cols = {'amount': [1, 50, 3, 70], 'code': pd.Series(['x', 'yy', 'z', 'w'], dtype=object), 'flag': [True, False, True, True]}
    cons = {'fields': {'amount': {'type': 'int', 'max': 10}, 'code': {'type': 'string', 'max_length': 3},
                       'flag': {'type': 'bool'}, 'ghost': {'max_nulls': 0}}}
    tmpdir = tempfile.mkdtemp(prefix='verif-c06m-')
    try:
        import itertools as _it
        for order in _it.permutations(list(cols)):
            for with_ghost in (False, True):
                c2 = {'fields': {k: v for k, v in cons['fields'].items() if with_ghost or k != 'ghost'}}
                df = pd.DataFrame({k: cols[k] for k in order})
                w = {'columns': list(order), 'constraints': json.dumps(c2['fields']), 'failing rows': [1, 3]}
                b.case(('multi-field', order, with_ghost))
                outp = os.path.join(tmpdir, 'out.csv')
                if os.path.exists(outp):
                    os.unlink(outp)
                with quiet():
                    ok, r = b.guarded('C06.detect_df.noraise', lambda: detect_df(df.copy(), c2, outpath=outp, per_constraint=True,
                                                                                 output_fields=[]), w)
                if not ok:
                    continue
                v = verify_df(df.copy(), c2)
                b.check('C06.verdicts-equal-verify', v.failures == r.failures and v.passes == r.passes, w,
                        'verify %d/%d detect %d/%d' % (v.passes, v.failures, r.passes, r.failures))
                det = r.detected() if r.detection is not None else None
                b.check('C06.detected-frame-present', det is not None, w, 'failures=%d but no detection result' % r.failures)
                if det is not None:
                    b.check('C06.detected-holds-failing-records', list(det.index) == [1, 3], w, repr(list(det.index)))
                    b.check('C06.record-counts-partition', r.detection.n_failing_records == 2
                            and r.detection.n_passing_records == 2, w,
                            '%r / %r' % (r.detection.n_passing_records, r.detection.n_failing_records))
                b.check('C06.output-file-only-if-failures', os.path.exists(outp), w, 'no output file although constraints failed')
    finally:
        shutil.rmtree(tmpdir, ignore_errors=True)


# ---------------------------------------------------------------------------
# C06: record-level detection semantics on the real pandas code
# ---------------------------------------------------------------------------

def record_ok(kind, x, value, precision, eps, col):
    """Documented meaning for one NON-NULL record value x (True = satisfies)."""
    if kind == 'min':
        if precision == 'closed' or isinstance(value, datetime.datetime):
            return x >= value
        if precision == 'open':
            return x > value
        return x >= value - eps * abs(value)
    if kind == 'max':
        if precision == 'closed' or isinstance(value, datetime.datetime):
            return x <= value
        if precision == 'open':
            return x < value
        return x <= value + eps * abs(value)
    if kind == 'sign':
        return {'positive': x > 0, 'non-negative': x >= 0, 'zero': x == 0,
                'non-positive': x <= 0, 'negative': x < 0}[value]
    if kind == 'min_length':
        return len(x) >= value
    if kind == 'max_length':
        return len(x) <= value
    if kind == 'allowed_values':
        return x in value
    if kind == 'rex':
        return SPEC['rex_match'](value, x)
    if kind == 'no_duplicates':
        return sum(1 for y in col.nonnull if y == x) <= 1
    raise KeyError(kind)


FUZZ_EPS = 0.25


def violated_constraints(col):
    """(kind, dict-form value, value, precision) candidates that at least one record violates."""
    out = []
    nn = col.nonnull
    if col.ttype in ('int', 'real', 'bool') and nn:
        xs = sorted(float(x) if col.ttype == 'real' else int(x) for x in nn)
        for prec in (None, 'open', 'closed'):
            for b in {xs[0] + 1, xs[-1], xs[0]}:
                v = {'value': b, 'precision': prec} if prec else b
                out.append(('min', v, b, prec))
            for b in {xs[-1] - 1, xs[0], xs[-1]}:
                v = {'value': b, 'precision': prec} if prec else b
                out.append(('max', v, b, prec))
        for s in ('positive', 'non-negative', 'zero', 'non-positive', 'negative'):
            out.append(('sign', s, s, None))
        # bounds that put a value inside the fuzzy tolerance band (epsilon = FUZZ_EPS),
        # on either side, for positive and negative bounds
        for x in sorted(set(xs)):
            if x == 0:
                continue
            for b in (x / (1 - FUZZ_EPS / 2), x / (1 + FUZZ_EPS / 2)):
                for prec in (None, 'fuzzy'):
                    v = {'value': b, 'precision': prec} if prec else b
                    out.append(('min', v, b, prec))
                    out.append(('max', v, b, prec))
    if col.ttype == 'date' and nn:
        xs = sorted(_naive(x) for x in nn)
        one = datetime.timedelta(seconds=1)
        out.append(('min', str(xs[0] + one), xs[0] + one, None))
        out.append(('max', str(xs[-1] - one), xs[-1] - one, None))
        out.append(('min', str(xs[-1]), xs[-1], None))
    if col.ttype == 'string' and nn:
        lens = sorted(len(x) for x in nn)
        out.append(('min_length', lens[0] + 1, lens[0] + 1, None))
        out.append(('max_length', lens[-1] - 1, lens[-1] - 1, None))
        out.append(('min_length', lens[-1], lens[-1], None))
        present = sorted(set(nn))
        out.append(('allowed_values', present[:-1], present[:-1], None))
        out.append(('allowed_values', ['zz'], ['zz'], None))
        out.append(('rex', ['^a+$'], ['^a+$'], None))
        out.append(('rex', ['^$'], ['^$'], None))
        out.append(('rex', ['^a'], ['^a'], None))           # not tied to the end: re.match, not a full match
        out.append(('rex', ['b', '^é'], ['b', '^é'], None))
        # kinds a string field cannot satisfy (a numeric bound, a sign): verification fails them for the type,
        # detection must then flag the records too
        out.append(('sign', 'positive', 'positive', None))
        out.append(('sign', 'zero', 'zero', None))
        out.append(('min', 1, 1, None))
        out.append(('max', 1, 1, None))
    if col.ttype == 'bool' and nn:
        out.append(('sign', 'negative', 'negative', None))
    out.append(('no_duplicates', True, True, None))
    out.append(('max_nulls', 0, 0, None))
    if col.n0 > 1:
        out.append(('max_nulls', col.n0 - 1, col.n0 - 1, None))
    # a wrong type that does not make repair_field_types rewrite the column
    wrong = 'date' if col.ttype not in ('date',) else 'real'
    out.append(('type', wrong, wrong, None))
    return out


SUFFIX = {'type': 'type', 'min': 'min', 'min_length': 'min_length', 'max': 'max',
          'max_length': 'max_length', 'sign': 'sign', 'max_nulls': 'nonnull',
          'no_duplicates': 'nodups', 'allowed_values': 'values', 'rex': 'rex'}


def _isnullcell(v):
    return F.norm(v) is None


def check_detection(b, family, values, df, col, w, tmpdir, rnd):
    from tdda.constraints import verify_df, detect_df
    cands = violated_constraints(col)
    if family.startswith('category'):
        # ordering / sign questions on a categorical column raise (recorded under C02): not asked again here
        cands = [c for c in cands if not (c[0] in ('min', 'max', 'sign') and col.ttype == 'string')]
    # single-kind runs + one combined run
    combos = [[c] for c in cands]
    seen = {}
    for c in cands:
        seen.setdefault(c[0], c)
    if len(seen) > 1:
        combos.append([c for c in seen.values() if c[0] != 'type'])
    ttd = {'int': 'int', 'real': 'real', 'bool': 'bool', 'string': 'string', 'date': 'date'}[col.ttype]
    # repair (the default) with a constraint type the column does not have
    if col.ttype in ('int', 'real') and col.nn and family != 'float64x':
        for wrongt in ('string', 'bool'):
            d_in = df.copy()
            before = d_in.copy()
            w0 = dict(w, constraints=json.dumps({'type': wrongt}), repair=True)
            b.case(('detect-repair', family, values, wrongt))
            with quiet():
                ok, r = b.guarded('C06.detect_df.repair.noraise',
                                  lambda: detect_df(d_in, {'fields': {'c': {'type': wrongt}}}), w0)
            if ok:
                same = (all(_cells_equal(d_in[cn].tolist(), before[cn].tolist()) for cn in before)
                        and all(str(d_in[cn].dtype) == str(before[cn].dtype) for cn in before))
                b.check('C06.input-frame-unchanged.repair', same, w0,
                        'dtype %s -> %s' % (dict(before.dtypes.astype(str)), dict(d_in.dtypes.astype(str))))
    for combo in combos:
        fieldc = {}
        for kind, dv, v, prec in combo:
            fieldc[kind] = dv
        if 'type' not in fieldc:
            fieldc['type'] = ttd
        cons = {'fields': {'c': fieldc}}
        w1 = dict(w, constraints=json.dumps(fieldc, default=repr))
        b.case(('detect', family, values, json.dumps(fieldc, default=repr, sort_keys=True)))
        df_v = df.copy()
        with quiet():
            okv, v = b.guarded('C06.verify_df.noraise', lambda: verify_df(df_v, cons, epsilon=FUZZ_EPS), w1)
        df_in = df.copy()
        before = df_in.copy()
        with quiet():
            okd, dres = b.guarded('C06.detect_df.noraise',
                                  lambda: detect_df(df_in, cons, per_constraint=True, write_all=True,
                                                    output_fields=[], epsilon=FUZZ_EPS), w1)
        if not (okv and okd):
            continue
        b.check('C06.verdicts-equal-verify', dict(v.fields['c']) == dict(dres.fields['c'])
                and v.failures == dres.failures and v.passes == dres.passes, w1,
                'verify %r detect %r' % (dict(v.fields['c']), dict(dres.fields['c'])))
        same = (list(df_in) == list(before) and len(df_in) == len(before)
                and all(_cells_equal(df_in[cn].tolist(), before[cn].tolist()) for cn in before)
                and all(str(df_in[cn].dtype) == str(before[cn].dtype) for cn in before)
                # the index is part of the frame: its labels and its name(s)
                and list(df_in.index.names) == list(before.index.names) and df_in.index.equals(before.index)
                and list(df_in.columns.names) == list(before.columns.names))
        b.check('C06.input-frame-unchanged', same, w1,
                'dtype/content/index changed: %s -> %s; index names %r -> %r'
                % (dict(before.dtypes.astype(str)), dict(df_in.dtypes.astype(str)), list(before.index.names),
                   list(df_in.index.names)))
        if dres.failures == 0:
            b.check('C06.no-detection-without-failure', dres.detection is None
                    or dres.detection.n_failing_records == 0, w1)
            continue
        det = dres.detected()
        if det is None:
            b.check('C06.detected-frame-present', False, w1, 'failures=%d but no detection frame' % dres.failures)
            continue
        b.check('C06.write_all-has-every-record', len(det) == len(df), w1, 'len %d vs %d' % (len(det), len(df)))
        if len(det) != len(df):
            continue
        flagcols = [cn for cn in det if cn.endswith('_ok')]
        nfalse = [0] * len(df)
        skipped = False
        for kind, sat in dres.fields['c'].items():
            name = 'c_%s_ok' % SUFFIX[kind]
            if sat is None or bool(sat):
                b.check('C06.no-flag-column-for-passing-constraint', name not in det, w1, name)
                continue
            if kind in ('min_length', 'max_length', 'rex') and col.ttype != 'string':
                continue
            if name not in det:
                b.check('C06.flag-column-present', False, dict(w1, kind=kind), '%s missing from %s' % (name, list(det)))
                continue
            flags = det[name].tolist()
            spec = [x for x in combo if x[0] == kind]
            for i, (cell, flag) in enumerate(zip(col.values, flags)):
                isfalse = (flag is False) or (isinstance(flag, (bool, np.bool_)) and not bool(flag)) or flag == 0 and not _isnullcell(flag)
                if _isnullcell(flag):
                    isfalse = False
                if kind == 'type':
                    want_false = True
                elif kind == 'max_nulls':
                    want_false = cell is None
                elif col.ttype == 'string' and spec and (kind == 'sign' or (kind in ('min', 'max')
                                                                            and not isinstance(spec[0][2], str))):
                    # a kind the field's type cannot satisfy: every record with a value violates it ("every record
                    # for a type failure"); null records are not judged here
                    if cell is None:
                        if isfalse:
                            nfalse[i] += 1
                        continue
                    want_false = True
                elif cell is None:
                    want_false = False
                elif spec:
                    _, dv, val, prec = spec[0]
                    if isinstance(val, float) and not math.isfinite(val):
                        skipped = True
                        continue        # FP-REAL: non-finite bound, not judged
                    try:
                        x = _naive(cell) if (col.ttype == 'date' and kind != 'no_duplicates') else cell
                        want_false = not record_ok(kind, exact(x) if isinstance(x, float) else x,
                                                   exact(val) if isinstance(val, float) else val,
                                                   SPEC['eff_precision'](prec) if kind in ('min', 'max') else prec,
                                                   exact(FUZZ_EPS), col)
                    except TypeError:
                        continue
                else:
                    continue
                if isfalse:
                    nfalse[i] += 1
                b.check('C06.record-flag.%s' % kind, isfalse == want_false, dict(w1, kind=kind, row=i),
                        'row %d value %r flag %r, documented meaning violated=%r' % (i, cell, flag, want_false))
        if len(df):
            for kind, sat in dres.fields['c'].items():
                name = 'c_%s_ok' % SUFFIX[kind]
                if sat is False and name in det:
                    # a failing constraint is violated by some record: detection that flags none disagrees with the
                    # verdict it reports
                    b.check('C06.failing-constraint-flags-some-record',
                            any((f is False) or (isinstance(f, (bool, np.bool_)) and not bool(f)) for f in det[name].tolist()),
                            dict(w1, kind=kind), 'no record flagged for the failing %s constraint' % kind)
        if 'n_failures' in det:
            nf = det['n_failures'].tolist()
            only_checked = all((k not in ('min_length', 'max_length', 'rex') or col.ttype == 'string')
                               for k, s in dres.fields['c'].items() if s is False)
            if only_checked and not skipped:
                b.check('C06.n_failures-equals-false-flags', [int(x) for x in nf] == nfalse, w1,
                        'n_failures %r, false flags %r' % (nf, nfalse))
            npass, nfailr = dres.detection.n_passing_records, dres.detection.n_failing_records
            b.check('C06.record-counts-partition', npass + nfailr == len(df)
                    and nfailr == sum(1 for x in nf if x > 0), w1,
                    'passing %r failing %r rows %d' % (npass, nfailr, len(df)))
        # option variants on the same constraints (one random variant per case)
        opt = rnd.choice(OPTION_VARIANTS)
        check_detect_options(b, df, cons, dres, w1, tmpdir, opt)


OPTION_VARIANTS = [
    dict(), dict(per_constraint=True), dict(write_all=True), dict(output_fields=['c']),
    dict(index=True), dict(in_place=True), dict(interleave=True, per_constraint=True, output_fields=[]),
    dict(boolean_ints=True, per_constraint=True),
    dict(fmt='csv'), dict(fmt='csv', stale=True), dict(fmt='parquet'), dict(fmt='parquet', stale=True),
    dict(fmt='csv', write_all=True, per_constraint=True), dict(fmt='csv', boolean_ints=True, per_constraint=True),
    dict(fmt='csv', pass_only=True), dict(fmt='csv', pass_only=True, stale=True),
    dict(fmt='parquet', pass_only=True, stale=True),
    # frames whose index is not 0..n-1 (sorted, permuted, filtered, labelled): which records are output
    dict(index_kind='reversed'), dict(index_kind='filtered', per_constraint=True),
    dict(fmt='csv', index_kind='reversed'), dict(fmt='csv', index_kind='permuted', index=True, output_fields=[]),
    dict(fmt='csv', index_kind='string'), dict(fmt='csv', index_kind='filtered', output_fields=['c'], index=True),
    dict(fmt='parquet', index_kind='filtered'), dict(fmt='parquet', index_kind='string', index=True),
    dict(fmt='parquet', index_kind='permuted', per_constraint=True),
    dict(fmt='csv', index_kind='permuted', write_all=True),
]


def reindexed(df, kind):
    n = len(df)
    d = df.copy()
    if kind == 'reversed':
        d.index = list(range(n - 1, -1, -1))
    elif kind == 'permuted':
        d.index = [(i + 1) % n for i in range(n)] if n != 1 else [5]
    elif kind == 'filtered':
        d.index = [3 * i + 10 for i in range(n)]
    elif kind == 'string':
        d.index = ['r%d' % i for i in range(n)]
    return d


def _cells_equal(a, b):
    if len(a) != len(b):
        return False
    for x, y in zip(a, b):
        nx, ny = F.norm(x), F.norm(y)
        if nx is None or ny is None:
            if nx is not ny:
                return False
        elif not (nx == ny):
            return False
    return True


def check_detect_options(b, df, cons, base, w, tmpdir, opt):
    from tdda.constraints import detect_df
    opt = dict(opt)
    fmt = opt.pop('fmt', None)
    stale = opt.pop('stale', False)
    pass_only = opt.pop('pass_only', False)
    index_kind = opt.pop('index_kind', None)
    w2 = dict(w, options=json.dumps(dict(opt, fmt=fmt, stale=stale, pass_only=pass_only, index_kind=index_kind)))
    if index_kind:
        df = reindexed(df, index_kind)
    # which records fail (by position), from the write_all / per_constraint run on the same values
    fail_pos = None
    if not pass_only:
        try:
            bd = base.detected()
            if bd is not None and 'n_failures' in bd and len(bd) == len(df):
                fail_pos = [i for i, x in enumerate(bd['n_failures'].tolist()) if x > 0]
        except Exception:
            fail_pos = None
    if pass_only:
        # constraints nothing violates: the field's own type only
        cons = {'fields': {'c': {'type': cons['fields']['c'].get('type')
                                 if base.fields['c'].get('type') is not False else None}}}
        if cons['fields']['c']['type'] is None:
            cons = {'fields': {'c': {'max_nulls': len(df)}}}
    outpath = None
    if fmt:
        outpath = os.path.join(tmpdir, 'out.%s' % fmt)
        if os.path.exists(outpath):
            os.unlink(outpath)
        if stale:
            with open(outpath, 'w') as fh:
                fh.write('stale,content\n1,2\n')
    d_in = df.copy()
    before = d_in.copy()
    kw = dict(opt, epsilon=FUZZ_EPS)       # same fuzz as the base run the failing positions come from
    if outpath:
        kw['outpath'] = outpath
    b.case(('detect-options', w2['options'], w.get('family'), tuple(w.get('values', ())), w.get('constraints')))
    with quiet():
        ok, r = b.guarded('C06.detect_df.options.noraise', lambda: detect_df(d_in, cons, **kw), w2)
    if not ok:
        return
    nfail_c = r.failures
    det = r.detected()
    if outpath:
        exists = os.path.exists(outpath)
        b.check('C06.output-file-only-if-failures', exists == (nfail_c > 0), w2,
                'file exists=%r, failing constraints=%d' % (exists, nfail_c))
        if exists:
            try:
                out = pd.read_csv(outpath) if fmt == 'csv' else pd.read_parquet(outpath)
                want = len(df) if opt.get('write_all') else r.detection.n_failing_records
                b.check('C06.output-file-holds-failing-records', len(out) == want, w2,
                        'file rows %d, expected %d' % (len(out), want))
                if det is not None and 'Index' not in df:
                    # the file holds the columns of the returned frame, plus the index column exactly when it was
                    # asked for (index=True, or no output fields named)
                    add_index = bool(opt.get('index')) or 'output_fields' not in opt
                    want_cols = set(map(str, det.columns)) | ({'Index'} if add_index else set())
                    b.check('C06.output-file-columns', set(map(str, out.columns)) == want_cols, w2,
                            'file columns %r, expected %r' % (sorted(map(str, out.columns)), sorted(want_cols)))
                if fail_pos is not None and 'Index' in out and 'Index' not in df:
                    pos = list(range(len(df))) if opt.get('write_all') else fail_pos
                    labels = [str(df.index[i]) for i in pos]
                    got = [str(x) for x in out['Index'].tolist()]
                    b.check('C06.output-file-holds-failing-records', got == labels, w2,
                            'file holds records %r, the failing records are %r' % (got, labels))
                    if 'n_failures' in out and not opt.get('write_all'):
                        b.check('C06.output-file-holds-failing-records',
                                all(int(x) > 0 for x in out['n_failures'].tolist()), w2,
                                'n_failures in file: %r' % out['n_failures'].tolist())
            except Exception as e:
                b.check('C06.output-file-readable', False, w2, repr(e)[:200])
            os.unlink(outpath)
    if nfail_c > 0 and det is not None and r.detection is not None:
        want = len(df) if opt.get('write_all') else r.detection.n_failing_records
        b.check('C06.detected-holds-failing-records', len(det) == want, w2,
                'frame rows %d expected %d' % (len(det), want))
        if fail_pos is not None:
            pos = list(range(len(df))) if opt.get('write_all') else fail_pos
            labels = [df.index[i] for i in pos]
            # records are identified by their index label, or by their row number where the index was reset
            b.check('C06.detected-holds-failing-records', list(det.index) in (labels, pos), w2,
                    'frame holds records %r, the failing records are %r (row numbers %r)'
                    % (list(det.index), labels, pos))
        b.check('C06.record-counts-partition',
                r.detection.n_passing_records + r.detection.n_failing_records == len(df), w2)
    if not opt.get('in_place'):
        same = (list(d_in) == list(before)
                and all(_cells_equal(d_in[cn].tolist(), before[cn].tolist()) for cn in before)
                and all(str(d_in[cn].dtype) == str(before[cn].dtype) for cn in before))
        b.check('C06.input-frame-unchanged', same, w2,
                'columns %s -> %s, dtypes %s -> %s' % (list(before), list(d_in),
                                                       dict(before.dtypes.astype(str)), dict(d_in.dtypes.astype(str))))
    else:
        b.check('C06.in_place-adds-columns-only',
                all(cn in d_in for cn in before) and all(
                    _cells_equal(d_in[cn].tolist(), before[cn].tolist()) for cn in before), w2)
