"""
Bounded layer for C09: .tdda round trips on generated constraint sets
(runtime contracts on the real DatasetConstraints code).
"""
import datetime
import io
import itertools
import json
import os
import random
import shutil
import sys
import tempfile
import contextlib

from bounded.core import Bounded


@contextlib.contextmanager
def quiet():
    so, se = sys.stdout, sys.stderr
    sys.stdout = sys.stderr = io.StringIO()
    try:
        yield
    finally:
        sys.stdout, sys.stderr = so, se


D = datetime.datetime
VALUES = {
    'type': ['int', 'real', 'string', 'date', 'bool', ['int', 'real'], None],
    'min': [0, -3, 1.5, 0.1 + 0.2, 1e300, None, {'value': 2, 'precision': 'closed'},
            {'value': -1.25, 'precision': 'fuzzy'}, {'value': 7, 'precision': 'open'}],
    'max': [10, 2.5, 123456789.12345678, None, {'value': 9, 'precision': 'open'}],
    'min_length': [0, 3, None],
    'max_length': [0, 12, None],
    'sign': ['positive', 'non-negative', 'zero', 'non-positive', 'negative', 'null', None],
    'max_nulls': [0, 1, 5, None],
    'no_duplicates': [True, False, None],
    'allowed_values': [['a'], ['a', 'é£', "it's", 'say "x"', 'back\\slash', ''], [], None,
                       # characters str.splitlines() treats as line ends but JSON leaves raw; trailing blanks
                       ['x\x85y', 'p\u2028q', 'r\u2029', 'tab\tend ', 'nl\nmid', 'trail  ', '\x0b\x0c\x1c']],
    'rex': [None, [r'^\d+$'], [r'^[A-Z]{2}\-\d+$', r'^"q"$', r"^it's$", r'^a\\b$', '^é+$'], []],
}
DATE_VALUES = {
    'min': ['2020-01-01', '2020-01-01 10:20:30', '1999-12-31T23:59:59', '2021-06-15 12:30:00.123456',
            '2020/02/29', None, {'value': '2020-01-01 00:00:00', 'precision': 'closed'}],
    'max': ['2038-01-19 03:14:07', '2021-06-15 12:30:00.5', None],
}
NAMES = ['a', 'field one', 'é£', 'a"b', "o'k", 'x\\y', '#notacomment', '1', 'n\x85l', 'ls\u2028',
         'cafe\u0301', '\u1112\u1161\u11ab']      # (the last two are not in NFC form: a name is kept code point for code point)
EXTRAS = [{}, {'#comment': 'free text'}, {'frobnicate': 3}, {'#c': [1, 2], 'zzz_unknown': {'a': 1}}]


def gen_field(rnd, date=False):
    f = {}
    kinds = list(VALUES)
    for k in rnd.sample(kinds, rnd.randint(1, len(kinds))):
        if date and k in ('min', 'max'):
            f[k] = rnd.choice(DATE_VALUES[k])
        elif date and k == 'type':
            f[k] = 'date'
        elif date and k in ('sign', 'min_length', 'max_length', 'allowed_values', 'rex'):
            continue
        else:
            f[k] = rnd.choice(VALUES[k])
    if date:
        f['type'] = 'date'
    return f


def shuffle_dict(rnd, d):
    items = list(d.items())
    rnd.shuffle(items)
    return dict(items)


def frames():
    import pandas as pd
    return [
        pd.DataFrame({'a': [1, 2, 3]}),
        pd.DataFrame({'a': [1.5, None, -2.0]}),
        pd.DataFrame({'a': pd.Series(['a', "it's", None], dtype=object)}),
        pd.DataFrame({'a': pd.to_datetime([D(2020, 1, 1, 10, 20, 30), D(2021, 6, 15, 12, 30, 0, 123456)])}),
        pd.DataFrame({'a': [True, False]}),
    ]


def check_set(b, cons, tmpdir, rnd, frs):
    from tdda.constraints.base import DatasetConstraints, native_definite
    from tdda.constraints import verify_df
    w = {'constraints': cons}
    b.case(('cons', json.dumps(cons, sort_keys=True, default=repr)))
    given_md = None
    if rnd.random() < 0.4:
        # creation metadata as discovery writes it, zero counts and an empty user name included
        given_md = {'local_time': '2026-01-02T03:04:05', 'creator': 'TDDA x', 'host': rnd.choice(['h', 'é']),
                    'user': rnd.choice(['u', '']), 'dataset': 'd.csv', 'n_records': rnd.choice([0, 3]),
                    'n_selected': rnd.choice([0, 2])}
        cons = dict(cons, creation_metadata=given_md)
        w = {'constraints': cons}
    dc = DatasetConstraints()
    with quiet():
        ok, _ = b.guarded('C09.load-dict.noraise', lambda: dc.initialize_from_dict(native_definite(cons)), w)
    if not ok:
        return
    with quiet():
        ok, t1 = b.guarded('C09.to_json.noraise', lambda: dc.to_json(), w)
    if not ok:
        return
    # valid UTF-8 JSON without trailing whitespace
    try:
        t1.encode('utf-8')
        parsed = json.loads(t1)
        valid = True
    except Exception as e:
        valid = False
    b.check('C09.valid-utf8-json', valid, w, t1[:200])
    if valid:
        # independent expectation: every field that was given at least one known constraint kind is written, under its
        # own name (whatever characters the name begins with), in the order given
        want_fields = [n for n, fc in cons['fields'].items() if any(k in VALUES for k in fc)]
        b.check('C09.every-field-with-constraints-is-written', list(parsed.get('fields', {})) == want_fields, w,
                'fields given %r, written %r' % (want_fields, list(parsed.get('fields', {}))))
    b.check('C09.no-trailing-whitespace', all(l == l.rstrip() for l in t1.split('\n')) and t1.endswith('\n'), w)
    path = os.path.join(tmpdir, 'c.tdda')
    with open(path, 'w', encoding='utf-8') as f:
        f.write(t1)
    with quiet():
        ok, dc2 = b.guarded('C09.load-file.noraise', lambda: DatasetConstraints(loadpath=path), w)
    if not ok:
        return
    with quiet():
        ok, t2 = b.guarded('C09.to_json.noraise', lambda: dc2.to_json(), w)
    if ok and given_md is not None:
        md1 = json.loads(t1).get('creation_metadata')
        md2 = dict(json.loads(t2).get('creation_metadata') or {})
        md2.pop('tddafile', None)           # the path the set was loaded from is recorded on load
        b.check('C09.round-trip-identical-text.metadata', md1 == given_md and md2 == given_md
                and list(md1) == list(md2), w, 'given %r, written %r, after a file round trip %r' % (given_md, md1, md2))
    if ok:
        body = lambda t: json.dumps(json.loads(t).get('fields'), sort_keys=False)
        b.check('C09.round-trip-identical-text', t1 == t2 or body(t1) == body(t2) and
                json.loads(t1).get('fields') == json.loads(t2).get('fields') and
                list(json.loads(t1)['fields']) == list(json.loads(t2)['fields']) and t1.split('"fields"')[1] == t2.split('"fields"')[1],
                w, 'first %r second %r' % (t1[-300:], t2[-300:]))
        with open(path, 'w', encoding='utf-8') as f:
            f.write(t2)
        with quiet():
            ok3, dc3 = b.guarded('C09.load-file.noraise', lambda: DatasetConstraints(loadpath=path), w)
        if ok3:
            with quiet():
                ok3, t3 = b.guarded('C09.to_json.noraise', lambda: dc3.to_json(), w)
            if ok3:
                b.check('C09.idempotent-after-first-cycle', t3 == t2, w)
    # unknown kinds and # keys are ignored without affecting other constraints
    known = set(VALUES)
    cleaned = {'fields': {n: {k: v for k, v in fc.items() if k in known} for n, fc in cons['fields'].items()}}
    dcc = DatasetConstraints()
    with quiet():
        okc, _ = b.guarded('C09.load-dict.noraise', lambda: dcc.initialize_from_dict(native_definite(cleaned)), w)
    if okc:
        with quiet():
            okc, tc = b.guarded('C09.to_json.noraise', lambda: dcc.to_json(), w)
        if okc:
            b.check('C09.unknown-and-comment-keys-ignored', json.loads(tc).get('fields') == json.loads(t1).get('fields'), w,
                    'with extras %r, without %r' % (json.loads(t1).get('fields'), json.loads(tc).get('fields')))
    # verdicts: dict / file / re-serialised agree on data
    for df in frs:
        fname = list(cons['fields'])[0]
        d2 = df.rename(columns={'a': fname})
        outs = []
        for form, c in (('dict', cons), ('file', path), ('reserialised', json.loads(t1))):
            dfx = d2.copy()
            try:
                with quiet():
                    v = verify_df(dfx, c)
                outs.append((form, 'ok', {f: dict(r) for f, r in v.fields.items()}, v.passes, v.failures))
            except Exception as e:
                outs.append((form, 'raise %s' % type(e).__name__, None, None, None))
        b.case(('verdicts', json.dumps(cons, sort_keys=True, default=repr), str(df.dtypes['a'])))
        same = all(o[1:] == outs[0][1:] for o in outs)
        b.check('C09.same-verdicts-path-dict-reserialised', same, dict(w, dtype=str(df.dtypes['a'])),
                '; '.join('%s: %s %s' % (o[0], o[1], o[2]) for o in outs)[:500])


def run(props, tier, seed):
    rnd = random.Random(seed)
    n = 250 if tier == 'quick' else 3000
    b = Bounded(
        'constraint sets in the documented dictionary format: random subsets of the ten kinds with values from pools '
        '(17-digit floats, 1e300, precision dictionaries, unicode / quotes / backslashes in names, allowed values and '
        'expressions, null values, empty lists), date fields with date-time texts incl. fractional seconds, unknown '
        'kinds and # keys; each written, loaded, re-written; verdicts compared across path / dict / re-serialised on 5 frames',
        '%d generated sets (seeded) + all single-kind sets' % n)
    tmpdir = tempfile.mkdtemp(prefix='verif-c09-')
    frs = frames()
    try:
        # every single kind x value, plain name
        for kind, vals in VALUES.items():
            for v in vals:
                check_set(b, {'fields': {'a': {kind: v}}}, tmpdir, rnd, frs)
        for kind, vals in DATE_VALUES.items():
            for v in vals:
                check_set(b, {'fields': {'a': {'type': 'date', kind: v}}}, tmpdir, rnd, frs)
        for i in range(n):
            fields = {}
            for name in rnd.sample(NAMES, rnd.randint(1, 3)):
                f = gen_field(rnd, date=rnd.random() < 0.25)
                f.update(rnd.choice(EXTRAS))
                fields[name] = shuffle_dict(rnd, f)
            check_set(b, {'fields': fields}, tmpdir, rnd, frs)
        # sets built through the Python API: the loaded set must hold the same values and give the
        # same verdicts as the ORIGINAL in-memory set
        from tdda.constraints.base import (DatasetConstraints, FieldConstraints, TypeConstraint,
                                           MinConstraint, MaxConstraint, SignConstraint, MaxNullsConstraint,
                                           AllowedValuesConstraint, RexConstraint, MinLengthConstraint,
                                           NoDuplicatesConstraint)
        from tdda.constraints.pd.constraints import PandasConstraintVerifier, PandasVerification
        import pandas as pd
        api_sets = []
        for prec in (None, 'closed', 'open', 'fuzzy'):
            api_sets.append(('date-bounds-%s' % prec,
                             [FieldConstraints('a', [TypeConstraint('date'),
                                                     MinConstraint(D(2020, 1, 1, 10, 20, 30), precision=prec),
                                                     MaxConstraint(D(2021, 6, 15, 12, 30, 0, 123456), precision=prec)])],
                             pd.DataFrame({'a': pd.to_datetime([D(2020, 1, 1, 10, 20, 30), D(2021, 6, 15, 12, 30, 0, 123456)])})))
            api_sets.append(('numeric-bounds-%s' % prec,
                             [FieldConstraints('a', [TypeConstraint('real'), MinConstraint(-1.25, precision=prec),
                                                     MaxConstraint(0.1 + 0.2, precision=prec), SignConstraint(None),
                                                     MaxNullsConstraint(1)])],
                             pd.DataFrame({'a': [-1.25, 0.1 + 0.2, None]})))
        api_sets.append(('strings', [FieldConstraints('é', [TypeConstraint('string'), MinLengthConstraint(1),
                                                             AllowedValuesConstraint(['a', "it's", 'é£']),
                                                             RexConstraint([r'^[a-z]+$', r"^it's$", '^é£$']),
                                                             NoDuplicatesConstraint()])],
                         pd.DataFrame({'é': pd.Series(['a', "it's", 'é£'], dtype=object)})))
        for label, fcs, df in api_sets:
            w = {'api_set': label}
            b.case(('api-set', label))
            dc = DatasetConstraints(fcs)
            with quiet():
                ok, t1 = b.guarded('C09.to_json.noraise', lambda: dc.to_json(), w)
            if not ok:
                continue
            path = os.path.join(tmpdir, 'apiset.tdda')
            with open(path, 'w', encoding='utf-8') as f:
                f.write(t1)
            with quiet():
                ok, dc2 = b.guarded('C09.load-file.noraise', lambda: DatasetConstraints(loadpath=path), w)
            if not ok:
                continue
            for fname, fc in dc.fields.items():
                for kind, c in fc.constraints.items():
                    c2 = dc2.fields[fname].constraints.get(kind) if fname in dc2.fields else None
                    same = (c2 is not None and c2.value == c.value and type(c2.value) is type(c.value)
                            and getattr(c2, 'precision', None) == getattr(c, 'precision', None))
                    b.check('C09.loaded-constraint-equals-original', same, dict(w, field=fname, kind=kind),
                            'original %r (%s), loaded %r (%s)' % (c.value, type(c.value).__name__,
                                                                  getattr(c2, 'value', None), type(getattr(c2, 'value', None)).__name__))
            try:
                with quiet():
                    v1 = PandasConstraintVerifier(df.copy()).verify(dc, VerificationClass=PandasVerification)
                    v2 = PandasConstraintVerifier(df.copy()).verify(dc2, VerificationClass=PandasVerification)
                r1 = {f: dict(r) for f, r in v1.fields.items()}
                r2 = {f: dict(r) for f, r in v2.fields.items()}
                b.check('C09.same-verdicts-before-and-after-round-trip', r1 == r2, w, 'original %r, loaded %r' % (r1, r2))
            except Exception as e:
                b.check('C09.verify-original-and-loaded.noraise', False, w, repr(e)[:300])
        # python-API built sets with datetime.date / datetime bounds
        from tdda.constraints.base import (DatasetConstraints, FieldConstraints, TypeConstraint,
                                           MinConstraint, MaxConstraint)
        for bound in (datetime.date(2020, 1, 1), D(2020, 1, 1), D(2020, 1, 1, 10, 20, 30, 123456)):
            for prec in (None, 'closed'):
                w = {'api': 'MinConstraint(%r, precision=%r)' % (bound, prec)}
                b.case(('api', repr(bound), prec))
                dc = DatasetConstraints([FieldConstraints('d', [TypeConstraint('date'),
                                                                MinConstraint(bound, precision=prec)])])
                with quiet():
                    ok, t1 = b.guarded('C09.to_json.noraise', lambda: dc.to_json(), w)
                if not ok:
                    continue
                path = os.path.join(tmpdir, 'api.tdda')
                with open(path, 'w', encoding='utf-8') as f:
                    f.write(t1)
                with quiet():
                    ok, dc2 = b.guarded('C09.load-file.noraise', lambda: DatasetConstraints(loadpath=path), w)
                if ok:
                    with quiet():
                        ok, t2 = b.guarded('C09.to_json.noraise', lambda: dc2.to_json(), w)
                    if ok:
                        # creation metadata (the tddafile path recorded on load) is not part of the constraint set
                        f1, f2 = t1.split('"fields"')[1], t2.split('"fields"')[1]
                        b.check('C09.round-trip-identical-text', f1 == f2, w, '%r vs %r' % (f1[-120:], f2[-120:]))
        # a field that has no constraints at all (recorded finding: written as {}, dropped on load)
        w = {'api': 'field without constraints: DatasetConstraints([FieldConstraints("e", []), FieldConstraints("a", [TypeConstraint("int")])])'}
        b.case(('api', 'empty-field'))
        dc = DatasetConstraints([FieldConstraints('e', []), FieldConstraints('a', [TypeConstraint('int')])])
        with quiet():
            ok, t1 = b.guarded('C09.to_json.noraise', lambda: dc.to_json(), w)
        if ok:
            d2 = DatasetConstraints()
            with quiet():
                ok, _ = b.guarded('C09.load-dict.noraise', lambda: d2.initialize_from_dict(json.loads(t1)), w)
            if ok:
                with quiet():
                    ok, t2 = b.guarded('C09.to_json.noraise', lambda: d2.to_json(), w)
                if ok:
                    b.check('C09.round-trip-identical-text', t1.split('"fields"')[1] == t2.split('"fields"')[1], w,
                            'written %r, after loading %r' % (json.loads(t1)['fields'], json.loads(t2)['fields']))
    finally:
        shutil.rmtree(tmpdir, ignore_errors=True)
    return b


# ---------------------------------------------------------------------------
# get_date(str(d)) == d: every microsecond value, every calendar field value
# (complete enumeration of each field's domain; replaces the assumption that
# str(datetime) is the layout get_date parses)
# ---------------------------------------------------------------------------

def _date_chunk(args):
    lo, hi = args
    from tdda.constraints.base import get_date
    bad = []
    n = 0
    for u in range(lo, hi):
        d = datetime.datetime(2001, 2, 3, 4, 5, 6, u)
        for form, text in (('str', str(d)), ('isoformat', d.isoformat())):
            n += 1
            try:
                got = get_date(text)
            except Exception as e:      # noqa
                got = 'raised %s' % type(e).__name__
            if got != d:
                bad.append({'text': text, 'form': form, 'got': repr(got), 'expected': repr(d)})
                if len(bad) > 20:
                    return n, bad
    return n, bad


def date_text_roundtrip(procs=16):
    import multiprocessing
    from tdda.constraints.base import get_date
    step = 1000000 // 64
    jobs = [(lo, min(lo + step, 1000000)) for lo in range(0, 1000000, step)]
    n, bad = 0, []
    with multiprocessing.get_context('fork').Pool(procs) as pool:
        for k, b in pool.imap_unordered(_date_chunk, jobs):
            n += k
            bad.extend(b)
    fields = []
    for m in range(1, 13):
        for dd in range(1, 32):
            try:
                fields.append(datetime.datetime(2000, m, dd, 23, 59, 58, 999999))
            except ValueError:
                pass
    fields += [datetime.datetime(2020, 1, 1, h, 0, 0) for h in range(24)]
    fields += [datetime.datetime(2020, 1, 1, 0, mi, 0) for mi in range(60)]
    fields += [datetime.datetime(2020, 1, 1, 0, 0, s) for s in range(60)]
    fields += [datetime.datetime(y, 12, 31, 1, 2, 3, 40) for y in (1, 99, 999, 1000, 1582, 1900, 1970, 2038, 9999)]
    for d in fields:
        for text, want in ((str(d), d), (d.isoformat(), d),
                           (str(d.date()), datetime.datetime.combine(d.date(), datetime.time()))):
            n += 1
            try:
                got = get_date(text)
            except Exception as e:      # noqa
                got = 'raised %s: %s' % (type(e).__name__, e)
            if got != want:
                bad.append({'text': text, 'got': repr(got), 'expected': repr(want)})
    return n, bad
