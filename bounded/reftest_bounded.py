"""
Bounded layer for C10 (regeneration) and C19 (argv handling, tag selection):
runtime contracts on the real referencetest code.
"""
import io
import itertools
import os
import random
import shutil
import sys
import tempfile
import contextlib
import unittest

from bounded.core import Bounded


@contextlib.contextmanager
def quiet():
    so, se = sys.stdout, sys.stderr
    sys.stdout = sys.stderr = io.StringIO()
    try:
        yield
    finally:
        sys.stdout, sys.stderr = so, se


# ---------------------------------------------------------------------------
# argv: reference parser written from the docstring of _set_flags_from_argv
# and the statements of C10 / C19
# ---------------------------------------------------------------------------

TOKENS = ['-1', '--tagged', '-0', '--istagged', '-W', '--W', '--write-all',
          '-w', '--w', '--write', '--wquiet', '-wquiet', '-v', '-q', '-f',
          '-v1', '-W0', 'TestA', 'table', 'graph,table']
WRITE = ('-w', '--w', '--write')
WRITE_ALL = ('--W', '--write-all')


def judgeable(rest):
    """Sequences whose meaning the documents fix (see DESIGN C19): tdda single-dash
    flags only in the leading run of single-dash arguments; at most one write-all
    spelling; a write option, if any, followed by at least one kind and nothing
    but kinds; --tagged / --istagged at most once; kind names only after a write option."""
    lead = True
    for a in rest:
        single = a.startswith('-') and not a.startswith('--')
        if not single:
            lead = False
        elif not lead and any(c in a[1:] for c in 'W10') and a not in ('-w', '-wquiet'):
            return False
    if sum(rest.count(x) for x in WRITE_ALL) > 1:
        return False
    if sum(rest.count(x) for x in WRITE) > 1:
        return False
    for x in ('--tagged', '--istagged', '-wquiet', '--wquiet'):
        if rest.count(x) > 1:
            return False
    kinds = ('table', 'graph,table')
    wpos = [i for i, a in enumerate(rest) if a in WRITE]
    if wpos:
        after = rest[wpos[0] + 1:]
        if not after or any(a not in kinds for a in after):
            return False
        if any(a in kinds for a in rest[:wpos[0]]):
            return False
        # '-w' is itself a single-dash argument: everything before it must be too,
        # or it is not reached by the leading scan -- irrelevant, it is looked up by name
    elif any(a in kinds for a in rest):
        return False
    return True


def spec_argv(argv):
    prog, rest = argv[0], list(argv[1:])
    tagged = check = regen_all = False
    out = []
    i = 0
    while i < len(rest) and rest[i].startswith('-') and not rest[i].startswith('--'):
        letters = rest[i][1:]
        if 'W' in letters:
            regen_all = True
        if '1' in letters:
            tagged = True
        if '0' in letters:
            check = True
        stripped = '-' + ''.join(c for c in letters if c not in 'W10')
        if stripped != '-':
            out.append(stripped)
        i += 1
    out += rest[i:]
    for q in ('-wquiet', '--wquiet'):
        if q in out:
            out.remove(q)
    for wa in WRITE_ALL:
        if wa in out:
            out.remove(wa)
            regen_all = True
    kinds = []
    for wf in WRITE:
        if wf in out:
            idx = out.index(wf)
            for r in out[idx + 1:]:
                kinds.extend(r.split(','))
            out = out[:idx]
            break
    if '--tagged' in out:
        out.remove('--tagged')
        tagged = True
    if '--istagged' in out:
        out.remove('--istagged')
        check = True
    table = {k: True for k in kinds}
    if regen_all:
        table[None] = True
    return [prog] + out, tagged, check, table


def run_argv(b, max_len):
    from tdda.referencetest import referencetestcase as rtc
    from tdda.referencetest.referencetest import ReferenceTest
    saved = dict(ReferenceTest.regenerate)
    saved_verbose = ReferenceTest.verbose
    try:
        for n in range(0, max_len + 1):
            for rest in itertools.product(TOKENS, repeat=n):
                rest = list(rest)
                if not judgeable(rest):
                    continue
                argv = ['prog'] + rest
                b.case(('argv', tuple(rest)))
                ReferenceTest.regenerate.clear()
                w = {'argv': argv}
                with quiet():
                    ok, got = b.guarded('C19.set_flags_from_argv.noraise',
                                        lambda: rtc._set_flags_from_argv(list(argv)), w)
                if not ok:
                    continue
                table = dict(ReferenceTest.regenerate)
                want = spec_argv(argv)
                b.check('C19.argv.returned-argv', list(got[0]) == want[0], w,
                        'got %r, documented %r' % (got[0], want[0]))
                b.check('C19.argv.tagged-check', (bool(got[1]), bool(got[2])) == (want[1], want[2]), w,
                        'got tagged=%r check=%r, documented %r %r' % (got[1], got[2], want[1], want[2]))
                b.check('C10.argv.regeneration-table', table == want[3], w,
                        'got %r, documented %r' % (table, want[3]))
    finally:
        ReferenceTest.regenerate.clear()
        ReferenceTest.regenerate.update(saved)
        ReferenceTest.verbose = saved_verbose


# ---------------------------------------------------------------------------
# C10: normal mode never touches the reference; regenerate-then-check passes
# ---------------------------------------------------------------------------

TEXTS = ['', 'a', 'a\n', 'a\nb', 'a\nb\n', 'a\r\nb\r\n', 'é£\n', ' a \n\tb\n', 'x\n\n', 'a\n\nb']
BYTES = [b'', b'\x00', b'abc', b'\xff\xfe\x00a', b'a\nb\r\n']


class AssertionFailed(Exception):
    pass


def _assert_fn(ok, msg=''):
    if not ok:
        raise AssertionFailed(msg)


def snapshot(path):
    if not os.path.exists(path):
        return None
    st = os.stat(path)
    with open(path, 'rb') as f:
        return (st.st_mtime_ns, st.st_size, f.read())


def run_regeneration(b, tier, seed):
    from tdda.referencetest.referencetest import ReferenceTest
    import pandas as pd
    saved = dict(ReferenceTest.regenerate)
    top = tempfile.mkdtemp(prefix='verif-c10-')
    try:
        refdir = os.path.join(top, 'ref')
        tmpdir = os.path.join(top, 'tmp')
        actdir = os.path.join(top, 'act')
        for d in (refdir, tmpdir, actdir):
            os.makedirs(d)
        ReferenceTest.set_defaults(tmp_dir=tmpdir, verbose=False)
        rt = ReferenceTest(_assert_fn)
        rt.set_data_location(refdir)

        def mk_actual(name, content, binary):
            p = os.path.join(actdir, name)
            with open(p, 'wb') as f:
                f.write(content if binary else content.encode('utf-8'))
            return p

        frames = [pd.DataFrame({'a': [1, 2], 'b': [1.5, None]}),
                  pd.DataFrame({'a': pd.Series([], dtype='int64')}),
                  pd.DataFrame({'s': pd.Series(['x', None, 'é'], dtype=object), 'n': [1, 2, 3]})]

        def scenarios():
            for t in TEXTS:
                yield ('string', t)
                yield ('textfile', t)
            # the same assertions with stripping asked for, on texts with blank lines at either end
            for t in ('alpha\nbeta\n\n\n', '\n\nalpha\nbeta\n', '  a  \n\n', ' \n a\n'):
                for opt in ('lstrip', 'rstrip', 'lstrip+rstrip'):
                    yield ('string+' + opt, t)
                    yield ('textfile+' + opt, t)
            for pair in itertools.islice(itertools.product(TEXTS, repeat=2), 0, None, 7):
                yield ('textfiles', pair)
            for bb in BYTES:
                yield ('binary', bb)
            for i in range(len(frames)):
                yield ('frame', i)
            # the legacy CSV-file assertion: a frame written as CSV, checked against a CSV reference of kind `kind`
            yield ('csvfile', 0)

        def do_assert(what, content, refname, kind):
            what, _, opt = what.partition('+')
            kw = {o: True for o in opt.split('+') if o}
            if what == 'string':
                rt.assertStringCorrect(content, refname, kind=kind, **kw)
            elif what == 'textfile':
                rt.assertTextFileCorrect(mk_actual('act.txt', content, False), refname, kind=kind, **kw)
            elif what == 'textfiles':
                a = [mk_actual('act%d.txt' % i, c, False) for i, c in enumerate(content)]
                rt.assertTextFilesCorrect(a, [refname + '.0', refname + '.1'], kind=kind)
            elif what == 'binary':
                rt.assertBinaryFileCorrect(mk_actual('act.bin', content, True), refname, kind=kind)
            elif what == 'frame':
                rt.assertDataFrameCorrect(frames[content], refname, kind=kind)
            elif what == 'csvfile':
                p = os.path.join(actdir, 'act.csv')
                frames[content].to_csv(p, index=False)
                rt.assertCSVFileCorrect(p, refname, kind=kind)

        def refs_of(what, refname):
            if what == 'textfiles':
                return [os.path.join(refdir, refname + '.0'), os.path.join(refdir, refname + '.1')]
            return [os.path.join(refdir, refname)]

        for what, content in scenarios():
            refname = {'string': 'r.txt', 'textfile': 'r.txt', 'textfiles': 'r.txt',
                       'binary': 'r.bin', 'frame': 'r.parquet', 'csvfile': 'r.csv'}[what.partition('+')[0]]
            w = {'assertion': what, 'content': repr(content)[:120]}
            for kind in (None, 'table'):
                # --- normal mode, for each history of the reference file -----------
                for history in ('absent', 'same', 'different'):
                    for p in refs_of(what, refname):
                        if os.path.exists(p):
                            os.unlink(p)
                    ReferenceTest.regenerate.clear()
                    if history != 'absent':
                        # create the reference by regeneration, then (for 'different') edit it
                        ReferenceTest.regenerate[kind] = True
                        with quiet():
                            okr, _ = b.guarded('C10.regenerate.noraise',
                                               lambda: do_assert(what, content, refname, kind),
                                               dict(w, kind=kind, phase='regenerate'))
                        ReferenceTest.regenerate.clear()
                        if not okr:
                            continue
                        if history == 'different':
                            for p in refs_of(what, refname):
                                if what == 'frame':
                                    pd.DataFrame({'zz': [9]}).to_parquet(p)
                                else:
                                    with open(p, 'ab') as f:
                                        f.write(b'EXTRA\n')
                    # settings under which THIS kind must not be regenerated
                    for table in ({}, {'graph': True}, {kind: False}, {None: True, kind: False},
                                  {'graph': True, kind: False}):
                        if kind is None and None in table and table[None] is True:
                            continue
                        ReferenceTest.regenerate.clear()
                        ReferenceTest.regenerate.update(table)
                        before = [snapshot(p) for p in refs_of(what, refname)]
                        w2 = dict(w, kind=kind, history=history, table=repr(table))
                        b.case(('normal', what, repr(content), kind, history, repr(table)))
                        outcome = 'pass'
                        try:
                            with quiet():
                                do_assert(what, content, refname, kind)
                        except AssertionFailed:
                            outcome = 'fail'
                        except Exception as e:
                            outcome = 'error:' + type(e).__name__
                        after = [snapshot(p) for p in refs_of(what, refname)]
                        b.check('C10.normal-mode-never-touches-reference', before == after,
                                dict(w2, outcome=outcome),
                                'reference changed in normal mode (outcome %s)' % outcome)
                        if history == 'same':
                            b.check('C10.regenerated-reference-passes', outcome == 'pass', w2,
                                    'after regeneration the same assertion gave: %s' % outcome)
                        if history == 'different' and what != 'frame':
                            b.check('C10.edited-reference-fails', outcome == 'fail', w2,
                                    'reference was edited but the assertion gave: %s' % outcome)
                # --- regeneration mode for this kind: reference is written --------
                for table in ({kind: True}, {None: True}, {None: False, kind: True}):
                    if kind is None and table == {None: False, None: True}:
                        continue
                    for f in os.listdir(refdir):
                        os.unlink(os.path.join(refdir, f))
                    ReferenceTest.regenerate.clear()
                    ReferenceTest.regenerate.update(table)
                    w2 = dict(w, kind=kind, table=repr(table), phase='regenerate')
                    b.case(('regen', what, repr(content), kind, repr(table)))
                    with quiet():
                        ok, _ = b.guarded('C10.regenerate.noraise',
                                          lambda: do_assert(what, content, refname, kind), w2)
                    if ok:
                        b.check('C10.regeneration-writes-reference',
                                all(os.path.exists(p) for p in refs_of(what, refname)), w2)
                        others = [f for f in os.listdir(refdir)
                                  if os.path.join(refdir, f) not in refs_of(what, refname)]
                        b.check('C10.regeneration-writes-only-the-reference', not others, w2,
                                'also written: %r' % others)
                        for f in others:
                            os.unlink(os.path.join(refdir, f))
    finally:
        ReferenceTest.regenerate.clear()
        ReferenceTest.regenerate.update(saved)
        ReferenceTest.set_defaults(verbose=True)
        shutil.rmtree(top, ignore_errors=True)


# ---------------------------------------------------------------------------
# C19: tag selection on generated test modules, run in-process
# ---------------------------------------------------------------------------

def make_module(spec):
    """
    spec: list of (class name, class tagged?, base index or None, [(method name, tagged?)]).
    Returns (module, log list).
    """
    import types
    from tdda.referencetest import ReferenceTestCase, tag
    mod = types.ModuleType('verif_generated_tests')
    log = []
    classes = []
    for cname, ctag, base, methods in spec:
        ns = {}
        for mname, mtag in methods:
            def mk(mname=mname, cname=cname):
                def test(self):
                    log.append('%s.%s' % (type(self).__name__, mname))
                test.__name__ = mname
                return test
            f = mk()
            if mtag:
                f = tag(f)
            ns[mname] = f
        bases = (classes[base],) if base is not None else (ReferenceTestCase,)
        cls = type(cname, bases, ns)
        cls.__module__ = mod.__name__
        if ctag:
            cls = tag(cls)
        classes.append(cls)
        setattr(mod, cname, cls)
    sys.modules[mod.__name__] = mod
    return mod, log, classes


def expected_tests(classes, names=None):
    """(all tests, tagged tests) as 'Class.method', per unittest discovery + the tag rule."""
    loader = unittest.TestLoader()
    alltests, tagged = [], []
    for cls in classes:
        if names and cls.__name__ not in names:
            continue
        for m in loader.getTestCaseNames(cls):
            t = '%s.%s' % (cls.__name__, m)
            alltests.append(t)
            if getattr(cls, '_tagged', False) or getattr(getattr(cls, m), '_tagged', False):
                tagged.append(t)
    return sorted(alltests), sorted(tagged)


MODULE_SPECS = [
    [('TestA', False, None, [('test_a1', True), ('test_a2', False)]),
     ('TestB', True, None, [('test_b1', False), ('test_b2', False)])],
    [('TestA', False, None, [('test_a1', False)]),
     ('TestB', False, None, [('test_b1', False)])],
    [('TestA', False, None, [('test_a1', True), ('test_a2', True)]),
     ('TestB', False, 0, [('test_b1', False)])],          # B inherits tagged methods of A
    [('TestA', True, None, [('test_a1', False)]),
     ('TestB', False, 0, [('test_b1', False)])],          # B inherits A's class tag
    [('TestA', False, None, [])],
    # a tagged class that also has tagged methods: the class tag still selects all of its tests
    [('TestA', True, None, [('test_a1', True), ('test_a2', False), ('test_a3', False)]),
     ('TestB', False, None, [('test_b1', True), ('test_b2', False)]),
     ('TestC', True, 1, [('test_c1', False)])],
    [('TestA', False, None, [('test_a1', True)]),
     ('TestB', False, None, [('test_b1', True)]),
     ('TestC', False, None, [('test_c1', False)])],
]

ARGVS = [[], ['-1'], ['--tagged'], ['-0'], ['--istagged'], ['-v', '-1'], ['-1', '-v'], ['-v1'],
         ['-q', '--tagged'], ['--tagged', '-q'], ['-1', 'TestA'], ['--tagged', 'TestA'], ['-0', 'TestA'],
         ['TestA'], ['-f', '-1', 'TestA'], ['-1', '-0'], ['--tagged', '--istagged'], ['-1W'],
         ['-1', '--write-all'], ['--tagged', '-w', 'table'], ['-v'], ['-q', 'TestA']]


def run_tags(b):
    from tdda.referencetest import ReferenceTestCase
    from tdda.referencetest.referencetest import ReferenceTest
    saved = dict(ReferenceTest.regenerate)
    try:
        for si, spec in enumerate(MODULE_SPECS):
            for args in ARGVS:
                mod, log, classes = make_module(spec)
                names = [a for a in args if a.startswith('Test')]
                if any(n not in [c.__name__ for c in classes] for n in names):
                    continue
                alltests, tagged = expected_tests(classes, names)
                w = {'module': repr(spec), 'argv': args}
                b.case(('tags', si, tuple(args)))
                listing = any(a in ('-0', '--istagged') for a in args) or any(
                    a.startswith('-') and not a.startswith('--') and '0' in a[1:] for a in args)
                tagging = any(a in ('-1', '--tagged') for a in args) or any(
                    a.startswith('-') and not a.startswith('--') and '1' in a[1:] for a in args)
                ReferenceTest.regenerate.clear()
                out = io.StringIO()
                code = None
                so, se = sys.stdout, sys.stderr
                sys.stdout = sys.stderr = out
                try:
                    try:
                        ReferenceTestCase.main(module=mod, argv=['prog'] + list(args), exit=True)
                    except SystemExit as e:
                        code = e.code
                    except Exception as e:
                        code = 'EXC %s: %s' % (type(e).__name__, e)
                finally:
                    sys.stdout, sys.stderr = so, se
                ran = sorted(log)
                if isinstance(code, str):
                    b.check('C19.run.noraise', False, w, code)
                    continue
                if listing:
                    b.check('C19.listing-runs-nothing', ran == [], w, 'ran %r' % ran)
                    owners = sorted(set('%s.%s' % (mod.__name__, t.split('.')[0]) for t in tagged))
                    printed = sorted(set(l.strip() for l in out.getvalue().splitlines()
                                         if l.strip().startswith(mod.__name__ + '.')))
                    b.check('C19.listing-names-classes-with-tagged-tests', printed == owners, w,
                            'printed %r, expected %r' % (printed, owners))
                elif tagging:
                    b.check('C19.tagged-runs-exactly-tagged', ran == tagged, w,
                            'ran %r, tagged %r' % (ran, tagged))
                else:
                    b.check('C19.untagged-runs-everything', ran == alltests, w,
                            'ran %r, all %r' % (ran, alltests))
                b.check('C19.each-test-once', len(ran) == len(set(ran)), w, 'ran %r' % ran)
    finally:
        ReferenceTest.regenerate.clear()
        ReferenceTest.regenerate.update(saved)
        sys.modules.pop('verif_generated_tests', None)


def run(props, tier, seed):
    b = Bounded(
        'argv: every judgeable sequence of <= N tokens from %d spellings against a reference parser written '
        'from the docstring; regeneration: every (assertion kind x content x reference history x '
        'regeneration table) combination listed in bounded/reftest_bounded.py; tag selection: generated '
        'test modules x argv forms run in-process with a side-effect log' % len(TOKENS),
        'argv length <= %d; %d text contents, %d byte strings, 3 frames; %d module shapes x %d argv forms'
        % (3 if tier == 'quick' else 4, len(TEXTS), len(BYTES), len(MODULE_SPECS), len(ARGVS)))
    run_argv(b, 3 if tier == 'quick' else 4)
    if 'C10' in props:
        run_regeneration(b, tier, seed)
    if 'C19' in props:
        run_tags(b)
    return b
