"""
bounded.core -- bookkeeping for the bounded stand-in layer (runtime contracts
on the real code over enumerated / seeded inputs).  Labelled *bounded* in all
evidence; never counted as proved.
"""
import hashlib
import json
import time
import traceback


class Bounded(object):
    def __init__(self, rule, bound):
        self.rule = rule
        self.bound = bound
        self.evaluations = 0
        self.distinct = set()
        self.samples = []
        self.failures = []        # (contract name, witness dict, detail)
        self.contracts = {}       # name -> evaluations
        self.t0 = time.time()
        self.max_fail_per_contract = 6

    def case(self, key, nontrivial=True):
        """Register one generated case (canonical key); returns True if new."""
        self.evaluations += 1
        if nontrivial:
            h = hashlib.md5(repr(key).encode('utf-8', 'replace')).hexdigest()[:16]
            if h not in self.distinct:
                self.distinct.add(h)
                if len(self.samples) < 8 and len(self.distinct) % 7 == 1:
                    self.samples.append(_short(key))
                return True
        return False

    def check(self, name, ok, witness, detail=''):
        """One evaluation of runtime contract `name`."""
        self.contracts[name] = self.contracts.get(name, 0) + 1
        if ok:
            return True
        n = sum(1 for f in self.failures if f[0] == name)
        if n < 400:
            self.failures.append((name, witness, detail))
        return False

    def guarded(self, name, fn, witness):
        """Run fn(); an exception is a failure of the 'never raises' contract `name`."""
        try:
            return True, fn()
        except Exception as e:
            self.check(name, False, witness,
                       '%s: %s' % (type(e).__name__, str(e)[:300]))
            return False, e

    def case_guard(self, prop, witness, fn):
        """Run one driver case; if the LIBRARY raises in a call the driver makes outside a `guarded` block (a call that
        works on the tree the driver was written against) that is a failure of `<prop>.driver.library-call-raised`;
        an exception from the driver's own code is re-raised (a checker error)."""
        import os, traceback
        n0 = len(self.failures)
        try:
            return fn()
        except Exception as e:
            repo = os.path.realpath(os.environ.get('VERIF_REPO', '/repo'))
            frames = traceback.extract_tb(e.__traceback__)
            if frames and os.path.realpath(frames[-1].filename).startswith(repo + os.sep):
                self.check('%s.driver.library-call-raised' % prop, False, witness,
                           ''.join(traceback.format_exception(type(e), e, e.__traceback__))[-900:])
                return None
            if len(self.failures) > n0:
                # the case had already failed a contract (e.g. the calculator audit): the driver's later steps
                # build on what the library reported and cannot be trusted to run; the recorded failures stand
                return None
            raise

    def as_dict(self):
        return {'label': 'bounded (runtime contracts on the real code; not proof)',
                'bound': self.bound, 'rule': self.rule,
                'evaluations': self.evaluations,
                'distinct_nontrivial': len(self.distinct),
                'contract_evaluations': self.contracts,
                'failures': len(self.failures),
                'seconds': round(time.time() - self.t0, 2),
                'samples': [{'bounded_case': s} for s in self.samples]}


def _short(x, n=300):
    try:
        s = json.dumps(x, default=repr)
    except Exception:
        s = repr(x)
    return s[:n]


def attach(ctx, b):
    """Merge a Bounded run into the check context."""
    d = b.as_dict()
    if ctx.bounded is None:
        ctx.bounded = d
    else:
        o = ctx.bounded
        o['evaluations'] += d['evaluations']
        o['distinct_nontrivial'] += d['distinct_nontrivial']
        o['contract_evaluations'].update(d['contract_evaluations'])
        o['failures'] += d['failures']
        o['seconds'] += d['seconds']
        o['samples'].extend(d['samples'])
        o['rule'] += ' | ' + d['rule']
        o['bound'] += ' | ' + d['bound']
    for name, witness, detail in b.failures:
        ctx.add_bounded_failure(name, witness, detail)
