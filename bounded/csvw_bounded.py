"""
C16: exhaustive-domain obligations on the date-format translation and the
type tables, and bounded CSV round trips through csv2pandas.
"""
import datetime
import io
import itertools
import json
import os
import random
import re
import shutil
import sys
import tempfile
import contextlib

from bounded.core import Bounded

TOKENS = {'d': '%d', 'dd': '%d', 'M': '%m', 'MM': '%m', 'yy': '%y', 'yyyy': '%Y',
          'HH': '%H', 'mm': '%M', 'ss': '%S', 'S': '%f', 'SS': '%f', 'SSS': '%f'}
SEPS = ['-', '/', '.', ':', ' ', 'T']


@contextlib.contextmanager
def quiet():
    so, se = sys.stdout, sys.stderr
    sys.stdout = sys.stderr = io.StringIO()
    try:
        yield
    finally:
        sys.stdout, sys.stderr = so, se


def expected_format(tokens, seps):
    out = TOKENS[tokens[0]]
    for s, t in zip(seps, tokens[1:]):
        out += s + TOKENS[t]
    return out


def exhaustive_formats(max_tokens):
    """Every separator-delimited sequence of <= max_tokens tokens (complete for that length)."""
    from tdda.serial.csvw import csvw_date_format_to_md_date_format as f
    from tdda.serial.base import RE_ISO8601
    n, bad = 0, []
    for k in range(1, max_tokens + 1):
        for toks in itertools.product(TOKENS, repeat=k):
            seps_iter = itertools.product(SEPS, repeat=k - 1) if k <= 2 else \
                [tuple(SEPS[(i + j) % len(SEPS)] for j in range(k - 1)) for i in range(len(SEPS))]
            for seps in seps_iter:
                fmt = toks[0] + ''.join(s + t for s, t in zip(seps, toks[1:]))
                want = expected_format(toks, seps)
                got = f(fmt)
                n += 1
                if got == want:
                    continue
                if got == 'ISO8601' and re.match(RE_ISO8601, want):
                    continue        # the documented shortcut
                bad.append({'format': fmt, 'translated': got, 'expected': want})
    return n, bad


def table_obligations():
    """CSVW datatype -> metadata type -> pandas dtype / date parser: total over the documented datatypes."""
    from tdda.serial.csvw import CSVW_TYPE_TO_MTYPE
    from tdda.serial.pandasio import MTYPE_TO_PANDAS_DTYPE
    documented = ['boolean', 'integer', 'string', 'number', 'datetime', 'date', 'double', 'decimal', 'float',
                  'long', 'int', 'short', 'byte', 'unsignedLong', 'unsignedInt', 'unsignedShort', 'unsignedByte',
                  'nonNegativeInteger', 'nonPositiveInteger', 'negativeInteger', 'positiveInteger',
                  'normalizedString', 'anyURI', 'token', 'language', 'Name', 'NMTOKEN', 'xml', 'html', 'json',
                  'dateTime', 'base64Binary', 'binary', 'hexBinary', 'anyAtomicType', 'dateTimeStamp', 'duration',
                  'dayTimeDuration', 'yearMonthDuration', 'time', 'QName', 'gDay', 'gMonth', 'gMonthDay', 'gYear',
                  'gYearMonth']
    family = {'bool': 'boolean', 'int': 'Int64', 'string': 'string', 'number': 'float'}
    want_m = lambda t: ('bool' if t == 'boolean' else
                        'int' if ('nteger' in t or t in ('long', 'int', 'short', 'byte') or t.startswith('unsigned')) else
                        'number' if t in ('number', 'double', 'decimal', 'float') else
                        'datetime' if t in ('datetime', 'dateTime') else
                        'date' if t == 'date' else 'string')
    bad = []
    for t in documented:
        m = CSVW_TYPE_TO_MTYPE.get(t)
        if m != want_m(t):
            bad.append({'datatype': t, 'mtype': m, 'expected': want_m(t)})
            continue
        p = MTYPE_TO_PANDAS_DTYPE.get(m)
        if m in ('date', 'datetime'):
            continue
        if p != family[m]:
            bad.append({'datatype': t, 'mtype': m, 'pandas': p, 'expected': family[m]})
    return len(documented), bad


# ---------------------------------------------------------------------------
# bounded: round trips
# ---------------------------------------------------------------------------

INSTANTS = [datetime.datetime(2024, 1, 1, 11, 11, 11), datetime.datetime(1999, 12, 31, 23, 59, 59, 500000),
            datetime.datetime(2038, 7, 4, 0, 0, 0, 123000), datetime.datetime(2001, 2, 3, 4, 5, 6)]


def render(dt, toks, seps):
    """Write an instant the way the CSVW pattern says (independent of strftime directives)."""
    def tok(t):
        return {'d': str(dt.day), 'dd': '%02d' % dt.day, 'M': str(dt.month), 'MM': '%02d' % dt.month,
                'yy': '%02d' % (dt.year % 100), 'yyyy': '%04d' % dt.year, 'HH': '%02d' % dt.hour,
                'mm': '%02d' % dt.minute, 'ss': '%02d' % dt.second,
                'S': '%01d' % (dt.microsecond // 100000), 'SS': '%02d' % (dt.microsecond // 10000),
                'SSS': '%03d' % (dt.microsecond // 1000)}[t]
    out = tok(toks[0])
    for s, t in zip(seps, toks[1:]):
        out += s + tok(t)
    return out


DATE_PATTERNS = [
    (('yyyy', 'MM', 'dd'), ('-', '-')), (('dd', 'MM', 'yyyy'), ('/', '/')), (('d', 'M', 'yyyy'), ('.', '.')),
    (('MM', 'dd', 'yy'), ('/', '/')), (('yyyy', 'MM', 'dd', 'HH', 'mm', 'ss'), ('-', '-', 'T', ':', ':')),
    (('dd', 'MM', 'yyyy', 'HH', 'mm'), ('-', '-', ' ', ':')),
    (('yyyy', 'MM', 'dd', 'HH', 'mm', 'ss', 'SSS'), ('-', '-', ' ', ':', ':', '.')),
    (('d', 'M', 'yy', 'HH', 'mm', 'ss'), ('/', '/', ' ', ':', ':')),
    (('yyyy', 'M', 'd'), ('/', '/')), (('HH', 'mm', 'ss', 'dd', 'MM', 'yyyy'), (':', ':', ' ', '.', '.')),
    # ISO-ordered date and time whose fraction is set off by something other than '.': NOT the ISO 8601 layout
    (('yyyy', 'MM', 'dd', 'HH', 'mm', 'ss', 'SSS'), ('-', '-', ' ', ':', ':', ':')),
    (('yyyy', 'MM', 'dd', 'HH', 'mm', 'ss', 'SSS'), ('-', '-', 'T', ':', ':', ' ')),
    (('yyyy', 'MM', 'dd', 'HH', 'mm', 'ss', 'SSS'), ('-', '-', ' ', ':', ':', '-')),
    (('yyyy', 'MM', 'dd', 'HH', 'mm', 'ss', 'SSS'), ('-', '-', 'T', ':', ':', '.')),
]


def field_resolution(toks):
    """What of an instant a pattern can carry."""
    keep = dict(year='yyyy' in toks or 'yy' in toks, month='M' in toks or 'MM' in toks,
                day='d' in toks or 'dd' in toks, hour='HH' in toks, minute='mm' in toks, second='ss' in toks,
                frac=3 if 'SSS' in toks else 2 if 'SS' in toks else 1 if 'S' in toks else 0)
    return keep


def truncate(dt, toks):
    k = field_resolution(toks)
    us = 0
    if k['frac']:
        q = 10 ** (6 - k['frac'])
        us = dt.microsecond // q * q
    return datetime.datetime(dt.year, dt.month if k['month'] else 1, dt.day if k['day'] else 1,
                             dt.hour if k['hour'] else 0, dt.minute if k['minute'] else 0,
                             dt.second if k['second'] else 0, us)


def run_round_trips(b, tier, seed):
    import pandas as pd
    from tdda.serial.reader import csv2pandas
    from tdda.serial.csvw import csvw_date_format_to_md_date_format as f
    rnd = random.Random(seed)
    top = tempfile.mkdtemp(prefix='verif-c16-')
    try:
        # 1. strptime with the translated format reads back exactly what was written
        for toks, seps in DATE_PATTERNS:
            fmt = toks[0] + ''.join(s + t for s, t in zip(seps, toks[1:]))
            tr = f(fmt)
            for dt in INSTANTS:
                text = render(dt, toks, seps)
                w = {'pattern': fmt, 'translated': tr, 'text': text}
                b.case(('strptime', fmt, text))
                if tr == 'ISO8601':
                    ok, got = b.guarded('C16.translated-format-parses',
                                        lambda: pd.to_datetime(text, format='ISO8601').to_pydatetime(), w)
                    if not ok:
                        continue
                else:
                    ok, got = b.guarded('C16.translated-format-parses', lambda: datetime.datetime.strptime(text, tr), w)
                    if not ok:
                        continue
                want = truncate(dt, toks)
                if 'yy' in toks and 'yyyy' not in toks:
                    want = want.replace(year=got.year) if got.year % 100 == want.year % 100 else want
                b.check('C16.reads-back-the-instant-written', got == want, w, 'read %r, wrote %r' % (got, want))
        # 2. csv2pandas with CSVW metadata
        delims = [',', '|', '\t', ';']
        encs = ['utf-8', 'latin-1', 'utf-16']
        bools = [('true', 'false'), ('Y', 'N'), ('1', '0')]
        ncase = 60 if tier == 'quick' else 600
        for i in range(ncase):
            delim = rnd.choice(delims)
            enc = rnd.choice(encs)
            header = rnd.random() < 0.8
            tb, fb = rnd.choice(bools)
            toks, seps = rnd.choice(DATE_PATTERNS)
            dfmt = toks[0] + ''.join(s + t for s, t in zip(seps, toks[1:]))
            nrows = rnd.randint(1, 4)
            rows = []
            for r in range(nrows):
                rows.append({
                    'i': rnd.choice([0, -5, 12345678901, None]),
                    'x': rnd.choice([0.5, -2.25, 1e10, None]),
                    's': rnd.choice(['a', 'é', 'two words', 'q"uote' if delim != ',' else 'plain', None]),
                    'b': rnd.choice([True, False, None]),
                    'd': rnd.choice(INSTANTS + [None]),
                })
            if enc == 'latin-1':
                for r in rows:
                    if r['s'] == 'é':
                        r['s'] = 'e'
            cols = ['i', 'x', 's', 'b', 'd']
            def cell(c, v):
                if v is None:
                    return ''
                if c == 'b':
                    return tb if v else fb
                if c == 'd':
                    return render(v, toks, seps)
                if c == 's' and ('"' in v or delim in v):
                    return '"' + v.replace('"', '""') + '"'
                return repr(v) if c == 'x' else str(v)
            # CSVW `titles`: none, some or all of the columns carry a title, and the header row then holds the title
            # instead of the declared name
            rnd2 = random.Random(seed * 7919 + i)
            titled = {0: [], 1: rnd2.sample(cols, rnd2.randint(1, 4)), 2: list(cols), 3: []}[i % 4]
            titles = {c: 'Title of %s' % c for c in titled}
            lines = ([delim.join(titles.get(c, c) for c in cols)] if header else []) \
                + [delim.join(cell(c, r[c]) for c in cols) for r in rows]
            data = os.path.join(top, 'data%d.csv' % i)
            with open(data, 'w', encoding=enc, newline='') as fh:
                fh.write('\n'.join(lines) + '\n')
            # the presence / absence of a header row is spelled in every way the dialect allows
            hspell = i % 3
            dialect = {'delimiter': delim, 'encoding': enc}
            if hspell == 0 or (hspell == 2 and not header):
                dialect['header'] = header
            if hspell in (0, 1):
                dialect['headerRowCount'] = 1 if header else 0
            md = {'@context': 'http://www.w3.org/ns/csvw',
                  'dialect': dialect,
                  'tables': [{'url': os.path.basename(data),
                              'tableSchema': {'columns': [
                                  {'name': 'i', 'datatype': 'integer'}, {'name': 'x', 'datatype': 'number'},
                                  {'name': 's', 'datatype': 'string'},
                                  {'name': 'b', 'datatype': {'base': 'boolean', 'format': '%s|%s' % (tb, fb)}},
                                  {'name': 'd', 'datatype': {'base': 'datetime', 'format': dfmt}}]}}]}
            for col in md['tables'][0]['tableSchema']['columns']:
                if col['name'] in titles:
                    col['titles'] = titles[col['name']] if i % 2 else [titles[col['name']]]
            mdp = os.path.join(top, 'data%d-metadata.json' % i)
            with open(mdp, 'w') as fh:
                json.dump(md, fh)
            w = {'delimiter': delim, 'encoding': enc, 'header': header, 'dialect': dialect, 'booleans': [tb, fb],
                 'titles': titles, 'date_format': dfmt, 'rows': [{k: repr(v) for k, v in r.items()} for r in rows]}
            b.case(('csv', i, delim, enc, header, tb, dfmt, repr(rows)))
            with quiet():
                ok, df = b.guarded('C16.csv2pandas.noraise', lambda: csv2pandas(data, mdp), w)
            if not ok:
                continue
            b.check('C16.column-names', list(df) == cols, w, repr(list(df)))
            if list(df) != cols or len(df) != nrows:
                b.check('C16.row-count', len(df) == nrows, w, '%d vs %d' % (len(df), nrows))
                continue
            for c in cols:
                vals = df[c].tolist()
                for r, v in zip(rows, vals):
                    want = r[c]
                    isnull = v is None or v is pd.NA or v is pd.NaT or (isinstance(v, float) and v != v)
                    if want is None:
                        b.check('C16.value.%s' % c, isnull, dict(w, column=c), 'read %r, wrote null' % (v,))
                    elif c == 'd':
                        wt = truncate(want, toks)
                        okv = (not isnull) and pd.Timestamp(v).to_pydatetime().replace(
                            year=wt.year if 'yyyy' not in toks else pd.Timestamp(v).year) == wt
                        b.check('C16.value.d', okv, dict(w, column=c), 'read %r, wrote %r' % (v, wt))
                    else:
                        b.check('C16.value.%s' % c, (not isnull) and v == want, dict(w, column=c),
                                'read %r, wrote %r' % (v, want))
            dt = {c: str(df[c].dtype) for c in cols}
            b.check('C16.declared-types',
                    dt['i'].lower().startswith('int') and dt['x'].startswith('float')
                    and dt['s'] in ('string', 'object', 'str') and dt['b'] in ('boolean', 'bool')
                    and dt['d'].startswith('datetime64'), w, repr(dt))
    finally:
        shutil.rmtree(top, ignore_errors=True)


def run(props, tier, seed):
    b = Bounded('strptime round trips of 4 instants through 10 composed CSVW patterns; seeded CSV files (integer / number / '
                'string / boolean / datetime columns with nulls) x delimiters , | tab ; x encodings utf-8 / latin-1 / utf-16 '
                'x header present/absent x boolean spellings x date patterns, read back with csv2pandas and CSVW metadata',
                '%d files, <= 4 rows each' % (60 if tier == 'quick' else 600))
    run_round_trips(b, tier, seed)
    return b
