"""
Bounded layer for C11 / C12: gentest on a family of deterministic shell
commands (runtime contracts on the real generator; the generated script is run
in a subprocess).
"""
import io
import multiprocessing
import os
import random
import re
import shutil
import subprocess
import sys
import tempfile
import traceback
import contextlib

from bounded.core import Bounded

PY = sys.executable

OUTPUTS = [
    'hello\n', '', 'no newline at end', 'two\nlines\n',
    'date 2024-01-15 and 31/02/2020\n', 'at 11:22:33 today\n', 'version 1.2.0 build 15\n',
    '14 feb 2021 and Feb 30, 2021\n', 'path /usr/local/bin and ./rel/x.txt\n',
    'quotes \' " and back\\slash\n', 'regex .* [a-z]+ (x|y) ^$ {2}\n', 'unicode é£ Ω ٣\n',
    'tab\there\n', '%s %d %%\n', 'line1\n\nline3\n',
    'loaded 12 plugins, python 3.11.4\n', 'report for site A on 12/25/2031\nsecond line\n',
    'build 7.30.1999 done\n',
    # full date-and-time stamps (constant text here, not the time of the run) next to ordinary lines
    'started 2024-01-15 10:20:30\nresult 42\n', 'log 2021-06-15T12:30:00.123456 ok\nplain line\n',
    'Mon Jan 15 10:20:30 2024\nvalue=7\n',
]


def sh_quote(s):
    return "'" + s.replace("'", "'\"'\"'") + "'"


def make_cmd(workdir, out, err, code, files, extra=()):
    """Write cmd.sh producing exactly these outputs; the command line is constant.  `extra` are shell lines whose
    output depends on the environment the command runs in (temporary directory, cwd, host, user): repeatable, but
    different text under gentest's own TMPDIR and under the generated script's."""
    lines = ['#!/bin/sh']
    lines.extend(extra)
    if out:
        lines.append('printf %%s %s' % sh_quote(out))
    if err:
        lines.append('printf %%s %s >&2' % sh_quote(err))
    for name, content in files.items():
        d = os.path.dirname(name)
        if d:
            lines.append('mkdir -p %s' % sh_quote(d))
        if isinstance(content, bytes):
            octal = ''.join('\\%03o' % c for c in content)
            lines.append('printf %s > %s' % (sh_quote(octal), sh_quote(name)))
        else:
            lines.append('printf %%s %s > %s' % (sh_quote(content), sh_quote(name)))
    lines.append('exit %d' % code)
    with open(os.path.join(workdir, 'cmd.sh'), 'w', encoding='utf-8') as f:
        f.write('\n'.join(lines) + '\n')


def snapshot(root, skip):
    out = {}
    for d, dirs, files in os.walk(root):
        for f in files:
            p = os.path.join(d, f)
            rel = os.path.relpath(p, root)
            if any(rel == s or rel.startswith(s + os.sep) for s in skip):
                continue
            try:
                with open(p, 'rb') as fh:
                    out[rel] = fh.read()
            except OSError:
                pass
    return out


def run_script(workdir, script):
    env = dict(os.environ)
    env['PYTHONPATH'] = os.environ.get('VERIF_REPO', '/repo') + os.pathsep + env.get('PYTHONPATH', '')
    env.pop('TMPDIR_SET_BY_GENTEST', None)
    p = subprocess.run([PY, script], cwd=workdir, capture_output=True, text=True, env=env, timeout=300)
    failed = sorted(set(re.findall(r'^(?:FAIL|ERROR): (test_\w+)', p.stderr, re.M)))
    ran = re.search(r'Ran (\d+) tests?', p.stderr)
    return p.returncode, failed, int(ran.group(1)) if ran else None, p.stderr[-600:]


def gen(workdir, case):
    """Run gentest in-process for one case; returns (ok, error text)."""
    from tdda.referencetest.gentest import gentest
    so, se = sys.stdout, sys.stderr
    sys.stdout = sys.stderr = io.StringIO()
    cwd = os.getcwd()
    try:
        os.chdir(workdir)
        gentest(case.get('command', 'sh cmd.sh'), case['script'], list(case['refs']), iterations=case['iterations'],
                no_stdout=case.get('no_stdout', False), no_stderr=case.get('no_stderr', False),
                non_zero_exit=case['code'] != 0, relative_paths=case.get('relative', False))
        return True, ''
    except SystemExit as e:
        return False, 'SystemExit %r' % (e.code,)
    except Exception as e:
        return False, '%s: %s\n%s' % (type(e).__name__, e, traceback.format_exc()[-400:])
    finally:
        os.chdir(cwd)
        sys.stdout, sys.stderr = so, se


def do_case(args):
    case, props = args
    b = Bounded('', '')
    top = tempfile.mkdtemp(prefix='verif-c11-')
    try:
        work = os.path.join(top, 'work')
        os.makedirs(work)
        with open(os.path.join(work, 'bystander.txt'), 'w') as f:
            f.write('must not change\n')
        os.makedirs(os.path.join(work, 'sub'))
        with open(os.path.join(work, 'sub', 'other.dat'), 'wb') as f:
            f.write(b'\x00\x01')
        make_cmd(work, case['out'], case['err'], case['code'], case['files'], case.get('extra', ()))
        # the command's own outputs exist before generation too (run it once)
        subprocess.run(['sh', 'cmd.sh'], cwd=work, capture_output=True)
        script = case['script'] if case['script'].endswith('.py') else case['script'] + '.py'
        script_name = os.path.basename(script)
        if not script_name.startswith('test'):
            script_name = 'test_' + script_name
        w = {k: (v if not isinstance(v, dict) else {n: repr(c)[:60] for n, c in v.items()})
             for k, v in case.items()}
        b.case(('gentest', repr(sorted(w.items()))))
        # "its reference directory" is ref/<name>, <name> being the script's name without 'test', one '_' and '.py';
        # the reference directories of other generated tests (names that differ only in underscores, and an unrelated
        # one) already exist beside it and are files that already existed like any other
        stem = script_name[4:-3]
        own = stem[1:] if stem.startswith('_') else stem
        refroot = os.path.join(work, 'ref')     # the reference directory is made in the working directory
        for other in sorted({own.lstrip('_'), '_' + own, own.rstrip('_'), own + '_', 'earlier_test'} - {own, ''}):
            os.makedirs(os.path.join(refroot, other), exist_ok=True)
            for fn in ('STDOUT', 'keep.txt'):
                with open(os.path.join(refroot, other, fn), 'w') as f:
                    f.write('reference of test_%s\n' % other)
        own_ref = os.path.join('ref', own)
        skip = (own_ref, os.path.join(os.path.dirname(case['script']), script_name), script_name, '__pycache__')
        before = snapshot(work, skip=skip)
        ok, err = gen(work, case)
        b.check('C11.generation-completes', ok, w, err)
        if not ok:
            return (b.evaluations, b.distinct, b.samples, b.failures, b.contracts)
        spath = os.path.join(work, os.path.dirname(case['script']), script_name)
        script_name = os.path.join(os.path.dirname(case['script']), script_name)
        b.check('C11.script-written', os.path.exists(spath), w, 'expected %s; have %r' % (script_name, os.listdir(work)))
        if not os.path.exists(spath):
            return (b.evaluations, b.distinct, b.samples, b.failures, b.contracts)
        try:
            compile(open(spath, encoding='utf-8').read(), spath, 'exec')
            comp = True
        except SyntaxError as e:
            comp = False
        b.check('C11.script-compiles', comp, w)
        b.check('C11.reference-directory-written', os.path.isdir(os.path.join(work, 'ref')), w)
        after = snapshot(work, skip=skip)
        b.check('C11.existing-files-untouched', before == after, w,
                'changed %r removed %r added %r' % (
                    sorted(k for k in before if k in after and after[k] != before[k]),
                    sorted(set(before) - set(after)), sorted(set(after) - set(before))))
        code, failed, nran, tail = run_script(work, script_name)
        b.check('C11.generated-test-passes', code == 0 and not failed, w,
                'exit %r failed %r: %s' % (code, failed, tail[-300:]))
        if code != 0 or 'C12' not in props:
            return (b.evaluations, b.distinct, b.samples, b.failures, b.contracts)
        # ---- C12: every single change makes the named test fail --------------------
        changes = []
        if not case.get('no_stdout'):
            changes += [('stdout', dict(out=case['out'] + 'X'), 'test_stdout'),
                        ('stdout', dict(out=('extra line\n' + case['out'])), 'test_stdout')]
            if case['out']:
                # (removing only a final newline is not a difference under the line-based comparison rule of C04)
                trunc = case['out'][:-2] if case['out'].endswith('\n') else case['out'][:-1]
                changes.append(('stdout', dict(out=trunc), 'test_stdout'))
                changes.append(('stdout', dict(out=case['out'].replace(case['out'][0], 'Z', 1)), 'test_stdout'))
        if not case.get('no_stderr'):
            changes += [('stderr', dict(err=case['err'] + 'oops\n'), 'test_stderr')]
        changes.append(('exit', dict(code=case['code'] + 1), 'test_exit_code'))
        for name, content in case['files'].items():
            if isinstance(content, bytes):
                changes.append(('file', dict(files=dict(case['files'], **{name: content + b'\x07'})), None))
            else:
                changes.append(('file', dict(files=dict(case['files'], **{name: content + 'changed\n'})), None))
            gone = dict(case['files'])
            del gone[name]
            changes.append(('file-deleted', dict(files=gone, _delete=name), None))
        if case.get('token_line'):
            # a line that did not hold the excluded machine-specific text (here: the working directory) now does:
            # a change like any other
            changes.append(('stdout-now-holds-excluded-text', dict(out='hello from %s/result.txt\n' % work), 'test_stdout'))
        if case.get('extra_changed'):
            # environment-dependent outputs (a file under $TMPDIR is checked by default): the same lines, altered
            changes.append(('tmpdir-file', dict(extra=case['extra_changed']), None))
        for kind, delta, testname in changes:
            c2 = dict(case)
            c2.update({k: v for k, v in delta.items() if not k.startswith('_')})
            if c2['out'] == case['out'] and c2['err'] == case['err'] and c2['code'] == case['code'] \
                    and c2['files'] == case['files'] and c2.get('extra') == case.get('extra'):
                continue
            if delta.get('_delete'):
                # the history the property speaks of: the command ran as recorded (its output files are there, as
                # recorded), and subsequently stops producing one of them.  The copy left by the earlier run stays
                # where it is: removing previous outputs before the command is re-run is the generated script's job.
                make_cmd(work, case['out'], case['err'], case['code'], case['files'], case.get('extra', ()))
                subprocess.run(['sh', 'cmd.sh'], cwd=work, capture_output=True)
            make_cmd(work, c2['out'], c2['err'], c2['code'], c2['files'], c2.get('extra', ()))
            w2 = dict(w, change=kind, changed_to={k: repr(v)[:80] for k, v in delta.items()})
            b.case(('change', repr(sorted(w.items())), kind, repr(delta)[:200]))
            code2, failed2, nran2, tail2 = run_script(work, script_name)
            b.check('C12.changed-behaviour-fails', code2 != 0 and bool(failed2), w2,
                    'exit %r failed tests %r' % (code2, failed2))
            if testname and failed2:
                b.check('C12.failure-is-reported-by-the-right-test', testname in failed2, w2,
                        'expected %s among %r' % (testname, failed2))
                b.check('C12.other-tests-keep-passing', set(failed2) <= {testname}, w2,
                        'failed %r' % (failed2,))
        # unchanged again: passes
        make_cmd(work, case['out'], case['err'], case['code'], case['files'], case.get('extra', ()))
        code3, failed3, _, tail3 = run_script(work, script_name)
        b.check('C12.unchanged-keeps-passing', code3 == 0 and not failed3, w, 'exit %r failed %r' % (code3, failed3))
    except Exception:
        b.check('C11.driver-error', False, {'case': repr(case)[:300]}, traceback.format_exc()[-500:])
    finally:
        shutil.rmtree(top, ignore_errors=True)
    return (b.evaluations, b.distinct, b.samples, b.failures, b.contracts)


def gen_cases(tier, seed):
    rnd = random.Random(seed)
    cases = []
    for i, out in enumerate(OUTPUTS):
        cases.append(dict(out=out, err='', code=0, files={}, refs=[], script='test_c%d' % i, iterations=2))
    for i, err in enumerate(OUTPUTS[:6]):
        cases.append(dict(out='ok\n', err=err, code=0, files={}, refs=[], script='test_e%d.py' % i, iterations=2))
    filesets = [
        ({'out.txt': 'file content\n'}, ['out.txt']),
        ({'out.txt': 'a\nb\n', 'data.bin': b'\x00\x01\xff'}, ['out.txt', 'data.bin']),
        ({'outdir/a.txt': 'in a directory\n', 'outdir/b.txt': 'second 2024-01-15\n'}, ['outdir']),
        ({'g1.log': 'glob one\n', 'g2.log': 'glob two\n'}, ['*.log']),
        # same base name (with upper-case letters) in two directories, different content
        ({'a/Report.txt': 'report A\n', 'b/Report.txt': 'report B\n'}, ['a/Report.txt', 'b/Report.txt']),
        ({'x/data.txt': 'one\n', 'y/data.txt': 'two\n'}, ['x', 'y']),
        ({'STDOUT': 'a file called STDOUT\n'}, ['STDOUT']),
        # an empty file (refused as text) and a binary file in a sub-directory, named explicitly / by directory
        ({'sub/errors.log': '', 'sub/report.txt': 'report\n'}, ['sub/errors.log', 'sub/report.txt']),
        ({'logs/empty.log': '', 'logs/blob.dat': b'\x00\x01\x02\xff', 'logs/r.txt': 'r\n'}, ['logs']),
        # two glob patterns: every file matched by either must get its check
        ({'alpha.out': 'alpha\n', 'gamma.out': 'gamma\n', 'beta.csv': 'a,b\n1,2\n', 'delta.csv': 'c\n3\n'},
         ['*.out', '*.csv']),
        # output files outside the working directory, in directories whose path merely starts with the cwd's path
        ({'../work2/e.txt': 'outside\n', '../work.out/d.txt': 'outside too\n'}, ['../work2/e.txt', '../work.out/d.txt']),
        # a qualified name (x + '2') that is already another file's name
        ({'a/x2': 'first\n', 'b/x': 'second\n', 'c/x': 'third\n'}, ['a/x2', 'b/x', 'c/x']),
        # output files named like the generated script's own checks
        ({'stdout': 'a file called stdout\n', 'exit_code': 'a file called exit_code\n'}, ['stdout', 'exit_code']),
    ]
    # output files whose names hold characters that are alphanumeric but cannot be part of a Python identifier
    filesets.append(({'x\u00b2.txt': 'squared\n', 'caf\u00e9.txt': 'accent\n'}, ['x\u00b2.txt', 'caf\u00e9.txt']))
    # a pattern that matches no file (alone, and next to one that does): a warning, the pattern is ignored
    filesets.append(({}, ['results_*.csv']))
    filesets.append(({'k1.out': 'one\n', 'k2.out': 'two\n'}, ['*.out', 'nothing_?.log']))
    for i, (files, refs) in enumerate(filesets):
        cases.append(dict(out='made files\n', err='', code=0, files=files, refs=refs, script='test_f%d' % i, iterations=2))
    cases.append(dict(out='fails\n', err='bad\n', code=3, files={}, refs=[], script='test_x1', iterations=2))
    # script names with more than one underscore after 'test' (the default name for a command such as ./run.sh is
    # test___run_sh.py) and with none: the reference directories of the neighbouring names are other tests' files
    cases.append(dict(out='uu\n', err='', code=0, files={'o.txt': 'x\n'}, refs=['o.txt'], script='test__uu', iterations=2))
    cases.append(dict(out='uuu\n', err='', code=0, files={}, refs=[], script='test___run_sh.py', iterations=1))
    cases.append(dict(out='nu\n', err='', code=0, files={}, refs=[], script='testnu', iterations=2))
    cases.append(dict(out='tu\n', err='', code=0, files={}, refs=[], script='test_tu_', iterations=2))
    # a pattern that matches a directory (recorded finding: only directories named explicitly are expanded)
    cases.append(dict(out='made a directory\n', err='', code=0, files={'outdir/a.txt': 'in a directory\n'}, refs=['out*'],
                      script='test_globdir', iterations=2, glob_matches_directory=True))
    # the command text itself holds quotes of every kind (it is quoted in the generated script's documentation string)
    cases.append(dict(out='quoted\n', err='', code=0, files={}, refs=[], script='test_q3', iterations=2,
                      command='sh cmd.sh \'\"\"\"\' "it\'s" \\\\'))
    # an output file called STDOUT next to an unterminated stdout: the second run's reference must not be clobbered
    cases.append(dict(out='line one\nno newline at end', err='', code=0, files={'STDOUT': 'a file called STDOUT\n'},
                      refs=['STDOUT'], script='test_so', iterations=2))
    cases.append(dict(out='x\n', err='warn', code=0, files={'stderr': 'a file called stderr\n'},
                      refs=['stderr'], script='test_se', iterations=3))
    cases.append(dict(out='one\n', err='', code=0, files={}, refs=[], script='test_i1', iterations=1))
    cases.append(dict(out='three\n', err='', code=0, files={'o.txt': 'x\n'}, refs=['o.txt'], script='test_i3', iterations=3))
    cases.append(dict(out='nostdout\n', err='e\n', code=0, files={}, refs=[], script='test_ns', iterations=2, no_stdout=True))
    cases.append(dict(out='nostderr\n', err='e\n', code=0, files={}, refs=[], script='test_ne', iterations=2, no_stderr=True))
    cases.append(dict(out='rel\n', err='', code=0, files={'r.txt': 'r\n'}, refs=['r.txt'], script='sub/test_rel.py',
                      iterations=2, relative=True))
    # environment-dependent text on one stream only (each stream needs its own exclusions), both, or in a file
    env_lines = [
        ('tmp_err', ['echo "scratch files in $TMPDIR/b" >&2']),
        ('tmp_out', ['echo "work area $TMPDIR/a"']),
        ('tmp_both', ['echo "work area $TMPDIR/a"', 'echo "scratch $TMPDIR/b" >&2']),
        ('cwd_err', ['echo "running in $(pwd)" >&2']),
        ('cwd_out', ['echo "running in $(pwd)"']),
        ('host_user_err', ['echo "on $(hostname) as $(id -un)" >&2']),
    ]
    try:
        import socket
        ip = socket.gethostbyname(socket.gethostname())
        # the host's own address, alone on a line and next to the host name
        env_lines.append(('ip_out', ['echo "listening on %s port 80"' % ip]))
        env_lines.append(('ip_host_err', ['echo "%s is $(hostname)" >&2' % ip]))
    except OSError:
        pass
    for name, extra in env_lines:
        cases.append(dict(out='hello\n', err='', code=0, files={'o.txt': 'data\n'}, refs=['o.txt'],
                          script='test_env_' + name, iterations=2, extra=extra, token_line=(name == 'cwd_out')))
    # a directory argument holding a file that exists before generation and is overwritten with its timestamps preserved
    # (cp -p from a template whose modification time is old): it is an output all the same
    keep = ['mkdir -p out template', 'printf "%s\\n" "report v1" > template/r.txt', 'touch -t 202001010000 template/r.txt',
            'cp -p template/r.txt out/r.txt', 'printf "fresh\\n" > out/new.txt']
    keep_changed = [l.replace('report v1', 'report v2') for l in keep]
    cases.append(dict(out='published\n', err='', code=0, files={}, refs=['out'], script='test_env_keep', iterations=2,
                      extra=keep, extra_changed=keep_changed))
    # a file written under the temporary directory gentest provides is checked without being named
    cases.append(dict(out='hello\n', err='', code=0, files={}, refs=[], script='test_env_tmpfile', iterations=2,
                      extra=['echo "scratch data" > "$TMPDIR/scratch.txt"'],
                      extra_changed=['echo "scratch data CHANGED" > "$TMPDIR/scratch.txt"']))
    cases.append(dict(out='hello\n', err='', code=0, files={}, refs=[], script='test_env_ns', iterations=3, no_stdout=True,
                      extra=['echo "scratch files in $TMPDIR/b" >&2']))
    cases.append(dict(out='hello\n', err='', code=0, files={}, refs=[], script='test_env_ne', iterations=2, no_stderr=True,
                      extra=['echo "work area $TMPDIR/a"', 'echo "plain" >&2']))
    if tier != 'quick':
        for i in range(40):
            out = ''.join(rnd.choice(OUTPUTS) for _ in range(rnd.randint(0, 3)))
            err = rnd.choice(['', 'warn\n', rnd.choice(OUTPUTS)])
            files, refs = rnd.choice(filesets + [({}, [])])
            cases.append(dict(out=out, err=err, code=rnd.choice([0, 0, 2]), files=files, refs=refs,
                              script='test_r%d' % i, iterations=rnd.choice([1, 2, 3])))
    return cases


def run(props, tier, seed):
    cases = gen_cases(tier, seed)
    total = Bounded(
        'deterministic shell commands (a generated cmd.sh): %d stdout texts incl. date-, time-, version-, path-like tokens, '
        'quotes, backslashes, regex metacharacters, unicode, missing final newline; stderr texts; 0..2 output files (text and '
        'binary) named explicitly, by directory or by glob; exit status 0 / non-zero; iterations 1-3; --no-stdout / --no-stderr; '
        'a script in a sub-directory with relative paths. For C12 every single change (stdout altered at the end / start / one '
        'character / truncated, stderr appended, exit status changed, file content changed, file deleted) is applied after '
        'generation and the script re-run in a subprocess' % len(OUTPUTS),
        '%d commands' % len(cases))
    ctx = multiprocessing.get_context('fork')
    with ctx.Pool(16) as pool:
        for ev, dist, samples, failures, contracts in pool.imap_unordered(do_case, [(c, tuple(props)) for c in cases]):
            total.evaluations += ev
            total.distinct |= dist
            total.samples.extend(samples[:1])
            total.failures.extend(failures)
            for k2, v in contracts.items():
                total.contracts[k2] = total.contracts.get(k2, 0) + v
    total.samples = total.samples[:6]
    return total
