"""
Bounded layer for C08: SQLite discovery / verification on generated tables
(runtime contracts on the real db code), the A-calc audit of the SQL
calculator, and single-row perturbation sensitivity.
"""
import datetime
import io
import itertools
import os
import random
import shutil
import sqlite3
import sys
import tempfile
import contextlib

from bounded.core import Bounded
from specs.native_prims import NCol, load_native_spec

SPEC = load_native_spec('constraints_spec.py')


@contextlib.contextmanager
def quiet():
    so, se = sys.stdout, sys.stderr
    sys.stdout = sys.stderr = io.StringIO()
    try:
        yield
    finally:
        sys.stdout, sys.stderr = so, se


POOLS = {
    'integer': [0, 1, -1, 7, 1000000],
    'real': [0.0, 1.5, -2.25, 3.0],
    'text': ['', 'a', 'ab', "a'b", 'a\\b', 'é£', 'a b', 'A1', 'x"y'],
    'varchar': ['a', 'bb', "it's"],
    'boolean': [0, 1],
    'datetime': ['2020-01-01 00:00:00', '1999-12-31 23:59:59', '2021-06-15 12:30:00'],
}
TTYPE = {'integer': 'int', 'real': 'real', 'text': 'string', 'varchar': 'string', 'boolean': 'bool',
         'datetime': 'date',
         # declared with a length / precision, as PRAGMA table_info reports them
         'varchar(20)': 'string', 'VARCHAR(255)': 'string', 'char(3)': 'string', 'nvarchar(40)': 'string',
         'numeric(10,2)': 'real', 'int(11)': 'int'}
DECLARED = {'varchar(20)': [['a', 'bb', "it's"], [None, 'abc'], []], 'VARCHAR(255)': [['x', 'yy']], 'char(3)': [['abc', 'xyz', None]],
            'nvarchar(40)': [['é£', 'a']], 'numeric(10,2)': [[1.5, -2.25, None], [0.0]], 'int(11)': [[3, 1, 2], [None]]}


def make_table(path, sqltype, values, colname='c'):
    if os.path.exists(path):
        os.unlink(path)
    con = sqlite3.connect(path)
    con.execute('CREATE TABLE t (k integer, "%s" %s)' % (colname, sqltype))
    con.executemany('INSERT INTO t VALUES (?, ?)', [(i, v) for i, v in enumerate(values)])
    con.commit()
    con.close()


def check_column_names(b, top):
    """C08 over legal column names that need quoting (spaces, reserved words, leading digits, punctuation),
    rex off / on: discover, verify against the same table (no failure, no error), then one violating row."""
    from tdda.constraints.db.drivers import database_connection
    from tdda.constraints.db.constraints import discover_db_table, verify_db_table
    path = os.path.join(top, 'names.sqlite3')
    for colname in ('product code', 'order', '2nd', 'part-no', 'Group', 'naïve', 'c'):
        for sqltype, values, bad in (('text', ['ab-1', 'cd-2', None, 'ef-3'], '!!!!!!!!!!'), ('integer', [3, 1, 2], 99)):
            for inc_rex in ((False, True) if sqltype == 'text' else (False,)):
                make_table(path, sqltype, values, colname=colname)
                w = {'column name': colname, 'sqltype': sqltype, 'values': [repr(v) for v in values], 'inc_rex': inc_rex}
                b.case(('colname', colname, sqltype, inc_rex))
                db = database_connection(dbtype='sqlite', db=path)
                try:
                    with quiet():
                        ok, cs = b.guarded('C08.discover_db_table.noraise',
                                           lambda: discover_db_table('sqlite', db, 't', inc_rex=inc_rex), w)
                    if not ok or cs is None:
                        continue
                    d = cs.to_dict()
                    b.check('C08.discovers-the-named-column', colname in d['fields'], w, 'fields: %r' % list(d['fields']))
                    tddap = os.path.join(top, 'names.tdda')
                    with open(tddap, 'w', encoding='utf-8') as fh:
                        fh.write(cs.to_json())
                    with quiet():
                        ok, v = b.guarded('C08.verify_db_table.noraise', lambda: verify_db_table('sqlite', db, 't', tddap), w)
                    if ok:
                        b.check('C08.closure', v.failures == 0, w, '%d failures: %r' % (v.failures, dict(v.fields.get(colname, {}))))
                finally:
                    try:
                        db.close()
                    except Exception:
                        pass
                # one row beyond every discovered bound
                con = sqlite3.connect(path)
                con.execute('INSERT INTO t VALUES (?, ?)', (100, bad))
                con.commit()
                con.close()
                db = database_connection(dbtype='sqlite', db=path)
                try:
                    with quiet():
                        ok, v2 = b.guarded('C08.verify_db_table.perturbed.noraise',
                                           lambda: verify_db_table('sqlite', db, 't', tddap), w)
                    if ok:
                        b.check('C08.sensitivity.any', v2.failures > 0, dict(w, added=repr(bad)),
                                'a row beyond the discovered bounds was added and nothing failed')
                finally:
                    try:
                        db.close()
                    except Exception:
                        pass


def beyond(kind, value, ttype, col):
    """A single extra row value that breaks the discovered constraint `kind`."""
    if kind == 'min':
        if ttype == 'date':
            return '1900-01-01 00:00:00'
        return value - 1 if ttype != 'bool' else None
    if kind == 'max':
        if ttype == 'date':
            return '2999-01-01 00:00:00'
        return value + 1 if ttype != 'bool' else None
    if kind == 'min_length':
        return 'x' * (value - 1) if value >= 1 else None
    if kind == 'max_length':
        return 'x' * (value + 1)
    if kind == 'allowed_values':
        return 'not-in-the-list'
    if kind == 'no_duplicates':
        return col.nonnull[0] if col.nonnull else None
    if kind == 'max_nulls':
        return 'NULLS'          # special: insert value+1 nulls
    if kind == 'rex':
        return '~#~#~ no expression matches this ~#~#~'
    if kind == 'sign':
        if ttype == 'bool':
            return None         # a boolean column cannot hold a value of another sign
        return {'positive': -1, 'non-negative': -1, 'zero': 5, 'non-positive': 5, 'negative': 5}.get(value)
    return None


def check_table(b, top, sqltype, values, inc_rex):
    from tdda.constraints.db.drivers import database_connection
    from tdda.constraints.db.constraints import discover_db_table, verify_db_table
    path = os.path.join(top, 'db.sqlite3')
    make_table(path, sqltype, values)
    w = {'sqltype': sqltype, 'values': [repr(v) for v in values], 'inc_rex': inc_rex}
    b.case(('table', sqltype, tuple(map(repr, values)), inc_rex))
    db = database_connection(dbtype='sqlite', db=path)
    try:
        with quiet():
            ok, cs = b.guarded('C08.discover_db_table.noraise',
                               lambda: discover_db_table('sqlite', db, 't', inc_rex=inc_rex), w)
        if not ok or cs is None:
            return
        d = cs.to_dict()
        fc = d['fields'].get('c')
        if fc is None:
            return
        ttype = TTYPE[sqltype]
        # C07 on SQLite: exact statistics
        norm = [v for v in values]
        col = NCol(True, fc.get('type'), norm)
        col_for_spec = col
        if ttype == 'date':
            col_for_spec = NCol(True, 'date', [None if v is None else datetime.datetime.strptime(v, '%Y-%m-%d %H:%M:%S')
                                               for v in values])
        elif ttype == 'bool':
            col_for_spec = NCol(True, 'bool', [None if v is None else bool(v) for v in values])
        b.check('C07.sqlite.type', fc.get('type') == ttype, w, 'discovered %r' % (fc.get('type'),))

        class R(object):
            def __init__(self, v):
                self.value = v
                self.precision = None
        K = {}
        for k, v in fc.items():
            vv = v
            if ttype == 'date' and k in ('min', 'max') and isinstance(v, str):
                from tdda.constraints.base import get_date
                vv = get_date(v)
            K[k] = R(vv)
        if fc.get('type') == ttype:
            for nm, fn in (('max_nulls', lambda: SPEC['disc_max_nulls'](col_for_spec, K)),
                           ('min', lambda: SPEC['disc_min'](col_for_spec, K)),
                           ('max', lambda: SPEC['disc_max'](col_for_spec, K)),
                           ('min_length', lambda: SPEC['disc_min_length'](col_for_spec, K)),
                           ('max_length', lambda: SPEC['disc_max_length'](col_for_spec, K)),
                           ('sign', lambda: SPEC['disc_sign'](col_for_spec, K)),
                           ('allowed_values', lambda: SPEC['disc_allowed_values'](col_for_spec, K, 20))):
                try:
                    okc = bool(fn())
                except TypeError as e:
                    b.check('C07.sqlite.%s.comparable' % nm, False, w, str(e))
                    continue
                b.check('C07.sqlite.%s' % nm, okc, dict(w, discovered={k: repr(v) for k, v in fc.items()}),
                        'discovered %r' % ({k: repr(v)[:60] for k, v in fc.items()},))
        # C08 soundness: verifies against the same table
        tddap = os.path.join(top, 'c.tdda')
        with open(tddap, 'w', encoding='utf-8') as fh:
            fh.write(cs.to_json())
        with quiet():
            ok, v = b.guarded('C08.verify_db_table.noraise', lambda: verify_db_table('sqlite', db, 't', tddap), w)
        if not ok:
            return
        b.check('C08.closure', v.failures == 0, w,
                'failures=%d: %s' % (v.failures, [k for k, s in v.fields['c'].items() if s is False]))
        if v.failures:
            return
    finally:
        db.connection.close()
    # C08 sensitivity: one added row beyond each discovered constraint
    for kind, value in fc.items():
        if kind == 'type':
            continue
        bad = beyond(kind, value, ttype, col_for_spec)
        if bad is None:
            continue
        make_table(path, sqltype, values)
        con = sqlite3.connect(path)
        if bad == 'NULLS':
            for j in range(int(value) + 1):
                con.execute('INSERT INTO t VALUES (?, NULL)', (1000 + j,))
        else:
            if kind == 'no_duplicates' and ttype == 'date' and isinstance(bad, datetime.datetime):
                bad = bad.strftime('%Y-%m-%d %H:%M:%S')
            if kind == 'no_duplicates' and ttype == 'bool':
                bad = int(bad)
            con.execute('INSERT INTO t VALUES (?, ?)', (999, bad))
        con.commit()
        con.close()
        w2 = dict(w, perturbed_kind=kind, added=repr(bad), discovered=repr(value)[:80])
        b.case(('perturb', sqltype, tuple(map(repr, values)), inc_rex, kind))
        db = database_connection(dbtype='sqlite', db=path)
        try:
            with quiet():
                ok, v2 = b.guarded('C08.verify_db_table.perturbed.noraise',
                                   lambda: verify_db_table('sqlite', db, 't', os.path.join(top, 'c.tdda')), w2)
            if ok:
                b.check('C08.sensitivity.%s' % kind, v2.fields['c'].get(kind) is False or
                        (v2.fields['c'].get(kind) is not None and not bool(v2.fields['c'].get(kind))), w2,
                        'verdict for %s after adding %r: %r' % (kind, bad, v2.fields['c'].get(kind)))
        finally:
            db.connection.close()


def run(props, tier, seed):
    rnd = random.Random(seed)
    max_rows = 2 if tier == 'quick' else 3
    b = Bounded('SQLite tables with one data column of each type (integer, real, text, varchar, boolean, datetime, and types '
                'declared with a length or precision such as varchar(20), numeric(10,2)): every '
                'sequence of <= %d cells from the type pool (+NULL), seeded longer tables (up to 25 distinct categories), '
                'x rex off/on; each discovered, verified against itself, and re-verified after every single-row '
                'perturbation beyond a discovered constraint' % max_rows,
                'rows <= %d exhaustive per pool; 12 seeded tables per type' % max_rows)
    top = tempfile.mkdtemp(prefix='verif-c08-')
    try:
        for sqltype, pool in POOLS.items():
            alphabet = pool + [None]
            seqs = []
            for n in range(0, max_rows + 1):
                for combo in itertools.product(alphabet, repeat=n):
                    seqs.append(list(combo))
            if tier == 'quick' and len(seqs) > 60:
                keep = [s for s in seqs if len(s) <= 1]
                rest = [s for s in seqs if len(s) > 1]
                rnd.shuffle(rest)
                seqs = keep + rest[:50]
            for i in range(12 if tier != 'quick' else 4):
                k = rnd.randint(3, 30)
                if sqltype in ('text',):
                    seqs.append([rnd.choice(pool + ['cat%d' % j for j in range(25)] + [None]) for _ in range(k)])
                else:
                    seqs.append([rnd.choice(alphabet) for _ in range(k)])
            for values in seqs:
                for inc_rex in ((False, True) if TTYPE[sqltype] == 'string' else (False,)):
                    check_table(b, top, sqltype, values, inc_rex)
        check_column_names(b, top)
        for sqltype, lists in DECLARED.items():
            for values in lists:
                for inc_rex in ((False, True) if TTYPE[sqltype] == 'string' else (False,)):
                    check_table(b, top, sqltype, values, inc_rex)
    finally:
        shutil.rmtree(top, ignore_errors=True)
    return b
