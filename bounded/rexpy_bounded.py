"""
Bounded layer for C03 / C13 / C14 / C18: runtime contracts on the real rexpy
pipeline (extract / Extractor / pdextract), plus the exhaustive-domain
obligations over all Unicode scalar values and all punctuation sets.
"""
import io
import itertools
import multiprocessing
import random
import re
import sys
import time
import unicodedata
import contextlib
from collections import Counter

from bounded.core import Bounded

RE_FLAGS = re.UNICODE | re.DOTALL


@contextlib.contextmanager
def quiet():
    so, se = sys.stdout, sys.stderr
    sys.stdout = sys.stderr = io.StringIO()
    try:
        yield
    finally:
        sys.stdout, sys.stderr = so, se


# alphabet hitting every class and every regex metacharacter
ALPHABET = ['a', 'Z', '7', ' ', '\t', '-', '_', '.', '^', ']', '\\', '[', '$', '*', '+', '(', '|',
            '{', '/', '"', "'", 'é', 'Ω', '٣', '²', 'Ⅷ', '\n', '~']
WORDS = ['a111', 'abc12345', 'xyz1', '', 'a', 'ab', 'A1', 'a-b', 'a.b', 'a_b', '^', '-', '^-', ']', '\\', 'a b', ' a', 'x²', '٣٤',
         'Ⅷ', 'é', 'a\n', '{1}', '(', 'a|b', '$', '12', 'AB', 'aB1', '1.5', '--', '..', 'a]b', '[^-]']

OPTIONS = [
    {}, {'tag': True}, {'strip': True}, {'remove_empties': True},
    {'extra_letters': '_'}, {'extra_letters': '-'}, {'extra_letters': '_.-'},
    {'variableLengthFrags': True}, {'variableLengthFrags': True, 'tag': True},
    {'dialect': 'perl'}, {'dialect': 'portable'}, {'dialect': 'grep'},
    {'dialect': 'perl', 'tag': True, 'extra_letters': '.', 'strip': True},
]
C13_EXTRA = [{'max_patterns': 1}, {'max_patterns': 2}, {'min_strings_per_pattern': 2},
             {'max_patterns': 1, 'tag': True}]


def size_variants(rexpy):
    S = rexpy.Size
    return [None,
            S(do_all=1, do_all_exceptions=1, n_per_length=1, max_sampled_attempts=1),
            S(do_all=2, do_all_exceptions=1, n_per_length=1, max_sampled_attempts=2),
            S(do_all=1, do_all_exceptions=1, n_per_length=1, max_sampled_attempts=0),
            S(max_punc_in_group=1), S(max_strings_in_group=1)]


def kept_examples(examples, o):
    """The examples an explicit option does not discard."""
    out = []
    items = examples.items() if isinstance(examples, dict) else [(x, 1) for x in examples]
    for x, n in items:
        if x is None or n == 0:
            continue
        y = x.strip() if o.get('strip') else x
        if o.get('remove_empties') and len(y) == 0:
            continue
        out.append((y, n))
    return out


def matches_full(rex, s):
    # "matched in full" for an anchored ^...$ expression, as tdda itself applies
    # the expressions: re.match under UNICODE | DOTALL
    try:
        return re.match(re.compile(rex, RE_FLAGS), s) is not None
    except re.error:
        return False


def check_extract(b, rexpy, examples, o, size, seed, props, w=None):
    w = w or {'examples': examples if not isinstance(examples, dict) else dict(examples),
              'options': o, 'size': None if size is None else
              {k: getattr(size, k) for k in ('do_all', 'do_all_exceptions', 'n_per_length',
                                             'max_sampled_attempts', 'max_punc_in_group',
                                             'max_strings_in_group')},
              'seed': seed}
    kw = dict(o)
    kw['size'] = size
    kw['seed'] = seed
    with quiet():
        ok, x = b.guarded('C03.extract.noraise', lambda: rexpy.extract(examples, as_object=True, **kw), w)
    if not ok:
        return None
    rex = list(x.results.rex) if x.results else []
    kept = kept_examples(examples, o)
    distinct = sorted(set(k for k, _ in kept))
    pruned = o.get('max_patterns') is not None or o.get('min_strings_per_pattern', 1) > 1
    if 'C03' in props and not pruned:
        for s in distinct:
            b.check('C03.every-example-matched', any(matches_full(r, s) for r in rex), dict(w, unmatched=s),
                    'example %r is matched in full by none of %r' % (s, rex))
        if o.get('strip'):
            # the examples as supplied (with their surrounding whitespace) are matched too: that is what the
            # \s* padding of the expressions is for
            items = examples.items() if isinstance(examples, dict) else [(e, 1) for e in examples]
            for e, n in items:
                if e is None or n == 0 or (o.get('remove_empties') and len(e.strip()) == 0):
                    continue
                b.check('C03.every-example-matched', any(matches_full(r, e) for r in rex), dict(w, unmatched=e),
                        'example %r (as supplied, strip=True) is matched in full by none of %r' % (e, rex))
    if 'C13' in props:
        for r in rex:
            try:
                re.compile(r, RE_FLAGS)
                comp = True
            except re.error as e:
                comp = False
            b.check('C13.compiles', comp, dict(w, rex=r), 'does not compile: %r' % r)
            b.check('C13.anchored', r.startswith('^') and r.endswith('$'), dict(w, rex=r), r)
            if comp:
                pool = distinct
                if o.get('strip'):
                    # the examples as supplied (the \s* padding is there to match them with their whitespace)
                    its = examples.items() if isinstance(examples, dict) else [(e, 1) for e in examples]
                    pool = [e for e, n in its if e is not None and n != 0
                            and not (o.get('remove_empties') and len(e.strip()) == 0)]
                b.check('C13.matches-some-example', any(matches_full(r, s) for s in pool),
                        dict(w, rex=r), '%r matches none of the examples' % r)
        b.check('C13.no-duplicates', len(set(rex)) == len(rex), w, repr(rex))
        b.check('C13.at-most-one-per-distinct-example', len(rex) <= len(distinct), w,
                '%d expressions for %d distinct examples: %r' % (len(rex), len(distinct), rex))
        if not distinct:
            b.check('C13.none-for-empty-input', rex == [], w, repr(rex))
        # tagging changes only the grouping
        kw2 = dict(kw)
        kw2['tag'] = not o.get('tag', False)
        with quiet():
            ok2, y = b.guarded('C13.extract.tag.noraise', lambda: rexpy.extract(examples, **kw2), w)
        if ok2:
            for s in distinct:
                m1 = any(matches_full(r, s) for r in rex)
                m2 = any(matches_full(r, s) for r in y)
                b.check('C13.tagged-matches-same-examples', m1 == m2, dict(w, example=s),
                        'tag=%r matches %r: %r; tag=%r: %r' % (o.get('tag', False), s, m1, kw2['tag'], m2))
            if w.get('size_variant') in (0, 4, 5):
                # under sampling the two calls may draw different samples (C14)
                b.check('C13.tagged-same-count', len(y) == len(rex), w, '%r vs %r' % (rex, y))
    if 'C18' in props and not pruned:
        check_coverage(b, x, rex, kept, w)
    return rex


def check_coverage(b, x, rex, kept, w):
    cnt = Counter()
    for s, n in kept:
        cnt[s] += n
    total, total_u = sum(cnt.values()), len(cnt)
    for dedup in (False, True):
        with quiet():
            ok, cov = b.guarded('C18.coverage.noraise', lambda: x.coverage(dedup=dedup), w)
        if ok:
            want = [sum((1 if dedup else n) for s, n in cnt.items() if matches_full(r, s)) for r in rex]
            b.check('C18.coverage-equals-true-match-counts', list(cov) == want, dict(w, dedup=dedup),
                    'reported %r, counted %r' % (list(cov), want))
        with quiet():
            ok, n = b.guarded('C18.n_examples.noraise', lambda: x.n_examples(dedup=dedup), w)
        if ok:
            b.check('C18.n_examples', n == (total_u if dedup else total), dict(w, dedup=dedup),
                    'reported %r, supplied %r' % (n, total_u if dedup else total))
        with quiet():
            ok, inc = b.guarded('C18.incremental_coverage.noraise',
                                lambda: x.incremental_coverage(dedup=dedup), w)
        if ok and rex:
            vals = list(inc.values())
            b.check('C18.incremental.non-increasing', all(a >= c for a, c in zip(vals, vals[1:])),
                    dict(w, dedup=dedup), repr(vals))
            b.check('C18.incremental.sums-to-total', sum(vals) == (total_u if dedup else total),
                    dict(w, dedup=dedup), 'sum %r, total %r' % (sum(vals), total_u if dedup else total))
            # each example credited to exactly one expression: replay the greedy crediting
            left = dict(cnt)
            okc = True
            for r, v in inc.items():
                got = [s for s in list(left) if matches_full(r, s)]
                credit = sum((1 if dedup else left[s]) for s in got)
                if credit != v:
                    okc = False
                for s in got:
                    del left[s]
            b.check('C18.incremental.each-example-credited-once', okc and not left, dict(w, dedup=dedup),
                    'incremental %r, uncredited %r' % (dict(inc), left))


def check_determinism(b, rexpy, examples, o, size, seed, w):
    """C14: order, form, repetition, seed reproducibility, PRNG state."""
    kw = dict(o, size=size, seed=seed)
    with quiet():
        ok, base = b.guarded('C14.extract.noraise', lambda: rexpy.extract(list(examples), **kw), w)
    if not ok:
        return
    sampling = size is not None and (size.do_all is not None and size.do_all < len(set(examples)))
    fixed = seed is not None or not sampling
    if not fixed:
        return
    perms = list(itertools.permutations(examples)) if len(examples) <= 4 else \
        [tuple(reversed(examples)), tuple(sorted(examples)), tuple(sorted(examples, reverse=True)),
         tuple(examples[len(examples) // 2:] + examples[:len(examples) // 2])]
    for p in perms[:24]:
        with quiet():
            ok, r = b.guarded('C14.extract.noraise', lambda: rexpy.extract(list(p), **kw), w)
        if ok:
            b.check('C14.order-independent', r == base, dict(w, order=list(p)), '%r vs %r' % (r, base))
    freq = dict(Counter(examples))
    with quiet():
        ok, r = b.guarded('C14.extract.noraise', lambda: rexpy.extract(freq, **kw), w)
    if ok:
        b.check('C14.list-equals-frequency-dict', r == base, dict(w, form='dict'), '%r vs %r' % (r, base))
    if 'encoding' not in kw:
        # the same strings supplied as encoded bytes (list and frequency dictionary, zero counts included)
        benc = [x.encode('utf-8') for x in examples]
        bfreq = {x.encode('utf-8'): n for x, n in freq.items()}
        bfreq0 = dict(bfreq)
        bfreq0[b'never supplied 0'] = 0
        for form, arg in (('bytes list', benc), ('bytes dict', bfreq), ('bytes dict with a zero count', bfreq0)):
            with quiet():
                ok, r = b.guarded('C14.extract.noraise', lambda: rexpy.extract(arg, encoding='utf-8', **kw), dict(w, form=form))
            if ok:
                b.check('C14.list-equals-frequency-dict', r == base, dict(w, form=form), '%r vs %r' % (r, base))
    with quiet():
        ok, r = b.guarded('C14.extract.noraise', lambda: rexpy.extract(list(examples) + list(examples[:1]), **kw), w)
    if ok:
        b.check('C14.repeating-an-example-changes-nothing', r == base, w, '%r vs %r' % (r, base))
    with quiet():
        ok, r = b.guarded('C14.extract.noraise', lambda: rexpy.extract(list(examples), **kw), w)
    if ok:
        b.check('C14.repeatable', r == base, w, '%r vs %r' % (r, base))
    if seed is not None:
        random.seed(12345)
        st = random.getstate()
        with quiet():
            ok, r = b.guarded('C14.extract.noraise', lambda: rexpy.extract(list(examples), **kw), w)
        b.check('C14.global-prng-state-unchanged', random.getstate() == st, w,
                'random.getstate() differs after a seeded call')
        random.seed(999)
        with quiet():
            ok2, r2 = b.guarded('C14.extract.noraise', lambda: rexpy.extract(list(examples), **kw), w)
        if ok and ok2:
            b.check('C14.seeded-result-independent-of-global-prng', r == r2, w, '%r vs %r' % (r, r2))


def run_coverage_matrices(b):
    """
    C18 on the module functions themselves, which take the patterns and examples as arguments:
    EVERY match matrix of <= 3 patterns x 3 examples x frequencies in {1, 3} x dedup on/off
    (patterns are alternations of single letters, so any 0/1 matrix is realisable).
    """
    from tdda.rexpy import rexpy
    letters = ['a', 'b', 'c']
    subsets = [[l for k, l in enumerate(letters) if m >> k & 1] for m in range(8)]
    pats_for = lambda S: '^(%s)$' % '|'.join(S) if S else '^(zzz)$'
    for npat in (1, 2, 3):
        for sets in itertools.product(subsets, repeat=npat):
            pats = [pats_for(S) for S in sets]
            if len(set(pats)) != len(pats):
                continue
            for freqs in itertools.product((1, 3), repeat=3):
                ex = rexpy.Examples(list(letters), list(freqs))
                for dedup in (False, True):
                    w = {'patterns': pats, 'freqs': list(freqs), 'dedup': dedup}
                    b.case(('matrix', tuple(pats), freqs, dedup))
                    ok, cov = b.guarded('C18.rex_coverage.noraise', lambda: rexpy.rex_coverage(pats, ex, dedup), w)
                    if ok:
                        want = [sum((1 if dedup else f) for l, f in zip(letters, freqs) if l in S) for S in sets]
                        b.check('C18.coverage-equals-true-match-counts', list(cov) == want, w, '%r vs %r' % (cov, want))
                    ok, inc = b.guarded('C18.rex_incremental_coverage.noraise',
                                        lambda: rexpy.rex_incremental_coverage(pats, ex, dedup), w)
                    if not ok:
                        continue
                    vals = list(inc.values())
                    matched = set(l for S in sets for l in S)
                    total = sum((1 if dedup else f) for l, f in zip(letters, freqs) if l in matched)
                    b.check('C18.incremental.non-increasing', all(x >= y for x, y in zip(vals, vals[1:])), w, repr(vals))
                    b.check('C18.incremental.sums-to-total', sum(vals) == total, w, 'sum %r, matched total %r' % (sum(vals), total))
                    left = {l: f for l, f in zip(letters, freqs)}
                    okc = True
                    for r, v in inc.items():
                        S = sets[pats.index(r)]
                        got = [l for l in list(left) if l in S]
                        if sum((1 if dedup else left[l]) for l in got) != v:
                            okc = False
                        for l in got:
                            del left[l]
                    b.check('C18.incremental.each-example-credited-once', okc, w, repr(dict(inc)))


def run_coverage_literals(b):
    """C18: anchored expressions that begin / end with an escaped metacharacter (a literal ^ or $)."""
    from tdda.rexpy import rexpy
    strings = ['a$', 'a$b', '^a', 'x^a', 'a', '10$', '10$/h', '$']
    pats = [r'^a\$$', r'^\^a$', r'^a$', r'^[0-9]{2}\$$', r'^\$$', r'^a\$.*$']
    for freqs in ([1] * len(strings), [2, 1, 3, 1, 1, 4, 2, 1]):
        ex = rexpy.Examples(list(strings), list(freqs))
        for k in range(1, len(pats) + 1):
            for sel in itertools.combinations(pats, min(k, 2)):
                for dedup in (False, True):
                    w = {'patterns': list(sel), 'strings': strings, 'freqs': list(freqs), 'dedup': dedup}
                    b.case(('literal-anchor', sel, tuple(freqs), dedup))
                    ok, cov = b.guarded('C18.rex_coverage.noraise', lambda: rexpy.rex_coverage(list(sel), ex, dedup), w)
                    if ok:
                        want = [sum((1 if dedup else f) for s_, f in zip(strings, freqs) if matches_full(p, s_))
                                for p in sel]
                        b.check('C18.coverage-equals-true-match-counts', list(cov) == want, w, '%r vs %r' % (cov, want))
    # through the Extractor: examples whose expression ends in a literal $, with longer examples next to them
    for examples in (['10$', '20$', '30$', '10$/h', '20$/h', '15$/h', '7$/h'], {'a$': 2, 'b$': 1, 'a$x': 3, 'b$y': 1}):
        for o in ({}, {'tag': True}):
            w = {'examples': examples if isinstance(examples, dict) else list(examples), 'options': o, 'size_variant': 0}
            b.case(('literal-anchor-extract', repr(examples), repr(o)))
            check_extract(b, rexpy, examples, o, None, None, ('C18',), dict(w))


def _work(args):
    chunk, props, seed = args
    from tdda.rexpy import rexpy
    b = Bounded('', '')
    sizes = size_variants(rexpy)
    for examples, oi, si, sd in chunk:
        o = (OPTIONS + C13_EXTRA)[oi]
        size = sizes[si]
        isdict = isinstance(examples, dict)
        w = {'examples': dict(examples) if isdict else list(examples), 'options': o, 'size_variant': si, 'seed': sd}
        b.case(('extract', tuple(examples.items()) if isdict else tuple(examples), oi, si, sd))
        # unseeded sampling draws from the global generator: make every case reproducible
        random.seed(repr((tuple(examples), oi, si, sd, seed)))
        def one_case():
            if any(p in props for p in ('C03', 'C13', 'C18')):
                check_extract(b, rexpy, dict(examples) if isdict else list(examples), o, size, sd, props, dict(w))
            if 'C14' in props and 'max_patterns' not in o and not isdict:
                check_determinism(b, rexpy, list(examples), o, size, sd, dict(w))
        b.case_guard(props[0], dict(w), one_case)
    return (b.evaluations, b.distinct, b.samples, b.failures, b.contracts)


def gen_cases(props, tier, seed):
    rnd = random.Random(seed)
    cases = []
    nopt = len(OPTIONS) + (len(C13_EXTRA) if 'C13' in props else 0)
    # all multisets of <= 2 words, a sample of triples
    base = []
    for n in (1, 2):
        for combo in itertools.combinations_with_replacement(WORDS, n):
            base.append(list(combo))
    triples = [list(c) for c in itertools.combinations(WORDS, 3)]
    rnd.shuffle(triples)
    base += triples[:250 if tier == 'quick' else 2500]
    # strings over the alphabet
    for _ in range(150 if tier == 'quick' else 2000):
        k = rnd.randint(1, 4)
        base.append([''.join(rnd.choice(ALPHABET) for _ in range(rnd.randint(0, 4))) for _ in range(k)])
    # long inputs (more than 99 fragments; many distinct lengths)
    base.append(['a1' * 60, 'b2' * 60])
    base.append(['x-' * 55])
    base.append([str(i) * (i % 5 + 1) for i in range(40)])
    base.append(['%c%d' % (chr(97 + i % 26), i) for i in range(130)])
    # the > 99 fragment fallback ^.{n}$ overlapping with another expression
    base.append(['x-' * 60, 'y.' * 60, 'z' * 120, 'z' * 120, 'y' * 120, 'xyz', 'xyq', 'xyq', 'A-1', 'B-2'])
    if 'C14' in props and not any(p in props for p in ('C03', 'C13', 'C18')):
        base = [e for e in base if len(e) <= 4 or len(e) > 20][: (220 if tier == 'quick' else 1500)]
    # exactly one example with surrounding whitespace (the padding must still be emitted)
    for ex in ([' ab-12', 'x y'], ['ab ', 'cd', 'ef'], {'  q1': 1, 'z9': 2}):
        for oi, o in enumerate(OPTIONS):
            if o.get('strip'):
                cases.append((ex, oi, 0, None))
    # whitespace-only examples: kept (remove_empties off) and stripped to nothing under strip=True
    for ex in ([' ', 'ab', 'cd'], ['\t', 'ab'], ['  ', 'a1', 'b2', ''], [' ', '  '], ['\xa0', 'x']):
        for oi, o in enumerate(OPTIONS):
            if o.get('strip') or oi == 0:
                cases.append((ex, oi, 0, None))
    # frequency dictionaries, incl. entries with count 0 (not examples) and nothing but such entries
    for ex in ({'abc': 0}, {'x-1': 0, '12': 2, '34': 1}, {'A B': 0, 'zz': 1}, {'a1': 3, 'b2': 1, '': 0}, {'q': 0, 'r': 0}):
        for oi in (0, 1, 2, 10):
            cases.append((ex, oi, 0, None))
    # a later pass that generalises differently and drops an example only an earlier pass covered (sampled path)
    regress = [['A1', 'AAA1', 'AA1', 'B22', 'abc', 'a-b', '1-2', 'x y']]
    for ex in regress:
        for sd in (3, 4, 8, 1, 2):
            cases.append((ex, 0, 1, sd))
    # repeated examples (frequencies above 1) of three or more shapes with sampling forced: repeating an example, or
    # giving the frequencies as a dictionary, must not change which expressions come out
    for ex in (['ab', '12-34', 'x y z', '12-34', '12-34'], ['12-34', '12-34', 'ab', 'x y z', 'Q7', 'Q7'],
               ['a1', 'a1', 'a1', 'bb', 'c-d', 'e f']):
        for si in (1, 2, 3):
            for sd in (0, 1, 2, 7):
                cases.append((ex, 0, si, sd))
    # more same-shaped examples than max_strings_in_group (10), the odd one out last / first / in the middle:
    # the order in which they arrive must not matter
    many = ['AB-%d' % i for i in range(1, 12)]
    for ex in (many + ['CD-12'], ['CD-12'] + many, many[:5] + ['CD-12'] + many[5:],
               ['x%02d' % i for i in range(11)] + ['y11', 'x12']):
        cases.append((ex, 0, 0, None))
        cases.append((ex, 1, 0, None))
    # the same sequence of characters with runs of different lengths, longer runs first (and every other order):
    # the fixed-character fold must widen downwards as well as upwards
    for ex in (['aab', 'ab'], ['aaab', 'aab', 'ab'], ['xyyy', 'xy', 'xyy'], ['ab--c', 'ab-c', 'ab---c'], ['110', '10', '1110']):
        for perm in itertools.permutations(ex):
            cases.append((list(perm), 0, 0, None))
            cases.append((list(perm), 7, 0, None))
    # characters that are digits of some kind but not decimal digits (superscripts, circled digits): alphanumeric,
    # never of the digit class
    for ex in (['x\u00b2', 'y\u00b3'], ['m\u00b2', 'km\u00b2'], ['\u2460', '\u2461'], ['a\u00b9b', 'c\u2082d']):
        for oi in (0, 1, 2):
            cases.append((ex, oi, 0, None))
    # nothing to extract from (no example survives cleaning): early-return paths, also with a seed
    degenerate = [[], [''], ['', ' '], [' ']]
    base = degenerate + base
    for ex in base:
        if tier == 'quick':
            # default options, variable-length fragments, and two more at random
            ois = [0, 7] + rnd.sample([i for i in range(1, nopt) if i != 7], 2)
            sis = [0, rnd.randint(1, 5)]
        else:
            ois = range(nopt)
            sis = range(6)
        for oi in ois:
            for si in sis:
                for sd in ((None, 7, 0) if (si in (1, 2, 3) or ex in degenerate) else (None,)):
                    cases.append((ex, oi, si, sd))
    return cases


def run(props, tier, seed):
    cases = gen_cases(props, tier, seed)
    total = Bounded(
        'example multisets: all multisets of <= 2 of %d words, sampled triples, random strings over a '
        '%d-character alphabet hitting every class and metacharacter, long inputs (> 99 fragments, 130 '
        'distinct examples); x option sets (tag, strip, remove_empties, extra_letters, variable-length, '
        'dialects%s) x 6 Size settings forcing the sampled path x seeds {None, 7}; distinct by '
        '(examples, options, size, seed)' % (len(WORDS), len(ALPHABET),
                                             ', max_patterns, min_strings_per_pattern' if 'C13' in props else ''),
        '%d cases this run; strings <= 4 characters except the long inputs' % len(cases))
    n = max(1, len(cases) // 64)
    jobs = [(cases[i:i + n], tuple(props), seed) for i in range(0, len(cases), n)]
    ctx = multiprocessing.get_context('fork')
    with ctx.Pool(16) as pool:
        for ev, dist, samples, failures, contracts in pool.imap_unordered(_work, jobs, chunksize=1):
            total.evaluations += ev
            total.distinct |= dist
            total.samples.extend(samples[:1])
            total.failures.extend(failures)
            for k2, v in contracts.items():
                total.contracts[k2] = total.contracts.get(k2, 0) + v
    total.samples = total.samples[:6]
    if 'C03' in props:
        run_pandas_forms(total)
    if 'C14' in props:
        run_seeded_series(total)
    if 'C18' in props:
        run_coverage_matrices(total)
        run_coverage_literals(total)
    return total


def run_seeded_series(b):
    """C14 through the pandas entry point: a seed given to pdextract reaches the extractor (the default sizes only
    sample above 4000 distinct values, so the column has 4200), the global generator is left as it was, and the
    result is the seeded result of the list form."""
    import pandas as pd
    from tdda.rexpy import rexpy
    vals = ['id%05d' % (7 * i) for i in range(4200)] + [None, 'id00000']
    ser = pd.Series(vals, dtype=object)
    w = {'series': '4200 distinct idNNNNN strings, a null and a repeat', 'seed': 5}
    b.case(('pdextract-seeded', 4200))
    for prior in (12345, 999):
        random.seed(prior)
        st = random.getstate()
        with quiet():
            ok, rex = b.guarded('C14.extract.noraise', lambda: rexpy.pdextract(ser, seed=5), w)
        b.check('C14.global-prng-state-unchanged', random.getstate() == st, dict(w, prior_state_seed=prior),
                'random.getstate() differs after pdextract(..., seed=5)')
        if ok:
            random.seed(prior + 1)
            with quiet():
                ok2, rex2 = b.guarded('C14.extract.noraise',
                                      lambda: rexpy.extract([v for v in vals if v is not None], seed=5), w)
            if ok2:
                b.check('C14.list-equals-frequency-dict', rex == rex2, dict(w, form='Series'), '%r vs %r' % (rex, rex2))


def run_pandas_forms(b):
    import pandas as pd
    import numpy as np
    from tdda.rexpy import rexpy
    for vals in (['a', 'b1', None], ['x-1', 'y-22'], ['', 'a'], [None, None], ['é', 'Ω٣']):
        w = {'series': vals}
        b.case(('pdextract', tuple(map(repr, vals))))
        for ser in (pd.Series(vals, dtype=object), [pd.Series(vals, dtype=object), pd.Series(['zz'], dtype=object)]):
            with quiet():
                ok, rex = b.guarded('C03.pdextract.noraise', lambda: rexpy.pdextract(ser), w)
            if ok:
                strings = [v for v in vals if v is not None] + (['zz'] if isinstance(ser, list) else [])
                for s in strings:
                    b.check('C03.every-example-matched', any(matches_full(r, s) for r in rex),
                            dict(w, unmatched=s), '%r unmatched by %r' % (s, rex))


# ---------------------------------------------------------------------------
# exhaustive-domain obligations (complete finite domains, real functions)
# ---------------------------------------------------------------------------

def _chars(lo, hi):
    return [chr(c) for c in range(lo, hi) if not (0xD800 <= c <= 0xDFFF)]


def _unicode_chunk(args):
    lo, hi = args
    from tdda.rexpy import rexpy
    x = rexpy.Extractor(['a'], extract=False)
    cats = x.Cats
    out = {'coarse': [], 'fine': [], 'escape': [], 'portable.Digit': [], 'n': 0}
    pc = rexpy.Categories(dialect='portable')
    coarse_re = {}
    for c in _chars(lo, hi):
        out['n'] += 1
        code = x.coarse_classify_char(c)
        cat = cats[code]
        cr = coarse_re.setdefault(code, re.compile(cat.re_string, RE_FLAGS))
        if not cr.fullmatch(c):
            out['coarse'].append(ord(c))
        if code != cats.UAlphaNumeric.code:
            e = rexpy.escape(c)
            try:
                if not re.fullmatch(e, c, RE_FLAGS):
                    out['escape'].append(ord(c))
            except re.error:
                out['escape'].append(ord(c))
            continue        # fine_class is only applied to alphanumeric characters
        fc = x.fine_class(c)
        fr = coarse_re.setdefault(('f', fc), re.compile(cats[fc].re_string, RE_FLAGS))
        if not fr.fullmatch(c):
            out['fine'].append(ord(c))
        if fc == 'D':
            if not re.fullmatch(pc.Digit.re_string, c, RE_FLAGS):
                out['portable.Digit'].append(ord(c))
        e = rexpy.escape(c)
        try:
            if not re.fullmatch(e, c, RE_FLAGS):
                out['escape'].append(ord(c))
        except re.error:
            out['escape'].append(ord(c))
    return out


def exhaustive_unicode():
    """All 1,112,064 Unicode scalar values through the real classifiers."""
    t = time.time()
    step = 0x110000 // 64 + 1
    jobs = [(lo, min(lo + step, 0x110000)) for lo in range(0, 0x110000, step)]
    ctx = multiprocessing.get_context('fork')
    tot = {'coarse': [], 'fine': [], 'escape': [], 'portable.Digit': [], 'n': 0}
    with ctx.Pool(16) as pool:
        for o in pool.imap_unordered(_unicode_chunk, jobs):
            for k in tot:
                tot[k] += o[k]
    return tot, time.time() - t


def _bracket_chunk(sets):
    from tdda.rexpy import rexpy
    bad = []
    latin = [chr(c) for c in range(0, 256)]
    for chars in sets:
        try:
            r = rexpy.escaped_bracket(list(chars))
            cr = re.compile(r, RE_FLAGS)
            got = set(c for c in latin if cr.fullmatch(c))
            if got != set(chars):
                bad.append((''.join(chars), r))
        except re.error as e:
            bad.append((''.join(chars), 'does not compile'))
    return len(sets), bad


def exhaustive_brackets(max_size):
    """escaped_bracket(chars) denotes exactly set(chars), for every set of 2..max_size punctuation chars."""
    t = time.time()
    punct = [chr(c) for c in range(33, 127) if not chr(c).isalnum()]
    allsets = []
    for k in range(2, max_size + 1):
        allsets.extend(itertools.combinations(punct, k))
    n = max(1, len(allsets) // 64)
    jobs = [allsets[i:i + n] for i in range(0, len(allsets), n)]
    ctx = multiprocessing.get_context('fork')
    total, bad = 0, []
    with ctx.Pool(16) as pool:
        for k, bb in pool.imap_unordered(_bracket_chunk, jobs):
            total += k
            bad += bb
    return total, bad, time.time() - t
